#!/bin/sh
# Developer convenience: run every claimed check (quick by default).
tier=${1:-quick}
cd "$(dirname "$0")"
rc=0
for p in $(python3 -c "import json; print(' '.join(c['property_id'] for c in json.load(open('MANIFEST.json'))['checks']))"); do
  s=$(date +%s.%N)
  ./check $p --tier $tier > /tmp/ivf_$p.out 2>&1; r=$?
  e=$(date +%s.%N)
  printf "%s rc=%s %.1fs  %s\n" $p $r $(echo "$e - $s" | bc) "$(head -1 /tmp/ivf_$p.out | cut -c1-100)"
  [ $r -ne 0 ] && { rc=1; grep "VIOLATION\|BROKEN\|SURVIVED\|FALSE-ALARM" /tmp/ivf_$p.out | head -5; }
done
exit $rc
