#!/bin/sh
# Build the fact extractor from files on disk only (offline).
set -e
cd "$(dirname "$0")"
mkdir -p bin
if [ ! -x bin/ivf-facts ] || [ tools/ivf-facts.cc -nt bin/ivf-facts ]; then
  clang++ $(llvm-config-14 --cxxflags) -fno-rtti -O1 tools/ivf-facts.cc -o bin/ivf-facts.tmp \
    /usr/lib/llvm-14/lib/libclang-cpp.so.14 /usr/lib/llvm-14/lib/libLLVM-14.so
  mv bin/ivf-facts.tmp bin/ivf-facts
fi
echo "setup ok"
