"""Mutant and benign-edit corpus for the thorough tier (see ivf/selftest.py).

Every entry is an exact textual edit of /repo/src that still compiles and keeps
the ten suite tests green.  `expect` is a substring of the violation key the
rule must report; `benign: True` entries must stay silent."""

MUTANTS = []


def M(id, prop, file, old, new, expect=None, benign=False, **kw):
    d = {"id": id, "prop": prop, "edits": [(file, old, new)], "expect": expect, "benign": benign}
    d.update(kw)
    MUTANTS.append(d)


# ---------------------------------------------------------------- C11
M("C11-drop-getkey-remap", "C11", "src/interrogatedb/interrogateElement.cxx",
  "  _getkey_function = remap.map_from(_getkey_function);\n", "",
  expect="R11.1|InterrogateElement|_getkey_function")
M("C11-drop-casts-loop", "C11", "src/interrogatedb/interrogateType.cxx",
  "  for (fi = _casts.begin(); fi != _casts.end(); ++fi) {\n    (*fi) = remap.map_from(*fi);\n  }\n", "",
  expect="R11.1|InterrogateType|_casts[]")
M("C11-cross-remap", "C11", "src/interrogatedb/interrogateManifest.cxx",
  "  _getter = remap.map_from(_getter);", "  _getter = remap.map_from(_type);",
  expect="R11.1|InterrogateManifest")
M("C11-deriv-upcast", "C11", "src/interrogatedb/interrogateType.cxx",
  "    (*di)._upcast = remap.map_from((*di)._upcast);\n", "",
  expect="R11.1|InterrogateType|_derivations[]._upcast")
M("C11-wrappers-not-first", "C11", "src/interrogatedb/interrogateDatabase.cxx",
  """  FunctionWrapperMap new_wrapper_map;
  FunctionWrapperMap::iterator wi;
  for (wi = _wrapper_map.begin(); wi != _wrapper_map.end(); ++wi) {
    remap.add_mapping((*wi).first, first_index);
    new_wrapper_map[first_index] = (*wi).second;
    first_index++;
  }

  // Everything else can follow; it doesn't matter so much.
  FunctionMap new_function_map;
  FunctionMap::iterator fi;
  for (fi = _function_map.begin(); fi != _function_map.end(); ++fi) {
    remap.add_mapping((*fi).first, first_index);
    new_function_map[first_index] = (*fi).second;
    first_index++;
  }
""",
  """  FunctionMap new_function_map;
  FunctionMap::iterator fi;
  for (fi = _function_map.begin(); fi != _function_map.end(); ++fi) {
    remap.add_mapping((*fi).first, first_index);
    new_function_map[first_index] = (*fi).second;
    first_index++;
  }

  FunctionWrapperMap new_wrapper_map;
  FunctionWrapperMap::iterator wi;
  for (wi = _wrapper_map.begin(); wi != _wrapper_map.end(); ++wi) {
    remap.add_mapping((*wi).first, first_index);
    new_wrapper_map[first_index] = (*wi).second;
    first_index++;
  }
""", expect="R11.2|InterrogateDatabase::remap_indices|wrappers-first")
M("C11-first-index-0", "C11", "src/interrogate/interrogateBuilder.cxx",
  "InterrogateDatabase::get_ptr()->remap_indices(1, index_remap);", "InterrogateDatabase::get_ptr()->remap_indices(0, index_remap);",
  expect="R11.2|InterrogateBuilder::remap_indices|first-index-literal-1")
M("C11-global-types-not-remapped", "C11", "src/interrogatedb/interrogateDatabase.cxx",
  "  for (gti = _global_types.begin(); gti != _global_types.end(); ++gti) {\n    (*gti) = remap.map_from(*gti);\n  }\n", "",
  expect="R11.1|InterrogateDatabase|_global_types[]")
M("C11-manifest-records-not-remapped", "C11", "src/interrogatedb/interrogateDatabase.cxx",
  "  for (mi = _manifest_map.begin(); mi != _manifest_map.end(); ++mi) {\n    (*mi).second.remap_indices(remap);\n  }\n", "",
  expect="R11.1|InterrogateDatabase|_manifest_map|records-remapped")
M("C11-header-orig-type", "C11", "src/interrogate/interfaceMakerC.cxx",
  "    out << remap->_return_type->get_new_type()->get_local_name(&parser);",
  "    out << remap->_return_type->get_orig_type()->get_local_name(&parser);",
  expect="R11.4|return-type-accessor")
M("C11-wrapper-index-not-remapped", "C11", "src/interrogate/interrogateBuilder.cxx",
  "    remap->_wrapper_index = index_remap.map_from(remap->_wrapper_index);\n", "",
  expect="R11.1|builder|FunctionRemap::_wrapper_index")
M("C11-double-step", "C11", "src/interrogatedb/interrogateDatabase.cxx",
  "    new_element_map[first_index] = (*ei).second;\n    first_index++;", "    new_element_map[first_index] = (*ei).second;\n    first_index++;\n    first_index++;",
  expect="R11.2|InterrogateDatabase::remap_indices|_element_map|one-step-per-entry")
M("C11-benign-rangefor", "C11", "src/interrogatedb/interrogateFunction.cxx",
  "  for (wi = _python_wrappers.begin(); wi != _python_wrappers.end(); ++wi) {\n    (*wi) = remap.map_from(*wi);\n  }",
  "  for (FunctionWrapperIndex &w : _python_wrappers) {\n    w = remap.map_from(w);\n  }",
  benign=True)
M("C11-benign-reorder", "C11", "src/interrogatedb/interrogateMakeSeq.cxx",
  "  _length_getter = remap.map_from(_length_getter);\n  _element_getter = remap.map_from(_element_getter);",
  "  _element_getter = remap.map_from(_element_getter);\n  _length_getter = remap.map_from(_length_getter);",
  benign=True)

# ---------------------------------------------------------------- C12
M("C12-swap-input-fields", "C12", "src/interrogatedb/interrogateElement.cxx",
  "  in >> _flags >> _type >> _getter >> _setter;", "  in >> _flags >> _getter >> _type >> _setter;",
  expect="R12.1|InterrogateElement|event")
M("C12-comment-read-with-extract", "C12", "src/interrogatedb/interrogateMakeSeq.cxx",
  "  idf_input_string(in, _scoped_name);\n  idf_input_string(in, _comment);\n}\n\n/**\n * Remaps",
  "  idf_input_string(in, _scoped_name);\n  in >> _comment;\n}\n\n/**\n * Remaps",
  expect="R12.1|InterrogateMakeSeq|event")
M("C12-drop-output-field", "C12", "src/interrogatedb/interrogateFunctionWrapper.cxx",
  "      << _return_value_destructor << \" \";", "      ;",
  expect="R12.1|InterrogateFunctionWrapper|event")
M("C12-array-guard-one-side", "C12", "src/interrogatedb/interrogateType.cxx",
  "  if (is_array()) {\n    in >> _array_size;\n  }", "  in >> _array_size;",
  expect="R12.1|InterrogateType|event")
M("C12-copy-drops-prototype", "C12", "src/interrogatedb/interrogateFunction.cxx",
  "  _prototype = copy._prototype;\n", "",
  expect="R12.2|InterrogateFunction|operator=|_prototype")
M("C12-gate-wrong-level", "C12", "src/interrogatedb/interrogateElement.cxx",
  "      if (InterrogateDatabase::get_file_minor_version() >= 3) {", "      if (InterrogateDatabase::get_file_minor_version() >= 4) {",
  expect="R12.3|InterrogateElement::input|last-gate-is-current-minor")
M("C12-gated-field-outside", "C12", "src/interrogatedb/interrogateElement.cxx",
  "  in >> _flags >> _type >> _getter >> _setter;\n  if (InterrogateDatabase::get_file_minor_version() >= 1) {\n    in >> _has_function >> _clear_function;",
  "  in >> _flags >> _type >> _getter >> _setter >> _has_function;\n  if (InterrogateDatabase::get_file_minor_version() >= 1) {\n    in >> _clear_function;",
  expect="R12.3|InterrogateElement")
M("C12-no-flag-on-version", "C12", "src/interrogatedb/interrogateDatabase.cxx",
  "              << _current_major_version << \".\" << _current_minor_version\n              << \".\\n\";\n            set_error_flag(true);",
  "              << _current_major_version << \".\" << _current_minor_version\n              << \".\\n\";",
  expect="R12.4|load_latest|diagnostic-sets-flag")
M("C12-merge-before-range-check", "C12", "src/interrogatedb/interrogateDatabase.cxx",
  "        << \" is out of date.\\n\";\n      return false;", "        << \" is out of date.\\n\";",
  expect="R12.4|read|no-merge-after-range-mismatch")
M("C12-read-new-unchecked", "C12", "src/interrogatedb/interrogateDatabase.cxx",
  "      in >> index >> manifest;\n      if (in.fail()) {\n        return false;\n      }\n", "      in >> index >> manifest;\n",
  expect="R12.4|read_new")
M("C12-default-nonzero", "C12", "src/interrogatedb/interrogateElement.I",
  "  _del_function = 0;\n  _insert_function = 0;", "  _del_function = 0;\n  _insert_function = -1;",
  expect="R12.3|InterrogateElement|default-zero|_insert_function")
M("C12-benign-split-chain", "C12", "src/interrogatedb/interrogateManifest.cxx",
  "  in >> _flags >> _int_value >> _type >> _getter;", "  in >> _flags >> _int_value;\n  in >> _type >> _getter;",
  benign=True)
M("C12-benign-merge-error-branches", "C12", "src/interrogatedb/interrogateDatabase.cxx",
  "          std::cerr << \"Unable to read \" << pathname << \".\\n\";\n          set_error_flag(true);",
  "          set_error_flag(true);\n          std::cerr << \"Unable to read \" << pathname << \".\\n\";",
  benign=True)

# ---------------------------------------------------------------- C20
M("C20-le-size", "C20", "src/interrogatedb/interrogateType.I",
  "  if (n >= 0 && n < (int)_methods.size()) {", "  if (n >= 0 && n <= (int)_methods.size()) {",
  expect="R20.1|InterrogateType::get_method")
M("C20-other-vector", "C20", "src/interrogatedb/interrogateType.I",
  "  if (n >= 0 && n < (int)_casts.size()) {", "  if (n >= 0 && n < (int)_methods.size()) {",
  expect="R20.1|InterrogateType::get_cast")
M("C20-no-lower", "C20", "src/interrogatedb/interrogateDatabase.cxx",
  "  if (n >= 0 && n < (int)_global_elements.size()) {", "  if (n < (int)_global_elements.size()) {",
  expect="R20.1|InterrogateDatabase::get_global_element")
M("C20-deref-before-end-test", "C20", "src/interrogatedb/interrogateDatabase.cxx",
  "  mi = _manifest_map.find(manifest);\n  if (mi == _manifest_map.end()) {\n    return bogus_manifest;\n  }\n  return (*mi).second;",
  "  mi = _manifest_map.find(manifest);\n  const InterrogateManifest &r = (*mi).second;\n  if (mi == _manifest_map.end()) {\n    return bogus_manifest;\n  }\n  return r;",
  expect="R20.2|get_manifest|deref-only-when-found")
M("C20-uninit-scalar", "C20", "src/interrogatedb/interrogateManifest.I",
  "  _int_value = 0;\n", "",
  expect="R20.2|InterrogateManifest|init|_int_value")
M("C20-revert-mid", "C20", "src/interrogatedb/interrogateDatabase.cxx",
  "    return binary_search_wrapper_hash(mid + 1, end, wrapper_hash_name);", "    return binary_search_wrapper_hash(mid, end, wrapper_hash_name);",
  expect="R20.3|InterrogateDatabase::binary_search_wrapper_hash")
M("C20-drop-size-test", "C20", "src/interrogatedb/interrogateDatabase.cxx",
  "  if (unique_name.size() < 4) {\n    return 0;\n  }\n", "",
  expect="R20.4|InterrogateDatabase::get_wrapper_by_unique_name")
M("C20-cstr-temporary", "C20", "src/interrogatedb/interrogate_interface.cxx",
  "  return InterrogateDatabase::get_ptr()->get_make_seq(make_seq).get_comment().c_str();",
  "  return std::string(InterrogateDatabase::get_ptr()->get_make_seq(make_seq).get_comment()).c_str();",
  expect="R20.5|interrogate_make_seq_comment")
M("C20-count-other-container", "C20", "src/interrogatedb/interrogateType.I",
  "number_of_methods() const {\n  return _methods.size();", "number_of_methods() const {\n  return _casts.size();",
  expect="R20.6|InterrogateType::number_of_methods")
M("C20-benign-early-return", "C20", "src/interrogatedb/interrogateDatabase.cxx",
  "  if (n >= 0 && n < (int)_global_manifests.size()) {\n    return _global_manifests[n];\n  }\n  return 0;",
  "  if (n < 0 || n >= (int)_global_manifests.size()) {\n    return 0;\n  }\n  return _global_manifests[n];",
  benign=True)
M("C20-benign-size-guard-form", "C20", "src/interrogatedb/interrogateDatabase.cxx",
  "  if (unique_name.size() < 4) {\n    return 0;\n  }\n", "  if (!(unique_name.length() >= 4)) {\n    return 0;\n  }\n",
  benign=True)

# ---------------------------------------------------------------- C13
M("C13-no-check-latest", "C13", "src/interrogatedb/interrogateDatabase.cxx",
  "get_all_type(int n) {\n  check_latest();\n", "get_all_type(int n) {\n",
  expect="R13.1|InterrogateDatabase::get_all_type")
M("C13-check-latest-after-find", "C13", "src/interrogatedb/interrogateDatabase.cxx",
  "  static InterrogateElement bogus_element;\n\n  check_latest();\n  ElementMap::const_iterator ei;\n  ei = _element_map.find(element);",
  "  static InterrogateElement bogus_element;\n\n  ElementMap::const_iterator ei;\n  ei = _element_map.find(element);\n  check_latest();",
  expect="R13.1|InterrogateDatabase::get_element")
M("C13-no-cache-reset", "C13", "src/interrogatedb/interrogateDatabase.cxx",
  "    update_make_seq(other_make_seq_index).remap_indices(remap);\n  }\n\n  _lookups_fresh = 0;", "    update_make_seq(other_make_seq_index).remap_indices(remap);\n  }\n",
  expect="R13.2|merge_from|reset-after-last-mutation")
M("C13-wrong-bit", "C13", "src/interrogatedb/interrogateDatabase.I",
  "  return lookup(name, _types_by_scoped_name, LT_type_scoped_name,", "  return lookup(name, _types_by_scoped_name, LT_type_name,",
  expect="R13.2|lookup_type_by_scoped_name|table-bit-freshen")
M("C13-freshen-wrong-key", "C13", "src/interrogatedb/interrogateDatabase.cxx",
  "    _types_by_true_name[(*ti).second.get_true_name()] = (*ti).first;", "    _types_by_true_name[(*ti).second.get_scoped_name()] = (*ti).first;",
  expect="R13.2|freshen_types_by_true_name")
M("C13-manifest-not-renumbered", "C13", "src/interrogatedb/interrogateDatabase.cxx",
  "    update_manifest(other_manifest_index).remap_indices(remap);\n", "",
  expect="R13.3|merge_from|_manifest_map|renumbered")
M("C13-merge-before-remap", "C13", "src/interrogatedb/interrogateDatabase.cxx",
  "      merge_type.remap_indices(remap);\n      this_type.merge_with(merge_type);", "      this_type.merge_with(merge_type);\n      merge_type.remap_indices(remap);",
  expect="R13.3|merge_from|shared-type|renumbered-before-merge_with")
M("C13-range-not-advanced", "C13", "src/interrogatedb/interrogateDatabase.cxx",
  "    _next_index += num_indices;", "    _next_index += 1;",
  expect="R13.4|request_module|advance")
M("C13-refresh-sets-no-bit", "C13", "src/interrogatedb/interrogateDatabase.cxx",
  "    (this->*freshen)();\n    _lookups_fresh |= (int)type;", "    (this->*freshen)();",
  expect="R13.2|lookup|refresh-iff-stale")
M("C13-benign-rename-local", "C13", "src/interrogatedb/interrogateDatabase.cxx",
  "  int num_indices = def->next_index - def->first_index;\n  if (num_indices > 0) {", "  int count = def->next_index - def->first_index;\n  int num_indices = count;\n  if (count > 0) {",
  benign=True, allow_broken=False)
M("C13-benign-reorder-loops", "C13", "src/interrogatedb/interrogateDatabase.cxx",
  "  _lookups_fresh = 0;\n}\n\n/**\n * Looks up the wrapper definition", "  _lookups_fresh = 0;\n  return;\n}\n\n/**\n * Looks up the wrapper definition",
  benign=True)

# ---------------------------------------------------------------- C19
M("C19-drop-fail-test", "C19", "src/interrogate/interrogate.cxx",
  "      output_data.close();\n      if (output_data.fail()) {\n        nout << \"Error writing \" << output_data_filename << \"\\n\";\n        status = -1;\n      }\n",
  "      output_data.close();\n",
  expect="R19.o2|interrogate.cxx::main|output_data")
M("C19-test-before-close", "C19", "src/interrogate/interrogate.cxx",
  "      output_text.close();\n      if (output_text.fail()) {", "      if (output_text.fail()) {",
  expect="R19.o2|interrogate.cxx::main|output_text")
M("C19-status-reset", "C19", "src/interrogate/interrogate.cxx",
  "  if (!output_text_filename.empty()) {\n    std::ofstream output_text;", "  status = 0;\n  if (!output_text_filename.empty()) {\n    std::ofstream output_text;",
  expect="R19.o3|interrogate.cxx::main")
M("C19-module-open-unreported", "C19", "src/interrogate/interrogate_module.cxx",
  "      nout << \"Unable to write to \" << output_code_filename << \"\\n\";\n      status = 1;", "      nout << \"Unable to write to \" << output_code_filename << \"\\n\";",
  expect="R19.o3|interrogate_module.cxx::main|output_code|failure-edge")
M("C19-module-return-zero", "C19", "src/interrogate/interrogate_module.cxx",
  "  return status;\n}", "  return (status, 0);\n}",
  expect="R19.o3|interrogate_module.cxx::main")
M("C19-write-after-check", "C19", "src/interrogate/interrogate.cxx",
  "        nout << \"Error writing \" << output_code_filename << \"\\n\";\n        status = -1;\n      }\n",
  "        nout << \"Error writing \" << output_code_filename << \"\\n\";\n        status = -1;\n      }\n      output_code << \"\\n\";\n",
  expect="R19.o2|interrogate.cxx::main|output_code")
M("C19-benign-not-operator", "C19", "src/interrogate/interrogate.cxx",
  "      output_data.close();\n      if (output_data.fail()) {", "      output_data.close();\n      if (!output_data) {",
  benign=True)
M("C19-benign-exit-call", "C19", "src/interrogate/interrogate_module.cxx",
  "      nout << \"Unable to write to \" << output_code_filename << \"\\n\";\n      status = 1;", "      nout << \"Unable to write to \" << output_code_filename << \"\\n\";\n      exit(1);",
  benign=True)

# ---------------------------------------------------------------- C04
M("C04-enum-no-vis-gate", "C04", "src/interrogate/interrogateBuilder.cxx",
  "  if (type->_vis > min_vis) {\n    // The type is not marked to be exported.\n    return;\n  }\n\n  get_type(type, true);\n}\n\n/**\n * Adds the indicated typedef type",
  "  get_type(type, true);\n}\n\n/**\n * Adds the indicated typedef type",
  expect="R04.1|scan_enum_type|get_type|vis")
M("C04-vis-flipped", "C04", "src/interrogate/interrogateBuilder.cxx",
  "  if (manifest->_vis > min_vis) {", "  if (manifest->_vis < min_vis) {",
  expect="R04.1|scan_manifest|add_manifest|vis")
M("C04-manifest-no-file-gate", "C04", "src/interrogate/interrogateBuilder.cxx",
  "  if (manifest->_loc.file._source != CPPFile::S_local ||\n      in_ignorefile(manifest->_loc.file._filename_as_referenced)) {",
  "  if (in_ignorefile(manifest->_loc.file._filename_as_referenced)) {",
  expect="R04.1|scan_manifest|add_manifest|file")
M("C04-struct-any-exported-init-true", "C04", "src/interrogate/interrogateBuilder.cxx",
  "  if (type->_vis > min_vis) {\n    CPPScope *scope = type->_scope;\n\n    bool any_exported = false;", "  if (type->_vis > min_vis) {\n    CPPScope *scope = type->_scope;\n\n    bool any_exported = true;",
  expect="R04.1|scan_struct_type|get_type|vis")
M("C04-deleted-methods-exported", "C04", "src/interrogate/interrogateBuilder.cxx",
  "  if (function->_storage_class & CPPInstance::SC_deleted) {\n    // It was explicitly marked as deleted.\n    return;\n  }\n", "",
  expect="R04.2|define_method|get_function|not-deleted")
M("C04-force-publish-always", "C04", "src/interrogate/interrogateBuilder.cxx",
  "      (function->_storage_class & CPPInstance::SC_static) != 0 &&\n      function->_vis <= V_public) {\n    force_publish = true;",
  "      (function->_storage_class & CPPInstance::SC_static) != 0) {\n    force_publish = true;",
  expect="R04.2|define_method|force_publish#0")
M("C04-protected-pointer-arm", "C04", "src/interrogate/typeManager.cxx",
  "  case CPPDeclaration::ST_pointer:\n    return involves_protected(type->as_pointer_type()->_pointing_at);\n", "",
  expect="R04.3|involves_protected|ST_pointer")
M("C04-ignoreinvolved-params", "C04", "src/interrogate/interrogateBuilder.cxx",
  "      for (pi = params.begin(); pi != params.end(); ++pi) {\n        if (in_ignoreinvolved((*pi)->_type)) {\n          return true;\n        }\n      }\n      return false;",
  "      return false;",
  expect="R04.3|in_ignoreinvolved|ST_function")
M("C04-slocal-in-path-loop", "C04", "src/cppparser/cppPreprocessor.cxx",
  "      source = _quote_include_kind[dir];", "      source = CPPFile::S_local;",
  expect="R04.4|find_include|S_local-not-in-search-loop")
M("C04-minvis-private-under-spam", "C04", "src/interrogate/interrogate.cxx",
  "      generate_spam = true;", "      generate_spam = true;\n      min_vis = V_private;",
  expect="R04.4|min_vis|write|main")
M("C04-ignoremember-wrong-set", "C04", "src/interrogate/interrogateBuilder.cxx",
  "    insert_param_list(_ignoremember, params);", "    insert_param_list(_ignorefile, params);",
  expect="R04.5|command|ignoremember")
M("C04-nested-no-vis", "C04", "src/interrogate/interrogateBuilder.cxx",
  "      // An anonymous enum type.\n      if (type->_vis <= min_vis) {", "      // An anonymous enum type.\n      if (type->_vis <= V_private) {",
  expect="R04.2|define_struct_type|nested-get_type")
M("C04-benign-split-or", "C04", "src/interrogate/interrogateBuilder.cxx",
  "  if (type->_file._source != CPPFile::S_local ||\n      in_ignorefile(type->_file._filename_as_referenced)) {\n    // The type is defined in some other package or in an ignorable file.\n    return;\n  }\n\n  if (type->_vis > min_vis) {\n    // The type is not marked to be exported.",
  "  if (type->_file._source != CPPFile::S_local) {\n    return;\n  }\n  if (in_ignorefile(type->_file._filename_as_referenced)) {\n    // The type is defined in some other package or in an ignorable file.\n    return;\n  }\n\n  if (type->_vis > min_vis) {\n    // The type is not marked to be exported.",
  benign=True)
M("C04-benign-positive-form", "C04", "src/interrogate/interrogateBuilder.cxx",
  "  if (manifest->_vis > min_vis) {\n    // The manifest is not marked for export.\n    return;\n  }\n\n  if (manifest->_has_parameters) {",
  "  if (!(manifest->_vis <= min_vis)) {\n    // The manifest is not marked for export.\n    return;\n  }\n\n  if (manifest->_has_parameters) {",
  benign=True)
M("C04-benign-new-arm", "C04", "src/interrogate/typeManager.cxx",
  "  case CPPDeclaration::ST_typedef:\n    return involves_protected(type->as_typedef_type()->_type);\n",
  "  case CPPDeclaration::ST_typedef:\n    return involves_protected(type->as_typedef_type()->_type);\n\n  case CPPDeclaration::ST_array:\n    return involves_protected(type->as_array_type()->_element_type);\n",
  benign=True)

# ---------------------------------------------------------------- C16
M("C16-test-before-writers", "C16", "src/interrogate/interrogate_module.cxx",
  "  int status = 0;\n\n  // Now output the table.",
  "  if (interrogate_error_flag()) {\n    nout << \"Error reading interrogate data.\\n\";\n    output_code_filename.unlink();\n    exit(1);\n  }\n  int status = 0;\n\n  // Now output the table.",
  expect="R16.1|main|error-flag-test")
M("C16-exit-zero-on-error", "C16", "src/interrogate/interrogate_module.cxx",
  "    output_code_filename.unlink();\n    exit(1);", "    output_code_filename.unlink();\n    exit(0);",
  expect="R16.1|main|error-edge|non-zero-exit")
M("C16-no-unlink", "C16", "src/interrogate/interrogate_module.cxx",
  "    output_code_filename.unlink();\n    exit(1);", "    exit(1);",
  expect="R16.1|main|error-edge|unlinks-output")
M("C16-early-return-skips-test", "C16", "src/interrogate/interrogate_module.cxx",
  "      if (build_python_native_wrappers) {\n        write_python_table_native(output_code);\n      }\n",
  "      if (build_python_native_wrappers) {\n        write_python_table_native(output_code);\n        return status;\n      }\n",
  expect="R16.1|main|write_python_table_native")
M("C16-deps-empty-negated", "C16", "src/interrogate/interrogate_module.cxx",
  "      if (deps.empty()) {\n        // OK, no remaining dependencies, so we can add this.", "      if (!deps.empty()) {\n        // OK, no remaining dependencies, so we can add this.",
  expect="R16.2|ready-set|push-only-when-deps-empty")
M("C16-no-uniqueness", "C16", "src/interrogate/interrogate_module.cxx",
  "        if (std::find(libraries.begin(), libraries.end(), library_name) == libraries.end()) {\n          libraries.push_back(library_name);\n          added_any = true;\n        }",
  "        {\n          libraries.push_back(library_name);\n          added_any = true;\n        }",
  expect="R16.2|ready-set|push-at-most-once")
M("C16-erase-unemitted", "C16", "src/interrogate/interrogate_module.cxx",
  "        for (auto li = libraries.begin(); li != libraries.end(); ++li) {\n          deps.erase(*li);\n        }",
  "        for (auto li = dependencies.begin(); li != dependencies.end(); ++li) {\n          deps.erase(li->first);\n        }",
  expect="R16.2|erase#0")
M("C16-benign-return-1", "C16", "src/interrogate/interrogate_module.cxx",
  "    output_code_filename.unlink();\n    exit(1);", "    output_code_filename.unlink();\n    return 1;",
  benign=True)

# ---------------------------------------------------------------- C17
M("C17-includer-before-cwd", "C17", "src/cppparser/cppPreprocessor.cxx",
  "  if (!angle_quotes && filename.is_regular_file()) {\n    source = CPPFile::S_local;\n    return true;\n  }\n\n  // Search the same directory as the includer.\n  if (!angle_quotes) {\n    Filename match(get_file()._filename.get_dirname(), filename);\n    if (match.is_regular_file()) {\n      filename = match;\n      source = CPPFile::S_alternate;\n      return true;\n    }\n  }\n",
  "  // Search the same directory as the includer.\n  if (!angle_quotes) {\n    Filename match(get_file()._filename.get_dirname(), filename);\n    if (match.is_regular_file()) {\n      filename = match;\n      source = CPPFile::S_alternate;\n      return true;\n    }\n  }\n\n  if (!angle_quotes && filename.is_regular_file()) {\n    source = CPPFile::S_local;\n    return true;\n  }\n",
  expect="R17.1|find_include|probe#0")
M("C17-angle-searches-cwd", "C17", "src/cppparser/cppPreprocessor.cxx",
  "  if (!angle_quotes && filename.is_regular_file()) {\n    source = CPPFile::S_local;", "  if (filename.is_regular_file()) {\n    source = CPPFile::S_local;",
  expect="R17.1|find_include|probe#0")
M("C17-system-labelled-local", "C17", "src/cppparser/cppPreprocessor.cxx",
  "          filename = match;\n          source = CPPFile::S_system;\n          return true;", "          filename = match;\n          source = CPPFile::S_alternate;\n          return true;",
  expect="R17.1|find_include|probe#3")
M("C17-noangles-ignored", "C17", "src/cppparser/cppPreprocessor.cxx",
  "      filename = expr.substr(1, expr.size() - 2);\n      if (!_noangles) {\n        // If _noangles is true, we don't make a distinction between angle\n        // brackets and quote marks--all #include statements are treated the\n        // same, as if they used quote marks.\n        angle_quotes = true;\n      }",
  "      filename = expr.substr(1, expr.size() - 2);\n      angle_quotes = true;",
  expect="R17.1|handle_include_directive|angle-iff-not-noangles")
M("C17-S-not-in-quote-path", "C17", "src/interrogate/interrogate.cxx",
  "      parser._angle_include_path.append_directory(fn);\n      parser._quote_include_path.append_directory(fn);\n      parser._quote_include_kind.push_back(CPPFile::S_system);",
  "      parser._angle_include_path.append_directory(fn);",
  expect="R17.2|interrogate.cxx|-S")
M("C17-I-kind-system", "C17", "src/interrogate/parse_file.cxx",
  "      parser._quote_include_kind.push_back(CPPFile::S_alternate);", "      parser._quote_include_kind.push_back(CPPFile::S_system);",
  expect="R17.2|parse_file.cxx|-I|quote-path-alternate")
M("C17-prepend", "C17", "src/interrogate/interrogate.cxx",
  "      parser._quote_include_path.append_directory(fn);\n      parser._quote_include_kind.push_back(CPPFile::S_alternate);",
  "      parser._quote_include_path.prepend_directory(fn);\n      parser._quote_include_kind.push_back(CPPFile::S_alternate);",
  expect="R17.2|interrogate.cxx|-I|one-kind-per-directory")
M("C17-no-canonical", "C17", "src/cppparser/cppPreprocessor.cxx",
  "    // If it was explicitly named on the command-line, mark it S_local.\n    filename.make_canonical();\n", "    // If it was explicitly named on the command-line, mark it S_local.\n",
  expect="R17.4|handle_include_directive|canonical-before")
M("C17-revert-explicit-absolute", "C17", "src/interrogate/interrogate.cxx",
  "    filename.make_canonical();\n    parser._explicit_files.insert(filename);", "    filename.make_absolute();\n    parser._explicit_files.insert(filename);",
  expect="R17.4|_explicit_files|insert-normaliser")
M("C17-miss-is-error", "C17", "src/cppparser/cppPreprocessor.cxx",
  "    warning(\"Cannot find \" + filename.get_fullpath(), loc);", "    error(\"Cannot find \" + filename.get_fullpath(), loc);",
  expect="R17.1|handle_include_directive|miss-only-warns")
M("C17-benign-canonicalise-earlier", "C17", "src/cppparser/cppPreprocessor.cxx",
  "    _last_c = '\\0';\n\n    // If it was explicitly named on the command-line, mark it S_local.\n    filename.make_canonical();",
  "    filename.make_canonical();\n    _last_c = '\\0';\n\n    // If it was explicitly named on the command-line, mark it S_local.",
  benign=True)

# ---------------------------------------------------------------- C05
M("C05-destructor-tests-constructor", "C05", "src/interrogatedb/interrogateFunction.I",
  "is_destructor() const {\n  return (_flags & F_destructor) != 0;", "is_destructor() const {\n  return (_flags & F_constructor) != 0;",
  expect="R05.1|InterrogateFunction::is_destructor")
M("C05-ctor-sets-dtor", "C05", "src/interrogate/interrogateBuilder.cxx",
  "    // This is a constructor.\n    ifunction->_flags |= InterrogateFunction::F_constructor;",
  "    // This is a constructor.\n    ifunction->_flags |= InterrogateFunction::F_destructor;",
  expect="R05.2|get_function|F_destructor")
M("C05-this-on-back", "C05", "src/interrogate/functionRemap.cxx",
  "    iwrapper._parameters.front()._parameter_flags |=\n      InterrogateFunctionWrapper::PF_is_this;", "    iwrapper._parameters.back()._parameter_flags |=\n      InterrogateFunctionWrapper::PF_is_this;",
  expect="R05.2|make_wrapper_entry|PF_is_this|on-front")
M("C05-has-return-polarity", "C05", "src/interrogate/functionRemap.cxx",
  "  if (!_void_return) {\n    iwrapper._flags |= InterrogateFunctionWrapper::F_has_return;", "  if (_void_return) {\n    iwrapper._flags |= InterrogateFunctionWrapper::F_has_return;",
  expect="R05.2|make_wrapper_entry|F_has_return")
M("C05-union-as-struct", "C05", "src/interrogate/interrogateBuilder.cxx",
  "  case CPPExtensionType::T_union:\n    itype._flags |= InterrogateType::F_union;\n    break;\n\n  default:\n    break;\n  }\n\n  if (cpptype->is_final()) {",
  "  case CPPExtensionType::T_union:\n    itype._flags |= InterrogateType::F_struct;\n    break;\n\n  default:\n    break;\n  }\n\n  if (cpptype->is_final()) {",
  expect="R05.2|define_struct_type|F_struct")
M("C05-label-swapped", "C05", "src/interrogatedb/interrogateElement.cxx",
  "    if (_flags & F_has_setter) {\n      out << \" has_setter\";", "    if (_flags & F_has_setter) {\n      out << \" has_getter\";",
  expect="R05.3|InterrogateElement::write|F_has_setter")
M("C05-flag-bit-clash", "C05", "src/interrogatedb/interrogateFunction.h",
  "    F_constructor     = 0x0100,", "    F_constructor     = 0x0200,",
  expect="R05.1|InterrogateFunction::")
M("C05-benign-reorder-ifs", "C05", "src/interrogate/functionRemap.cxx",
  "  if (_flags & F_copy_constructor) {\n    iwrapper._flags |= InterrogateFunctionWrapper::F_copy_constructor;\n  }\n\n  if (_flags & F_coerce_constructor) {\n    iwrapper._flags |= InterrogateFunctionWrapper::F_coerce_constructor;\n  }",
  "  if (_flags & F_coerce_constructor) {\n    iwrapper._flags |= InterrogateFunctionWrapper::F_coerce_constructor;\n  }\n\n  if (_flags & F_copy_constructor) {\n    iwrapper._flags |= InterrogateFunctionWrapper::F_copy_constructor;\n  }",
  benign=True)

M("C05-upcast-roles-swapped", "C05", "src/interrogate/interrogateBuilder.cxx",
  'd._upcast = get_cast_function(base_type, cpptype, "upcast");', 'd._upcast = get_cast_function(cpptype, base_type, "upcast");',
  expect="R05.4|define_struct_type|upcast-roles")
M("C05-downcast-flag-for-upcast", "C05", "src/interrogate/interrogateBuilder.cxx",
  "          d._flags |= InterrogateType::DF_upcast;", "          d._flags |= InterrogateType::DF_downcast;",
  expect="R05.4|define_struct_type|upcast-flag")
M("C05-downcast-through-virtual", "C05", "src/interrogate/interrogateBuilder.cxx",
  "          if (base._is_virtual) {\n            // If this is a virtual inheritance, we can't write a downcast.", "          if (false) {\n            // If this is a virtual inheritance, we can't write a downcast.",
  expect="R05.4|define_struct_type|no-downcast-through-virtual-base")
M("C05-private-bases-recorded", "C05", "src/interrogate/interrogateBuilder.cxx",
  "    const CPPStructType::Base &base = (*bi);\n    if (base._vis <= V_public) {", "    const CPPStructType::Base &base = (*bi);\n    if (base._vis <= V_private) {",
  expect="R05.4|define_struct_type|derivation#")
M("C05-param-name-from-first", "C05", "src/interrogate/functionRemap.cxx",
  "    param._name = (*pi)._name;\n    if ((*pi)._has_name) {", "    param._name = _parameters.front()._name;\n    if ((*pi)._has_name) {",
  expect="R05.4|make_wrapper_entry|parameter-name")
M("C05-benign-cast-locals", "C05", "src/interrogate/interrogateBuilder.cxx",
  '          d._upcast = get_cast_function(base_type, cpptype, "upcast");\n          d._flags |= InterrogateType::DF_upcast;', '          d._flags |= InterrogateType::DF_upcast;\n          d._upcast = get_cast_function(base_type, cpptype, "upcast");',
  benign=True)

# ---------------------------------------------------------------- C10
M("C10-destructible-ignores-deleted", "C10", "src/cppparser/cppStructType.cxx",
  "    if (destructor->_storage_class & CPPInstance::SC_deleted) {\n      // Yes, but it's explicitly been deleted.\n      return false;\n    }\n", "",
  expect="R10.1|is_destructible|D:destructor")
M("C10-base-public", "C10", "src/cppparser/cppStructType.cxx",
  "      if (!base->is_copy_constructible(V_protected)) {", "      if (!base->is_copy_constructible(V_public)) {",
  expect="R10.1|is_copy_constructible|B")
M("C10-copy-skips-members", "C10", "src/cppparser/cppStructType.cxx",
  "    if (!instance->_type->is_copy_constructible()) {\n      return false;\n    }", "    if (!instance->_type->is_copy_constructible()) {\n      continue;\n    }",
  expect="R10.1|is_copy_constructible|M")
M("C10-abstract-default-constructible", "C10", "src/cppparser/cppStructType.cxx",
  "is_default_constructible() const {\n  // An abstract class cannot be created as a complete object (it can as the\n  // base-class sub-object of a derived class, see the overload below).\n  if (is_abstract()) {\n    return false;\n  }\n", "is_default_constructible() const {\n",
  expect="R10.1|is_default_constructible()|X:complete-object")
M("C10-abstract-base-makes-derived-unconstructible", "C10", "src/cppparser/cppStructType.cxx",
  "is_default_constructible(CPPVisibility min_vis) const {\n", "is_default_constructible(CPPVisibility min_vis) const {\n  if (is_abstract()) {\n    return false;\n  }\n",
  expect="R10.1|is_default_constructible(min_vis)|X:not-for-sub-objects")
M("C10-access-flipped", "C10", "src/cppparser/cppStructType.cxx",
  "    if (destructor->_vis > min_vis) {\n      // Yes, but it's inaccessible.", "    if (destructor->_vis < min_vis) {\n      // Yes, but it's inaccessible.",
  expect="R10.1|is_destructible|A:destructor")
M("C10-move-ops-ignored", "C10", "src/cppparser/cppStructType.cxx",
  "  if (get_move_constructor() != nullptr ||\n      get_move_assignment_operator() != nullptr) {", "  if (get_move_constructor() != nullptr) {",
  expect="R10.1|is_copy_constructible|MV:move_assignment_operator")
M("C10-implicit-ctor-unguarded", "C10", "src/interrogate/interrogateBuilder.cxx",
  "  if (constructor == nullptr && cpptype->is_default_constructible()) {", "  if (constructor == nullptr) {",
  expect="R10.2|implicit-default-constructor|predicate")
M("C10-abstract-ctor-registered", "C10", "src/interrogate/interrogateBuilder.cxx",
  "  if ((ftype->_flags & CPPFunctionType::F_constructor) &&\n      struct_type != nullptr &&\n      struct_type->is_abstract()) {\n    // This is a constructor for an abstract class; forget it.\n    return 0;\n  }\n", "",
  expect="R10.2|get_function|no-constructor-of-abstract-class")
M("C10-static-members-count", "C10", "src/cppparser/cppStructType.cxx",
  "    if (instance->_storage_class & CPPInstance::SC_static) {\n      // Static members don't count.\n      continue;\n    }\n\n    // If the data member is not destructible, no go.", "    // If the data member is not destructible, no go.",
  expect="R10.1|is_destructible|M:static-skip")
M("C10-benign-swap-loops", "C10", "src/cppparser/cppStructType.cxx",
  "    if (destructor->_vis > min_vis) {\n      // Yes, but it's inaccessible.\n      return false;\n    }\n\n    if (destructor->_storage_class & CPPInstance::SC_deleted) {\n      // Yes, but it's explicitly been deleted.\n      return false;\n    }\n",
  "    if (destructor->_storage_class & CPPInstance::SC_deleted) {\n      // Yes, but it's explicitly been deleted.\n      return false;\n    }\n\n    if (!(destructor->_vis <= min_vis)) {\n      // Yes, but it's inaccessible.\n      return false;\n    }\n",
  benign=True)

# ---------------------------------------------------------------- C07
M("C07-minus-operands-swapped", "C07", "src/cppparser/cppBison.yxx",
  "        | const_expr '-' const_expr\n{\n  $$ = new CPPExpression('-', $1, $3);", "        | const_expr '-' const_expr\n{\n  $$ = new CPPExpression('-', $3, $1);",
  expect="R07.1|const_expr|binary|const_expr_'-'_const_expr")
M("C07-lshift-builds-rshift", "C07", "src/cppparser/cppBison.yxx",
  "        | const_expr LSHIFT const_expr\n{\n  $$ = new CPPExpression(LSHIFT, $1, $3);", "        | const_expr LSHIFT const_expr\n{\n  $$ = new CPPExpression(RSHIFT, $1, $3);",
  expect="R07.1|const_expr|binary|const_expr_LSHIFT_const_expr")
M("C07-prec-plus-below-times", "C07", "src/cppparser/cppBison.yxx",
  "%left '+' '-'\n%left '*' '/' '%'", "%left '*' '/' '%'\n%left '+' '-'",
  expect="R07.2|order|")
M("C07-ternary-left-assoc", "C07", "src/cppparser/cppBison.yxx",
  "%right '?'", "%left '?'",
  expect="R07.2|assoc|'?'")
M("C07-eval-minus-computes-plus", "C07", "src/cppparser/cppExpression.cxx",
  "        return Result(r1.as_integer() - r2.as_integer());", "        return Result(r1.as_integer() + r2.as_integer());",
  expect="R07.3|evaluate|'-'")
M("C07-eval-less-swapped", "C07", "src/cppparser/cppExpression.cxx",
  "        return Result(r1.as_integer() < r2.as_integer());", "        return Result(r2.as_integer() < r1.as_integer());",
  expect="R07.3|evaluate|'<'")
M("C07-eval-real-branch-int", "C07", "src/cppparser/cppExpression.cxx",
  "        return Result(r1.as_real() * r2.as_real());", "        return Result(r1.as_integer() * r2.as_integer());",
  expect="R07.3|evaluate|'*'")
M("C07-delete-case-lshift", "C07", "src/cppparser/cppExpression.cxx",
  "    case LSHIFT:\n      return Result(r1.as_integer() << r2.as_integer());\n\n", "",
  expect="R07.4|evaluate|case|LSHIFT")
M("C07-oror-returns-operand", "C07", "src/cppparser/cppExpression.cxx",
  "      if (r1.as_boolean()) {\n        return Result(true);\n      } else if (r2._type == RT_error) {", "      if (r1.as_boolean()) {\n        return r1;\n      } else if (r2._type == RT_error) {",
  expect="R07.3|evaluate|OROR")
M("C07-drop-zero-test", "C07", "src/cppparser/cppExpression.cxx",
  "      if (r2.as_integer() == 0 ||\n          (r2.as_integer() == -1 && r1.as_integer() == INT_MIN)) {\n        return Result();\n      }\n      return Result(r1.as_integer() % r2.as_integer());",
  "      return Result(r1.as_integer() % r2.as_integer());",
  expect="R07.5|evaluate|%|zero-divisor")
M("C07-enum-error-not-checked", "C07", "src/interrogate/interrogateBuilder.cxx",
  "      if (result._type == CPPExpression::RT_error) {\n        nout << \"enum value \";", "      if (false) {\n        nout << \"enum value \";",
  expect="R07.6|define_enum_type|as_integer-under-type-test")
M("C07-enum-double-increment", "C07", "src/interrogate/interrogateBuilder.cxx",
  "    itype._enum_values.push_back(evalue);\n\n    next_value++;", "    itype._enum_values.push_back(evalue);\n\n    next_value++;\n    next_value++;",
  expect="R07.6|define_enum_type|implicit-increment")
M("C07-new-operator-without-case", "C07", "src/cppparser/cppBison.yxx",
  "        | const_expr POINTSAT const_expr\n{\n  $$ = new CPPExpression(POINTSAT, $1, $3);", "        | const_expr POINTSAT const_expr\n{\n  $$ = new CPPExpression(POINTSAT_STAR, $1, $3);",
  expect="R07.4|evaluate|case|POINTSAT_STAR")
M("C07-benign-locals", "C07", "src/cppparser/cppExpression.cxx",
  "    case '|':\n      return Result(r1.as_integer() | r2.as_integer());", "    case '|':\n      {\n        return Result((r1.as_integer()) | (r2.as_integer()));\n      }",
  benign=True)
M("C07-benign-reorder-prec-line", "C07", "src/cppparser/cppBison.yxx",
  "%left LECOMPARE GECOMPARE '<' '>'", "%left '<' '>' LECOMPARE GECOMPARE",
  benign=True)
M("C07-benign-zero-guard-form", "C07", "src/cppparser/cppExpression.cxx",
  "      if (r2.as_integer() == 0 ||\n          (r2.as_integer() == -1 && r1.as_integer() == INT_MIN)) {\n        return Result();\n      }\n      return Result(r1.as_integer() % r2.as_integer());",
  "      if (r2.as_integer() == 0) {\n        return Result();\n      }\n      if (r2.as_integer() == -1 && r1.as_integer() == INT_MIN) {\n        return Result();\n      }\n      return Result(r1.as_integer() % r2.as_integer());",
  benign=True)

# ---------------------------------------------------------------- C15
M("C15-delete-type-case", "C15", "src/cppparser/cppExpression.cxx",
  "  case T_lambda:\n  case T_default:\n  case T_delete:\n    // Not something we can evaluate to a constant.\n    return Result();\n\n", "",
  expect="R15.1|CPPExpression::evaluate|switch(_type)")
M("C15-new-abort", "C15", "src/cppparser/cppScope.cxx",
  "void CPPScope::\nadd_declaration(CPPDeclaration *decl, CPPScope *global_scope,\n                CPPPreprocessor *preprocessor, const cppyyltype &pos) {",
  "void CPPScope::\nadd_declaration(CPPDeclaration *decl, CPPScope *global_scope,\n                CPPPreprocessor *preprocessor, const cppyyltype &pos) {\n  if (decl == nullptr) {\n    abort();\n  }",
  expect="R15.1|CPPScope::add_declaration|abort")
M("C15-error-abort-enabled", "C15", "src/cppparser/cppPreprocessor.cxx",
  "  _error_abort = false;", "  _error_abort = true;",
  expect="R15.1|CPPPreprocessor::_error_abort")
M("C15-scan-raw-unguarded", "C15", "src/cppparser/cppPreprocessor.cxx",
  "      if (str.size() >= delimiter.size() &&\n          str.compare(", "      if (str.compare(",
  expect="R15.2|CPPPreprocessor::scan_raw")
M("C15-should-include-unguarded", "C15", "src/interrogate/interrogateBuilder.cxx",
  "  if (filename.length() > 3 &&", "  if (filename.length() > 1 &&",
  expect="R15.2|InterrogateBuilder::should_include")
M("C15-include-last-char-unguarded", "C15", "src/cppparser/cppPreprocessor.cxx",
  "  if (!expr.empty()) {\n    if (expr[0] == '\"' && expr[expr.size() - 1] == '\"') {", "  if (true) {\n    if (expr[0] == '\"' && expr[expr.size() - 1] == '\"') {",
  expect="R15.4|CPPPreprocessor::handle_include_directive")
M("C15-parse-file-always-true", "C15", "src/cppparser/cppParser.cxx",
  "  parse_cpp(this);\n\n  return get_error_count() == 0;", "  parse_cpp(this);\n\n  return true;",
  expect="R15.6|parse_file|returns-no-errors")
M("C15-error-not-counted", "C15", "src/cppparser/cppPreprocessor.cxx",
  "      cerr << \"Aborting.\\n\";\n      abort();\n    }\n  }\n  _error_count++;", "      cerr << \"Aborting.\\n\";\n      abort();\n    }\n    _error_count++;\n  }",
  expect="R15.6|error(")
M("C15-parse-failure-continues", "C15", "src/interrogate/interrogate.cxx",
  "      cerr << \"interrogate failed to parse file: '\" << argv[i] << \"'\\n\";\n      exit(1);", "      cerr << \"interrogate failed to parse file: '\" << argv[i] << \"'\\n\";",
  expect="R15.6|interrogate.cxx::main|parse_file-failure-exits-nonzero")
M("C15-no-nested-ignore", "C15", "src/cppparser/cppPreprocessor.cxx",
  "          CPPManifest::Ignores nested_ignores(ignores);\n          nested_ignores.insert(manifest);", "          CPPManifest::Ignores nested_ignores(ignores);",
  expect="R15.7|expand_manifests|")
M("C15-division-unguarded", "C15", "src/cppparser/cppExpression.cxx",
  "        if (r2.as_integer() == 0 ||\n            (r2.as_integer() == -1 && r1.as_integer() == INT_MIN)) {\n          return Result();\n        }\n", "",
  expect="R15.3|CPPExpression::evaluate")
M("C15-benign-guard-form", "C15", "src/cppparser/cppPreprocessor.cxx",
  "      if (str.size() >= delimiter.size() &&\n          str.compare(", "      if (!(str.size() < delimiter.size()) &&\n          str.compare(",
  benign=True)
M("C15-benign-return-1", "C15", "src/interrogate/interrogate.cxx",
  "      cerr << \"interrogate failed to parse file: '\" << argv[i] << \"'\\n\";\n      exit(1);", "      cerr << \"interrogate failed to parse file: '\" << argv[i] << \"'\\n\";\n      return 1;",
  benign=True)

# ---------------------------------------------------------------- C06
M("C06-simpletype-flags-not-ordered", "C06", "src/cppparser/cppSimpleType.cxx",
  "  if (_type != ot->_type) {\n    return _type < ot->_type;\n  }\n  return _flags < ot->_flags;", "  return _type < ot->_type;",
  expect="R06.1|CPPSimpleType::is_less|_flags")
M("C06-reference-category-ignored", "C06", "src/cppparser/cppReferenceType.cxx",
  "  return (_pointing_at == ot->_pointing_at) &&\n         (_value_category == ot->_value_category);", "  return (_pointing_at == ot->_pointing_at);",
  expect="R06.1|CPPReferenceType::is_equal|_value_category")
M("C06-operator-not-compared", "C06", "src/cppparser/cppExpression.cxx",
  "    if (_u._op._operator != ot->_u._op._operator) {\n      return _u._op._operator < ot->_u._op._operator;\n    }\n", "",
  expect="R06.2|is_less|T_binary_operation|_u._op._operator")
M("C06-array-bounds-ignored", "C06", "src/cppparser/cppArrayType.cxx",
  "  if (_bounds != nullptr && ot->_bounds != nullptr) {\n    if (*_bounds != *ot->_bounds) {\n      return *_bounds < *ot->_bounds;\n    }\n  } else if ((_bounds == nullptr) != (ot->_bounds == nullptr)) {\n    return _bounds < ot->_bounds;\n  }\n\n  if (*_element_type != *ot->_element_type) {\n    return *_element_type < *ot->_element_type;\n  }\n  return false;",
  "  if (*_element_type != *ot->_element_type) {\n    return *_element_type < *ot->_element_type;\n  }\n  return false;",
  expect="R06.1|CPPArrayType::is_less|_bounds")
M("C06-benign-extra-field", "C06", "src/cppparser/cppConstType.cxx",
  "  return _wrapped_around < ot->_wrapped_around;", "  if (_wrapped_around == ot->_wrapped_around) {\n    return false;\n  }\n  return _wrapped_around < ot->_wrapped_around;",
  benign=True)

# ---------------------------------------------------------------- C09
M("C09-ifndef-not-nested", "C09", "src/cppparser/cppPreprocessor.cxx",
  "      if (command == \"if\" || command == \"ifdef\" || command == \"ifndef\") {\n        // Hmm, a nested if block.", "      if (command == \"if\" || command == \"ifdef\") {\n        // Hmm, a nested if block.",
  expect="R09.1|skip_false_if_block")
M("C09-ifdef-no-alternatives", "C09", "src/cppparser/cppPreprocessor.cxx",
  "  if (!is_manifest_defined(args)) {\n    // The macro is undefined.  Skip stuff.\n    skip_false_if_block(true);", "  if (!is_manifest_defined(args)) {\n    // The macro is undefined.  Skip stuff.\n    skip_false_if_block(false);",
  expect="R09.1|handle_ifdef_directive|polarity")
M("C09-ifdef-polarity", "C09", "src/cppparser/cppPreprocessor.cxx",
  "  if (!is_manifest_defined(args)) {\n    // The macro is undefined.  Skip stuff.", "  if (is_manifest_defined(args)) {\n    // The macro is undefined.  Skip stuff.",
  expect="R09.1|handle_ifdef_directive|polarity")
M("C09-if-polarity", "C09", "src/cppparser/cppPreprocessor.cxx",
  "  if (expression_result) {\n    // The expression result is true.  We continue.\n    return;\n  }", "  if (!expression_result) {\n    // The expression result is true.  We continue.\n    return;\n  }",
  expect="R09.1|handle_if_directive|polarity")
M("C09-else-in-taken-group-continues", "C09", "src/cppparser/cppPreprocessor.cxx",
  "  } else if (command == \"else\" || command == \"elif\" || command == \"elifdef\" || command == \"elifndef\") {", "  } else if (command == \"elif\" || command == \"elifdef\" || command == \"elifndef\") {",
  expect="R09.1|process_directive")
M("C09-elif-at-any-level", "C09", "src/cppparser/cppPreprocessor.cxx",
  "      } else if (command == \"elif\") {\n        if (level == 0 && consider_elifs) {", "      } else if (command == \"elif\") {\n        if (consider_elifs) {",
  expect="R09.1|skip_false_if_block|elif")
M("C09-elifdef-uses-ifndef", "C09", "src/cppparser/cppPreprocessor.cxx",
  "          _save_comments = true;\n          handle_ifdef_directive(args, loc);\n          return;", "          _save_comments = true;\n          handle_ifndef_directive(args, loc);\n          return;",
  expect="R09.1|skip_false_if_block|elifdef")
M("C09-endif-never-unnests", "C09", "src/cppparser/cppPreprocessor.cxx",
  "          _save_comments = true;\n          return;\n        }\n        level--;", "          _save_comments = true;\n          return;\n        }",
  expect="R09.1|skip_false_if_block|endif")
M("C09-define-while-skipping", "C09", "src/cppparser/cppPreprocessor.cxx",
  "        // Hmm, a nested if block.  Even more to skip.\n        level++;", "        // Hmm, a nested if block.  Even more to skip.\n        level++;\n      } else if (command == \"define\") {\n        handle_define_directive(args, loc);",
  expect="R09.")
M("C09-comments-not-restored", "C09", "src/cppparser/cppPreprocessor.cxx",
  "        if (level == 0) {\n          // Here's the end!\n          _save_comments = true;\n          return;", "        if (level == 0) {\n          // Here's the end!\n          return;",
  expect="R09.2|skip_false_if_block|comment-saving-paired")
M("C09-benign-reorder-chain", "C09", "src/cppparser/cppPreprocessor.cxx",
  "  } else if (command == \"ifdef\") {\n    handle_ifdef_directive(args, loc);\n  } else if (command == \"ifndef\") {\n    handle_ifndef_directive(args, loc);",
  "  } else if (command == \"ifndef\") {\n    handle_ifndef_directive(args, loc);\n  } else if (command == \"ifdef\") {\n    handle_ifdef_directive(args, loc);",
  benign=True)

# ---------------------------------------------------------------- C18
M("C18-print-real-with-ostream", "C18", "src/cppparser/cppExpression.cxx",
  "      char buffer[32];\n      pdtoa(_u._real, buffer);\n      out << buffer;", "      out << (double)_u._real;",
  expect="R18.1|CPPExpression::output")
M("C18-parse-with-atof", "C18", "src/cppparser/cppPreprocessor.cxx",
  "    result.u.real = (long double)pstrtod(num.c_str(), nullptr);", "    result.u.real = (long double)atof(num.c_str());",
  expect="R18.1|")
M("C18-cached-power-digit", "C18", "src/dtoolbase/pdtoa.cxx",
  "0xfa8fd5a0, 0x081c0288", "0xfa8fd5a0, 0x081c0289",
  expect="R18.2|kCachedPowers[0]")
M("C18-buffer-too-small", "C18", "src/cppparser/cppExpression.cxx",
  "      char buffer[32];\n      pdtoa(_u._real, buffer);", "      char buffer[16];\n      pdtoa(_u._real, buffer);",
  expect="R18.1|CPPExpression::output|T_real-through-pdtoa")
M("C18-digits-lut", "C18", "src/dtoolbase/pdtoa.cxx",
  "'0', '0', '0', '1', '0', '2',", "'0', '0', '0', '1', '0', '3',",
  expect="R18.2|cDigitsLut")
M("C18-benign-bigger-buffer", "C18", "src/cppparser/cppExpression.cxx",
  "      char buffer[32];\n      pdtoa(_u._real, buffer);", "      char buffer[64];\n      pdtoa(_u._real, buffer);",
  benign=True)

# ---------------------------------------------------------------- C14
M("C14-time-even-with-epoch", "C14", "src/interrogate/interrogate.cxx",
  "    file_identifier = atoi(source_date_epoch);\n  } else {\n    file_identifier = time(nullptr);\n  }",
  "    file_identifier = atoi(source_date_epoch);\n  }\n  if (file_identifier == 0) {\n    file_identifier = time(nullptr);\n  }",
  expect="R14.1|interrogate.cxx::main|time")
M("C14-rand-in-hash", "C14", "src/interrogate/interrogateBuilder.cxx",
  "  unsigned int hash = 0;\n\n  unsigned int shift = 0;\n  string::const_iterator ni;", "  unsigned int hash = rand() & 1;\n\n  unsigned int shift = 0;\n  string::const_iterator ni;",
  expect="R14.1|InterrogateBuilder::hash_string|rand")
M("C14-setlocale", "C14", "src/interrogate/interrogate_module.cxx",
  "  output_code_filename.set_text();\n\n  if (!build_c_wrappers", "  setlocale(LC_ALL, \"\");\n  output_code_filename.set_text();\n\n  if (!build_c_wrappers",
  expect="R14.4|main|setlocale")
M("C14-getenv-other", "C14", "src/interrogate/interrogateBuilder.cxx",
  "  _library_hash_name = hash_string(library_name, 5);", "  _library_hash_name = hash_string(library_name, getenv(\"IGATE_SHIFT\") ? 7 : 5);",
  expect="R14.3|InterrogateBuilder::build|getenv")
M("C14-print-pointer", "C14", "src/interrogate/interfaceMakerPythonNative.cxx",
  "      indent(out, indent_level) << \"  // -2 \";\n      remap->write_orig_prototype(out, 0, false, (max_num_args - min_num_args));\n      out << \"\\n\";\n\n      // NB.", "      indent(out, indent_level) << \"  // -2 \" << (void *)remap << \" \";\n      remap->write_orig_prototype(out, 0, false, (max_num_args - min_num_args));\n      out << \"\\n\";\n\n      // NB.",
  expect="R14.5a|InterfaceMakerPythonNative::write_function_forset|prints-pointer")
M("C14-iterate-ignores", "C14", "src/cppparser/cppPreprocessor.cxx",
  "          CPPManifest::Ignores nested_ignores(ignores);\n          nested_ignores.insert(manifest);", "          CPPManifest::Ignores nested_ignores(ignores);\n          nested_ignores.insert(manifest);\n          for (const CPPManifest *m : nested_ignores) {\n            if (m->_has_parameters) {\n              args.push_back(m->_name);\n            }\n          }",
  expect="R14.5b|CPPPreprocessor::expand_manifests")
M("C14-comparator-not-total", "C14", "src/interrogate/interfaceMakerPythonNative.cxx",
  "  std::ostringstream proto1, proto2;\n  in1->write_orig_prototype(proto1, 0);\n  in2->write_orig_prototype(proto2, 0);\n  return proto1.str() < proto2.str();", "  return false;",
  expect="R14.5")
M("C14-comparator-by-address", "C14", "src/interrogate/interfaceMakerPythonNative.cxx",
  "  std::ostringstream proto1, proto2;\n  in1->write_orig_prototype(proto1, 0);\n  in2->write_orig_prototype(proto2, 0);\n  return proto1.str() < proto2.str();", "  return in1 < in2;",
  expect="R14.5")
M("C14-new-emitting-loop", "C14", "src/interrogate/interfaceMakerPythonNative.cxx",
  "          bool all_nonconst = true;\n          for (FunctionRemap *remap : def._remaps) {\n            if (remap->_const_method) {\n              all_nonconst = false;\n            }\n          }\n          out << \"//////////////////\\n\";\n          out << \"// A wrapper function to satisfy Python's internal calling conventions.\\n\";\n          out << \"// \" << ClassName << \" slot \" << rfi->second._answer_location << \" -> \" << fname << \"\\n\";\n          out << \"//////////////////\\n\";\n          out << \"static PyObject *\" << def._wrapper_name << \"(PyObject *self, PyObject *arg) {\\n\";",
  "          bool all_nonconst = true;\n          for (FunctionRemap *remap : def._remaps) {\n            if (remap->_const_method) {\n              all_nonconst = false;\n            }\n            out << \"// \" << remap->_cppfunc->get_simple_name() << \"\\n\";\n          }\n          out << \"//////////////////\\n\";\n          out << \"// A wrapper function to satisfy Python's internal calling conventions.\\n\";\n          out << \"// \" << ClassName << \" slot \" << rfi->second._answer_location << \" -> \" << fname << \"\\n\";\n          out << \"//////////////////\\n\";\n          out << \"static PyObject *\" << def._wrapper_name << \"(PyObject *self, PyObject *arg) {\\n\";",
  expect="R14.5c|InterfaceMakerPythonNative::write_module_class|def._remaps|range-for|WT_one_param")
M("C14-benign-anyof-loop", "C14", "src/interrogate/interfaceMakerPythonNative.cxx",
  "          bool all_nonconst = true;\n          for (FunctionRemap *remap : def._remaps) {\n            if (remap->_const_method) {\n              all_nonconst = false;\n            }\n          }\n          out << \"//////////////////\\n\";\n          out << \"// A wrapper function to satisfy Python's internal calling conventions.\\n\";\n          out << \"// \" << ClassName << \" slot \" << rfi->second._answer_location << \" -> \" << fname << \"\\n\";\n          out << \"//////////////////\\n\";\n          out << \"static PyObject *\" << def._wrapper_name << \"(PyObject *self, PyObject *arg) {\\n\";",
  "          bool all_nonconst = true;\n          bool any_this = false;\n          for (FunctionRemap *remap : def._remaps) {\n            if (remap->_const_method) {\n              all_nonconst = false;\n            }\n            if (remap->_has_this) {\n              any_this = true;\n            }\n          }\n          (void)any_this;\n          out << \"//////////////////\\n\";\n          out << \"// A wrapper function to satisfy Python's internal calling conventions.\\n\";\n          out << \"// \" << ClassName << \" slot \" << rfi->second._answer_location << \" -> \" << fname << \"\\n\";\n          out << \"//////////////////\\n\";\n          out << \"static PyObject *\" << def._wrapper_name << \"(PyObject *self, PyObject *arg) {\\n\";",
  benign=True)

# ---------------------------------------------------------------- C02
M("C02-sub-in-add-slot", "C02", "src/interrogate/interfaceMakerPythonNative.cxx",
  "      method_name == \"__rsub__\") {\n    def._answer_location = \"nb_subtract\";", "      method_name == \"__rsub__\") {\n    def._answer_location = \"nb_add\";",
  expect="R02.1|")
M("C02-swap-dictionary-rows", "C02", "src/interrogate/interfaceMakerPythonNative.cxx",
  "  { \"operator +\"    , \"__add__\",                0 },\n  { \"operator -\"    , \"__sub__\",                0 },", "  { \"operator +\"    , \"__sub__\",                0 },\n  { \"operator -\"    , \"__add__\",                0 },",
  expect="R02.1|operator|operator_")
M("C02-inplace-to-plain-slot", "C02", "src/interrogate/interfaceMakerPythonNative.cxx",
  "    def._answer_location = \"nb_inplace_xor\";", "    def._answer_location = \"nb_xor\";",
  expect="R02.1|operator|operator_^=")
M("C02-invert-binary", "C02", "src/interrogate/interfaceMakerPythonNative.cxx",
  "    def._answer_location = \"nb_invert\";\n    def._wrapper_type = WT_no_params;", "    def._answer_location = \"nb_invert\";\n    def._wrapper_type = WT_binary_operator;",
  expect="R02.1|arity|operator_~|nb_invert")
M("C02-delete-lambda-keyword", "C02", "src/interrogate/interfaceMakerPythonNative.cxx",
  "  \"lambda\",\n", "",
  expect="R02.2|keyword|lambda")
M("C02-benign-reorder-keywords", "C02", "src/interrogate/interfaceMakerPythonNative.cxx",
  "  \"and\",\n  \"as\",\n", "  \"as\",\n  \"and\",\n",
  benign=True)

# ---------------------------------------------------------------- rules added after the first round of seeded changes
M("C19-bad-after-close", "C19", "src/interrogate/interrogate.cxx",
  "      output_text.close();\n      if (output_text.fail()) {", "      output_text.close();\n      if (output_text.bad()) {",
  expect="R19.o2|interrogate.cxx::main|output_text")
# (until round 5 this edit was listed as benign; S5-C19 showed it is not: the destructor's close(2) can fail unseen)
M("C19-flush-and-test-but-never-close", "C19", "src/interrogate/interrogate.cxx",
  "      output_text.close();\n      if (output_text.fail()) {", "      output_text.flush();\n      if (output_text.bad()) {",
  expect="R19.o2|interrogate.cxx::main|output_text|flush-then-test-after-last-write")
M("C19-benign-flush-test-then-close-test", "C19", "src/interrogate/interrogate.cxx",
  "      output_text.close();\n      if (output_text.fail()) {", "      output_text.flush();\n      if (output_text.bad()) {\n        status = -1;\n      }\n      output_text.close();\n      if (output_text.fail()) {",
  benign=True)
M("C12-reader-stops-on-0xff", "C12", "src/interrogatedb/interrogate_datafile.cxx",
  "  while (length > 0) {\n    str += in.get();\n    length--;\n  }", "  while (length > 0) {\n    int ch = in.get();\n    if (ch == 0) {\n      break;\n    }\n    str += (char)ch;\n    length--;\n  }",
  expect="R12.5|idf_input_string(std::string&)|loop-not-data-dependent")
M("C12-benign-reader-local", "C12", "src/interrogatedb/interrogate_datafile.cxx",
  "  while (length > 0) {\n    str += in.get();\n    length--;\n  }", "  while (length > 0) {\n    char ch = in.get();\n    str += ch;\n    length--;\n  }",
  benign=True)
M("C15-mod-min-by-minus-one", "C15", "src/cppparser/cppExpression.cxx",
  "      if (r2.as_integer() == 0 ||\n          (r2.as_integer() == -1 && r1.as_integer() == INT_MIN)) {\n        return Result();\n      }\n      return Result(r1.as_integer() % r2.as_integer());",
  "      if (r2.as_integer() == 0) {\n        return Result();\n      }\n      return Result(r1.as_integer() % r2.as_integer());",
  expect="R15.3|CPPExpression::evaluate|r1.as_integer()%r2.as_integer()|min-by-minus-one")
M("C07-invalid-enumerator-stored", "C07", "src/interrogate/interrogateBuilder.cxx",
  "        nout << \" has invalid definition!\\n\";\n        return;", "        nout << \" has invalid definition!\\n\";",
  expect="R07.6|define_enum_type|unevaluable-enumerator-not-stored")
M("C07-benign-invalid-enumerator-skipped", "C07", "src/interrogate/interrogateBuilder.cxx",
  "        nout << \" has invalid definition!\\n\";\n        return;", "        nout << \" has invalid definition!\\n\";\n        continue;",
  benign=True)
M("C11-hash-not-stored", "C11", "src/interrogate/interfaceMaker.cxx",
  "           << hash << \"\\n\";\n    }\n  }\n\n  remap->_hash = hash;\n}", "           << hash << \"\\n\";\n    }\n  }\n}",
  expect="R11.5|hash_function_signature")
M("C11-hash-stored-before-extension", "C11", "src/interrogate/interfaceMaker.cxx",
  "  hash += InterrogateBuilder::hash_string(remap->_function_signature, 11);\n  bool inserted = _wrappers_by_hash.insert", "  remap->_hash = hash;\n  hash += InterrogateBuilder::hash_string(remap->_function_signature, 11);\n  bool inserted = _wrappers_by_hash.insert",
  benign=True)
M("C04-publish-saves-global-scope", "C04", "src/cppparser/cppBison.yxx",
  "  publish_previous = current_scope->get_current_vis();", "  publish_previous = global_scope->get_current_vis();",
  expect="R04.6|begin_publish|saves-current-scope")
M("C04-protected-label-public", "C04", "src/cppparser/cppBison.yxx",
  "        | KW_PROTECTED ':'\n{\n  current_scope->set_current_vis(V_protected);", "        | KW_PROTECTED ':'\n{\n  current_scope->set_current_vis(V_public);",
  expect="R04.6|label|KW_PROTECTED")
M("C18-boundary-constant", "C18", "src/dtoolbase/pdtoa.cxx",
  "DiyFp((f << 2) - 1, e - 2)", "DiyFp((f << 2) - 2, e - 2)",
  expect="R18.4|NormalizedBoundaries|minus-close")
M("C18-benign-boundary-spelling", "C18", "src/dtoolbase/pdtoa.cxx",
  "DiyFp((f << 2) - 1, e - 2)", "DiyFp(f * 4 - 1, e - 2)",
  benign=True)
M("C02-explicit-coerces", "C02", "src/interrogate/functionRemap.cxx",
  "    } else if (!_has_this && _parameters.size() > 0 &&\n               (_cppfunc->_storage_class & CPPInstance::SC_explicit) == 0) {", "    } else if (!_has_this && _parameters.size() > 0) {",
  expect="R02.3|FunctionRemap::setup_properties")
M("C13-global-test-moved-after-merge", "C13", "src/interrogatedb/interrogateDatabase.cxx",
  "      if (!this_type.is_global() && other_type.is_global()) {\n        // If the type is about to become global, we need to add it to our\n        // global_types list.\n        _global_types.push_back(this_type_index);\n      }\n\n      InterrogateType merge_type = other_type;\n      merge_type.remap_indices(remap);\n      this_type.merge_with(merge_type);",
  "      InterrogateType merge_type = other_type;\n      merge_type.remap_indices(remap);\n      this_type.merge_with(merge_type);\n\n      if (!this_type.is_global() && other_type.is_global()) {\n        // If the type is about to become global, we need to add it to our\n        // global_types list.\n        _global_types.push_back(this_type_index);\n      }",
  expect="R13.3|merge_from|shared-type|global-test-before-merge_with")

# ---------------------------------------------------------------- C06 R06.4
M("C06-unsigned-builds-signed", "C06", "src/cppparser/cppBison.yxx",
  "        | KW_UNSIGNED simple_int_type\n{\n  $$ = $2;\n  $$->_flags |= CPPSimpleType::F_unsigned;", "        | KW_UNSIGNED simple_int_type\n{\n  $$ = $2;\n  $$->_flags |= CPPSimpleType::F_signed;",
  expect="R06.4|grammar|simple_int_type|KW_UNSIGNED_simple_int_type")
M("C06-float-prints-double", "C06", "src/cppparser/cppSimpleType.cxx",
  "  case T_float:\n    out << \"float\";", "  case T_float:\n    out << \"double\";",
  expect="R06.4|printer|T_float")
M("C06-rvalue-flipped", "C06", "src/cppparser/cppReferenceType.cxx",
  "  std::string prefix((_value_category == VC_rvalue) ? \"&&\" : \"&\");", "  std::string prefix((_value_category == VC_rvalue) ? \"&\" : \"&&\");",
  expect="R06.4|printer|reference")
M("C06-short-flag-prints-long", "C06", "src/cppparser/cppSimpleType.cxx",
  "  } else if (_flags & F_short) {\n    out << \"short \";", "  } else if (_flags & F_short) {\n    out << \"long \";",
  expect="R06.4|printer|F_short")
M("C06-benign-reorder-cases", "C06", "src/cppparser/cppSimpleType.cxx",
  "  case T_float:\n    out << \"float\";\n    break;\n\n  case T_double:\n    out << \"double\";\n    break;", "  case T_double:\n    out << \"double\";\n    break;\n\n  case T_float:\n    out << \"float\";\n    break;",
  benign=True)

M("C20-fptr-lower-bound-dropped", "C20", "src/interrogatedb/interrogateDatabase.cxx",
  "    if (module_index >= 0 && module_index < def->num_fptrs) {", "    if (module_index < def->num_fptrs) {",
  expect="R20.1|InterrogateDatabase::get_fptr")
M("C20-benign-fptr-bounds-swapped", "C20", "src/interrogatedb/interrogateDatabase.cxx",
  "    if (module_index >= 0 && module_index < def->num_fptrs) {", "    if (module_index < def->num_fptrs && 0 <= module_index) {",
  benign=True)

M("C15-raw-delimiter-rfind", "C15", "src/cppparser/cppPreprocessor.cxx",
  "      if (str.size() >= delimiter.size() &&\n          str.compare(str.size() - delimiter.size(), delimiter.size(), delimiter) == 0) {",
  "      if (str.rfind(delimiter) == str.size() - delimiter.size()) {",
  expect="R15.2|CPPPreprocessor::scan_raw")
M("C15-benign-raw-delimiter-nested-if", "C15", "src/cppparser/cppPreprocessor.cxx",
  "      if (str.size() >= delimiter.size() &&\n          str.compare(str.size() - delimiter.size(), delimiter.size(), delimiter) == 0) {\n        str.resize(str.size() - delimiter.size());\n        break;\n      }",
  "      if (str.size() >= delimiter.size()) {\n        if (str.compare(str.size() - delimiter.size(), delimiter.size(), delimiter) == 0) {\n          str.resize(str.size() - delimiter.size());\n          break;\n        }\n      }",
  benign=True)

M("C07-colon-above-question", "C07", "src/cppparser/cppBison.yxx",
  "%right ':'\n%right '='\n%right '?'\n", "%right '='\n%right '?'\n%right ':'\n",
  expect="R07.2|const_expr|conditional|else-branch-extends-right")
M("C07-benign-colon-between", "C07", "src/cppparser/cppBison.yxx",
  "%right ':'\n%right '='\n%right '?'\n", "%right '='\n%right ':'\n%right '?'\n",
  benign=True)

M("C16-break-first-pending-edge", "C16", "src/interrogate/interrogate_module.cxx",
  "        dependencies[cycle[0]].erase(cycle[1]);", "        deps.erase(deps.begin());",
  expect="R16.2|erase#1|edge-of-the-reported-cycle")
M("C16-break-reverse-edge", "C16", "src/interrogate/interrogate_module.cxx",
  "        dependencies[cycle[0]].erase(cycle[1]);", "        dependencies[cycle[1]].erase(cycle[0]);",
  expect="R16.2|erase#1|edge-of-the-reported-cycle")
M("C16-benign-break-edge-front", "C16", "src/interrogate/interrogate_module.cxx",
  "        dependencies[cycle[0]].erase(cycle[1]);", "        dependencies[cycle.front()].erase(cycle.at(1));",
  benign=True)
M("C16-benign-break-last-edge", "C16", "src/interrogate/interrogate_module.cxx",
  "        dependencies[cycle[0]].erase(cycle[1]);", "        dependencies[cycle[cycle.size() - 2]].erase(cycle.back());",
  benign=True)

M("C04-reference-rebuilt-from-scratch", "C04", "src/cppparser/cppReferenceType.cxx",
  "    CPPReferenceType *rep = new CPPReferenceType(*this);\n    rep->_pointing_at = ptype;\n    return CPPType::new_type(rep);\n  }\n  return this;",
  "    return CPPType::new_type(new CPPReferenceType(ptype));\n  }\n  return this;",
  expect="R04.7|CPPReferenceType::resolve_type")
M("C04-benign-reference-rebuilt-with-category", "C04", "src/cppparser/cppReferenceType.cxx",
  "    CPPReferenceType *rep = new CPPReferenceType(*this);\n    rep->_pointing_at = ptype;\n    return CPPType::new_type(rep);\n  }\n  return this;",
  "    return CPPType::new_type(new CPPReferenceType(ptype, _value_category));\n  }\n  return this;",
  benign=True)
M("C06-paramlist-drops-ellipsis", "C06", "src/cppparser/cppParameterList.cxx",
  "  CPPParameterList *rep = new CPPParameterList;\n  rep->_includes_ellipsis = _includes_ellipsis;\n  bool any_changed = false;\n  for (int i = 0; i < (int)_parameters.size(); ++i) {\n    CPPInstance *inst =\n      _parameters[i]->substitute_decl",
  "  CPPParameterList *rep = new CPPParameterList;\n  bool any_changed = false;\n  for (int i = 0; i < (int)_parameters.size(); ++i) {\n    CPPInstance *inst =\n      _parameters[i]->substitute_decl",
  expect="R06.5|CPPParameterList::substitute_decl")

M("C06-changed-flag-overwritten", "C06", "src/cppparser/cppExpression.cxx",
  "      ->as_expression();\n    any_changed = any_changed || (rep->_u._op._op1 != _u._op._op1);\n    break;\n\n  case T_typeid_type:",
  "      ->as_expression();\n    any_changed = (rep->_u._op._op1 != _u._op._op1);\n    break;\n\n  case T_typeid_type:",
  expect="R06.6|CPPExpression::substitute_decl|any_changed")
M("C06-benign-changed-flag-or-assign", "C06", "src/cppparser/cppExpression.cxx",
  "      ->as_expression();\n    any_changed = any_changed || (rep->_u._op._op1 != _u._op._op1);\n    break;\n\n  case T_typeid_type:",
  "      ->as_expression();\n    if (rep->_u._op._op1 != _u._op._op1) {\n      any_changed = true;\n    }\n    break;\n\n  case T_typeid_type:",
  benign=True)

M("C10-default-ctor-last-param", "C10", "src/cppparser/cppStructType.cxx",
  "        ftype->_parameters->_parameters.front()->_initializer != nullptr) {", "        ftype->_parameters->_parameters.back()->_initializer != nullptr) {",
  expect="R10.3|get_default_constructor|callable-without-arguments")
M("C10-benign-default-ctor-index0", "C10", "src/cppparser/cppStructType.cxx",
  "    if (ftype->_parameters->_parameters.size() == 0 ||\n        ftype->_parameters->_parameters.front()->_initializer != nullptr) {", "    if (ftype->_parameters->_parameters.empty() ||\n        ftype->_parameters->_parameters[0]->_initializer != nullptr) {",
  benign=True)
M("C10-copy-finder-takes-move", "C10", "src/cppparser/cppStructType.cxx",
  "    if ((ftype->_flags & CPPFunctionType::F_copy_constructor) != 0) {\n      return inst;", "    if ((ftype->_flags & CPPFunctionType::F_move_constructor) != 0) {\n      return inst;",
  expect="R10.3|get_copy_constructor|selected-by")
M("C10-move-flag-polarity", "C10", "src/cppparser/cppInstance.cxx",
  "              if (flags & CPPFunctionType::F_constructor) {\n                if (ref_type->_value_category == CPPReferenceType::VC_rvalue) {", "              if (flags & CPPFunctionType::F_constructor) {\n                if (ref_type->_value_category != CPPReferenceType::VC_rvalue) {",
  expect="R10.3|check_for_constructor|F_move_constructor|value-category")

M("C10-copy-ctor-exactly-one-param", "C10", "src/cppparser/cppInstance.cxx",
  "        if (!params->_parameters.empty() && !params->_includes_ellipsis &&\n            (params->_parameters.size() == 1 ||\n             params->_parameters[1]->_initializer != nullptr)) {",
  "        if (params->_parameters.size() == 1 && !params->_includes_ellipsis) {",
  expect="R10.3|check_for_constructor|F_copy_constructor|defaulted-extra-parameters-allowed")
M("C10-copy-ctor-no-param-check", "C10", "src/cppparser/cppInstance.cxx",
  "        if (!params->_parameters.empty() && !params->_includes_ellipsis &&\n            (params->_parameters.size() == 1 ||\n             params->_parameters[1]->_initializer != nullptr)) {",
  "        if (!params->_includes_ellipsis) {",
  expect="R10.3|check_for_constructor|F_copy_constructor|first-parameter-exists")

M("C14-ext-imports-sorted-by-simple-name", "C14", "src/interrogate/interfaceMakerPythonNative.cxx",
  "      return a->get_local_name(&parser) < b->get_local_name(&parser);", "      return a->get_simple_name() < b->get_simple_name();",
  expect="R14.5c|InterfaceMakerPythonNative::write_prototypes")
M("C14-benign-ext-imports-sorted-by-scoped-name", "C14", "src/interrogate/interfaceMakerPythonNative.cxx",
  "      return a->get_local_name(&parser) < b->get_local_name(&parser);", "      return b->get_local_name(&parser) > a->get_local_name(&parser);",
  benign=True)

M("C11-remap-skips-incomplete-types", "C11", "src/interrogatedb/interrogateType.cxx",
  "  _wrapped_type = remap.map_from(_wrapped_type);\n", "  _wrapped_type = remap.map_from(_wrapped_type);\n\n  if (!is_fully_defined()) {\n    return;\n  }\n",
  expect="R11.1|InterrogateType::remap_indices|")
M("C11-benign-remap-guards-zero", "C11", "src/interrogatedb/interrogateType.cxx",
  "  _wrapped_type = remap.map_from(_wrapped_type);\n", "  if (_wrapped_type != 0) {\n    _wrapped_type = remap.map_from(_wrapped_type);\n  }\n",
  benign=True)

M("C02-nonconst-ref-recurses", "C02", "src/interrogate/typeManager.cxx",
  "  case CPPDeclaration::ST_reference:\n    return !is_const(type->as_reference_type()->_pointing_at);", "  case CPPDeclaration::ST_reference:\n    return is_non_const_pointer_or_ref(type->as_reference_type()->_pointing_at);",
  expect="R02.4|is_non_const_pointer_or_ref|ST_reference")
M("C02-const-ptr-polarity", "C02", "src/interrogate/typeManager.cxx",
  "    return is_const_pointer_or_ref(type->as_const_type()->_wrapped_around);\n\n  case CPPDeclaration::ST_pointer:\n    return is_const(type->as_pointer_type()->_pointing_at);", "    return is_const_pointer_or_ref(type->as_const_type()->_wrapped_around);\n\n  case CPPDeclaration::ST_pointer:\n    return !is_const(type->as_pointer_type()->_pointing_at);",
  expect="R02.4|is_const_pointer_or_ref|ST_pointer")
M("C02-benign-nonconst-ref-local", "C02", "src/interrogate/typeManager.cxx",
  "  case CPPDeclaration::ST_reference:\n    return !is_const(type->as_reference_type()->_pointing_at);", "  case CPPDeclaration::ST_reference: {\n    CPPType *target = type->as_reference_type()->_pointing_at;\n    return !is_const(target);\n  }",
  benign=True)

MUTANTS.append({"id": "C05-virtual-inference-short-circuited", "prop": "C05", "benign": False,
  "expect": "R05.5|define_struct_type|define_method",
  "edits": [("src/interrogate/interrogateBuilder.cxx", "  bool has_virt_methods = cpptype->is_polymorphic();\n", ""),
            ("src/interrogate/interrogateBuilder.cxx", "} else if (has_virt_methods && (base_type", "} else if (cpptype->is_polymorphic() && (base_type")]})
M("C05-benign-virtual-inference-renamed", "C05", "src/interrogate/interrogateBuilder.cxx",
  "  bool has_virt_methods = cpptype->is_polymorphic();\n", "  const bool has_virt_methods = cpptype->is_polymorphic();\n",
  benign=True)

M("C16-benign-break-edge-iterators", "C16", "src/interrogate/interrogate_module.cxx",
  "        dependencies[cycle[0]].erase(cycle[1]);", "        dependencies[*cycle.begin()].erase(*(cycle.begin() + 1));",
  benign=True)
M("C16-break-edge-iterators-skip-one", "C16", "src/interrogate/interrogate_module.cxx",
  "        dependencies[cycle[0]].erase(cycle[1]);", "        dependencies[*cycle.begin()].erase(*(cycle.begin() + 2));",
  expect="R16.2|erase#1|edge-of-the-reported-cycle")

M("C02-benign-nonconst-ref-eq-false", "C02", "src/interrogate/typeManager.cxx",
  "  case CPPDeclaration::ST_reference:\n    return !is_const(type->as_reference_type()->_pointing_at);", "  case CPPDeclaration::ST_reference:\n    return is_const(type->as_reference_type()->_pointing_at) == false;",
  benign=True)

M("C05-default-access-from-base-key", "C05", "src/cppparser/cppStructType.cxx",
  "    if (vis == V_unknown) {\n      // Default visibility: this is determined by the class-key of the\n      // deriving class, not by that of the base class.\n      if (_type == T_class) {",
  "    if (vis == V_unknown && base->as_extension_type() != nullptr) {\n      // Default visibility.\n      if (base->as_extension_type()->_type == T_class) {",
  expect="R05.6|append_derivation|V_private|own-class-key")
M("C05-default-access-polarity", "C05", "src/cppparser/cppStructType.cxx",
  "      if (_type == T_class) {\n        vis = V_private;\n      } else {\n        vis = V_public;\n      }", "      if (_type == T_class) {\n        vis = V_public;\n      } else {\n        vis = V_private;\n      }",
  expect="R05.6|append_derivation|V_public|own-class-key")
M("C05-default-access-only-for-extension-bases", "C05", "src/cppparser/cppStructType.cxx",
  "    if (vis == V_unknown) {\n      // Default visibility: this", "    if (vis == V_unknown && base->as_extension_type() != nullptr) {\n      // Default visibility: this",
  expect="R05.6|append_derivation|always-defaulted")
M("C05-benign-default-access-struct-test", "C05", "src/cppparser/cppStructType.cxx",
  "      if (_type == T_class) {\n        vis = V_private;\n      } else {\n        vis = V_public;\n      }", "      if (_type != T_class) {\n        vis = V_public;\n      } else {\n        vis = V_private;\n      }",
  benign=True)

M("C17-includer-dir-as-referenced", "C17", "src/cppparser/cppPreprocessor.cxx",
  "    Filename match(get_file()._filename.get_dirname(), filename);", "    Filename match(get_file()._filename_as_referenced.get_dirname(), filename);",
  expect="R17.1|find_include|probe#1")
M("C17-benign-includer-dir-local", "C17", "src/cppparser/cppPreprocessor.cxx",
  "    Filename match(get_file()._filename.get_dirname(), filename);", "    Filename match(Filename(get_file()._filename.get_dirname()), filename);",
  benign=True)

M("C06-function-type-ignores-class-owner", "C06", "src/cppparser/cppFunctionType.cxx",
  "  if (_class_owner != ot->_class_owner) {\n    // A pointer-to-member-function type also names the class.\n    if (_class_owner == nullptr || ot->_class_owner == nullptr ||\n        *_class_owner != *ot->_class_owner) {\n      return false;\n    }\n  }\n", "",
  expect="R06.1|CPPFunctionType::is_equal|_class_owner")

M("C07-char-literal-unsigned", "C07", "src/cppparser/cppPreprocessor.cxx",
  "  if (!str.empty()) {\n    result.u.integer = (int)str[0];\n  } else {\n    result.u.integer = 0;\n  }\n\n  return get_literal(CHAR_TOK",
  "  if (!str.empty()) {\n    result.u.integer = (unsigned char)str[0];\n  } else {\n    result.u.integer = 0;\n  }\n\n  return get_literal(CHAR_TOK",
  expect="R07.7|CPPPreprocessor::get_quoted_char|char-literal-value")
M("C07-benign-char-literal-signed-char", "C07", "src/cppparser/cppPreprocessor.cxx",
  "  if (!str.empty()) {\n    result.u.integer = (int)str[0];\n  } else {\n    result.u.integer = 0;\n  }\n\n  return get_literal(CHAR_TOK",
  "  if (!str.empty()) {\n    result.u.integer = (int)(signed char)str[0];\n  } else {\n    result.u.integer = 0;\n  }\n\n  return get_literal(CHAR_TOK",
  benign=True)

_C20_OLD = "  string name = mid->name;\n  if (name < wrapper_hash_name) {\n    return binary_search_wrapper_hash(mid + 1, end, wrapper_hash_name);\n\n  } else if (wrapper_hash_name < name) {"
_C20_INC = ("src/interrogatedb/interrogateDatabase.cxx", '#include "interrogate_datafile.h"\n', '#include "interrogate_datafile.h"\n#include <cstring>\n')
MUTANTS.append({"id": "C20-unique-name-prefix-match", "prop": "C20", "benign": False,
  "expect": "R20.8|binary_search_wrapper_hash|hit-only-on-equal-names",
  "edits": [_C20_INC, ("src/interrogatedb/interrogateDatabase.cxx", _C20_OLD,
            "  int cmp = strncmp(mid->name, wrapper_hash_name.c_str(), wrapper_hash_name.size());\n  if (cmp < 0) {\n    return binary_search_wrapper_hash(mid + 1, end, wrapper_hash_name);\n\n  } else if (cmp > 0) {")]})
MUTANTS.append({"id": "C20-benign-unique-name-strcmp", "prop": "C20", "benign": True, "expect": None,
  "edits": [_C20_INC, ("src/interrogatedb/interrogateDatabase.cxx", _C20_OLD,
            "  int cmp = strcmp(mid->name, wrapper_hash_name.c_str());\n  if (cmp < 0) {\n    return binary_search_wrapper_hash(mid + 1, end, wrapper_hash_name);\n\n  } else if (cmp > 0) {")]})
M("C20-unique-name-one-sided", "C20", "src/interrogatedb/interrogateDatabase.cxx",
  "  } else if (wrapper_hash_name < name) {\n    return binary_search_wrapper_hash(begin, mid, wrapper_hash_name);\n\n  } else {\n    return mid->index_offset;\n  }",
  "  } else if (wrapper_hash_name.size() < name.size()) {\n    return binary_search_wrapper_hash(begin, mid, wrapper_hash_name);\n\n  } else {\n    return mid->index_offset;\n  }",
  expect="R20.8|binary_search_wrapper_hash|hit-only-on-equal-names")

M("C04-ignorefile-by-basename", "C04", "src/interrogate/interrogateBuilder.cxx",
  "       in_ignorefile(cpptype->_file._filename_as_referenced))) {", "       in_ignorefile(cpptype->_file._filename.get_basename()))) {",
  expect="R04.8|InterrogateBuilder::define_struct_type|in_ignorefile")
M("C04-benign-ignorefile-local", "C04", "src/interrogate/interrogateBuilder.cxx",
  "  if (!forced &&\n      (cpptype->_file._source != CPPFile::S_local ||\n       in_ignorefile(cpptype->_file._filename_as_referenced))) {",
  "  const Filename &referenced_as = cpptype->_file._filename_as_referenced;\n  if (!forced &&\n      (cpptype->_file._source != CPPFile::S_local ||\n       in_ignorefile(referenced_as))) {",
  benign=True)

MUTANTS.append({"id": "C16-library-key-only-with-edges", "prop": "C16", "benign": False,
  "expect": "R16.3|write_python_table_native|library_name-of-thetype|becomes-a-key",
  "edits": [("src/interrogate/interrogate_module.cxx", "        std::set<string> &deps = dependencies[library_name];\n\n        // Get the dependencies for this library.", "\n        // Get the dependencies for this library."),
            ("src/interrogate/interrogate_module.cxx", "              deps.insert(std::move(baselib));", "              dependencies[library_name].insert(std::move(baselib));"),
            ("src/interrogate/interrogate_module.cxx", "              deps.insert(std::move(wrappedlib));", "              dependencies[library_name].insert(std::move(wrappedlib));")]})
M("C16-benign-library-key-emplace", "C16", "src/interrogate/interrogate_module.cxx",
  "        std::set<string> &deps = dependencies[library_name];\n\n        // Get the dependencies for this library.", "        dependencies.emplace(library_name, std::set<string>());\n        std::set<string> &deps = dependencies.find(library_name)->second;\n\n        // Get the dependencies for this library.",
  benign=True)

M("C10-override-flag-masked-one-side", "C10", "src/cppparser/cppFunctionType.cxx",
  "  if (((_flags ^ other._flags) & ~not_signature) != 0) {", "  if ((_flags & ~not_signature) != other._flags) {",
  expect="R10.4|match_virtual_override|flags-modulo-override-final")
M("C10-benign-override-flag-or-form", "C10", "src/cppparser/cppFunctionType.cxx",
  "  if (((_flags ^ other._flags) & ~not_signature) != 0) {", "  if ((_flags | not_signature) != (other._flags | not_signature)) {",
  benign=True)
M("C10-noexcept-overrider-not-matched", "C10", "src/cppparser/cppFunctionType.cxx",
  "  const int not_signature = F_override | F_final | F_noexcept | F_trailing_return_type;",
  "  const int not_signature = F_override | F_final;",
  expect="R10.4|match_virtual_override|flags-modulo-override-final")
M("C10-const-overrider-matched", "C10", "src/cppparser/cppFunctionType.cxx",
  "  const int not_signature = F_override | F_final | F_noexcept | F_trailing_return_type;",
  "  const int not_signature = F_override | F_final | F_noexcept | F_trailing_return_type | F_const_method;",
  expect="R10.4|match_virtual_override|flags-modulo-override-final")

M("C02-true-divide-mirror-fixed-kind", "C02", "src/interrogate/interfaceMakerPythonNative.cxx",
  "            def._wrapper_type = slotted_def._wrapper_type;", "            def._wrapper_type = WT_binary_operator;",
  expect="R02.5|write_module_class|def|wrapper-type-of-mirrored-slot")
M("C02-benign-true-divide-mirror-conditional-kind", "C02", "src/interrogate/interfaceMakerPythonNative.cxx",
  "            def._wrapper_type = slotted_def._wrapper_type;", "            def._wrapper_type = (key == \"nb_inplace_divide\") ? WT_inplace_binary_operator : WT_binary_operator;",
  benign=True)
M("C02-true-divide-mirror-names-swapped", "C02", "src/interrogate/interfaceMakerPythonNative.cxx",
  "          if (key == \"nb_inplace_divide\") {\n            true_key = \"nb_inplace_true_divide\";\n          } else {\n            true_key = \"nb_true_divide\";", "          if (key == \"nb_inplace_divide\") {\n            true_key = \"nb_true_divide\";\n          } else {\n            true_key = \"nb_inplace_true_divide\";",
  expect="R02.5|write_module_class|true-divide-mirror-names")

M("C15-macro-arg-string-loop-ignores-eof", "C15", "src/cppparser/cppPreprocessor.cxx",
  "        while (c != EOF && c != quote_mark && c != '\\n') {\n          if (c == '\\\\') {\n            arg += c;", "        while (c != quote_mark && c != '\\n') {\n          if (c == '\\\\') {\n            arg += c;",
  expect="R15.8|CPPPreprocessor::extract_manifest_args")
M("C15-benign-skip-whitespace-eof-break", "C15", "src/cppparser/cppPreprocessor.cxx",
  "  while (c != EOF && isspace(c)) {\n    c = get();\n  }\n\n  if (c != '(') {\n    // No paren, so we have only one arg.", "  while (isspace(c)) {\n    c = get();\n    if (c == EOF) {\n      break;\n    }\n  }\n\n  if (c != '(') {\n    // No paren, so we have only one arg.",
  benign=True)

M("C15-define-ctor-steps-past-end", "C15", "src/cppparser/cppManifest.cxx",
  "    if (p < args.size()) {\n      // Skip the closing parenthesis (it is missing if the parameter list\n      // runs to the end of the line).\n      p++;\n    }\n", "    p++;\n",
  expect="R15.9|CPPManifest::CPPManifest|p|increment#")
M("C15-extract-args-steps-past-end", "C15", "src/cppparser/cppManifest.cxx",
  "        if (p >= expr.size()) {\n          // Unterminated quote; don't step past the end of the string.\n          break;\n        }\n", "",
  expect="R15.9|CPPManifest::extract_args|p|increment#")
M("C15-benign-cursor-guard-form", "C15", "src/cppparser/cppManifest.cxx",
  "    if (p < args.size()) {\n      // Skip the closing parenthesis (it is missing if the parameter list\n      // runs to the end of the line).\n      p++;\n    }\n", "    if (args.size() > p) {\n      ++p;\n    }\n",
  benign=True)

M("C15-include-derefs-null-infile", "C15", "src/cppparser/cppPreprocessor.cxx",
  "      if (_infile == nullptr || _infile->_parent == nullptr) {\n        // If we're currently processing a top-level file, record the include\n        // directive.  We don't need to record includes from included files.\n        _angle_includes.insert(filename);",
  "      if (_infile->_parent == nullptr) {\n        // If we're currently processing a top-level file, record the include\n        // directive.  We don't need to record includes from included files.\n        _angle_includes.insert(filename);",
  expect="R15.10|CPPPreprocessor::handle_include_directive")
M("C15-benign-include-null-infile-nested", "C15", "src/cppparser/cppPreprocessor.cxx",
  "      if (_infile == nullptr || _infile->_parent == nullptr) {\n        // If we're currently processing a top-level file, record the include\n        // directive.  We don't need to record includes from included files.\n        _angle_includes.insert(filename);",
  "      if (!_infile || !_infile->_parent) {\n        // If we're currently processing a top-level file, record the include\n        // directive.  We don't need to record includes from included files.\n        _angle_includes.insert(filename);",
  benign=True)

M("C15-template-args-loop-ignores-eof", "C15", "src/cppparser/cppPreprocessor.cxx",
  "    if (_state == S_eof) {\n      // We ran out of input before finding the closing angle bracket; a\n      // parameter pack would otherwise keep us here forever.\n      break;\n    }\n\n", "",
  expect="R15.11|CPPPreprocessor::nested_parse_template_instantiation")
M("C15-skip-to-end-nested-ignores-eof", "C15", "src/cppparser/cppPreprocessor.cxx",
  "  while (_state != S_end_nested && _state != S_eof) {\n    get_next_token();\n  }\n\n#ifdef CPP_VERBOSE_LEX\n  indent(cerr, get_file_depth() * 2)\n    << \"Done skipping tokens.\\n\";\n#endif\n}\n\n/**\n * This is an error-recovery function, called after returning from a nested\n * parse.  If we haven't yet consumed the closing angle bracket",
  "  while (_state != S_end_nested) {\n    get_next_token();\n  }\n\n#ifdef CPP_VERBOSE_LEX\n  indent(cerr, get_file_depth() * 2)\n    << \"Done skipping tokens.\\n\";\n#endif\n}\n\n/**\n * This is an error-recovery function, called after returning from a nested\n * parse.  If we haven't yet consumed the closing angle bracket",
  expect="R15.11|CPPPreprocessor::skip_to_end_nested")
M("C15-benign-template-args-eof-test-in-condition", "C15", "src/cppparser/cppPreprocessor.cxx",
  "       pi != formal_params._parameters.end() && _parsing_template_params;) {", "       pi != formal_params._parameters.end() && _parsing_template_params && _state != S_eof;) {",
  benign=True)

M("C14-bit-width-uninitialised-on-error", "C14", "src/cppparser/cppInstance.cxx",
  "      _bit_width = ii->_bit_width->evaluate().as_integer();\n    } else {\n      _bit_width = -1;\n    }", "      _bit_width = result.as_integer();\n    }",
  expect="R14.6|CPPInstance(")
M("C14-benign-bit-width-default-first", "C14", "src/cppparser/cppInstance.cxx",
  "  if (ii->_bit_width != nullptr) {\n    CPPExpression::Result result = ii->_bit_width->evaluate();\n    if (result._type != CPPExpression::RT_error) {\n      _bit_width = ii->_bit_width->evaluate().as_integer();\n    } else {\n      _bit_width = -1;\n    }\n  } else {\n    _bit_width = -1;\n  }",
  "  _bit_width = -1;\n  if (ii->_bit_width != nullptr) {\n    CPPExpression::Result result = ii->_bit_width->evaluate();\n    if (result._type != CPPExpression::RT_error) {\n      _bit_width = result.as_integer();\n    }\n  }",
  benign=True)
M("C14-interrogate-type-flag-uninitialised", "C14", "src/interrogatedb/interrogateFunctionWrapper.I",
  "  _return_value_destructor = 0;\n", "",
  expect="R14.6|InterrogateFunctionWrapper(")

M("C11-rename-after-recording", "C11", "src/interrogate/interfaceMaker.cxx",
  "    other_remap->_hash +=\n      InterrogateBuilder::hash_string(other_remap->_function_signature, 11);\n",
  "    other_remap->_hash +=\n      InterrogateBuilder::hash_string(other_remap->_function_signature, 11);\n    other_remap->_unique_name =\n      get_unique_prefix() + _def->library_hash_name + other_remap->_hash;\n",
  expect="R11.6|InterfaceMaker::hash_function_signature|writes|_unique_name")
M("C11-benign-name-locals", "C11", "src/interrogate/interfaceMaker.cxx",
  "      remap->_unique_name =\n        get_unique_prefix() + _def->library_hash_name + remap->_hash;", "      const std::string tail = _def->library_hash_name + remap->_hash;\n      remap->_unique_name = get_unique_prefix() + tail;",
  benign=True)

M("C05-make-seq-keyed-by-local-name", "C05", "src/interrogate/interrogateBuilder.cxx",
  "  string make_seq_name = make_seq->get_local_name(&parser);", "  string make_seq_name = make_seq->get_local_name(struct_type->get_scope());",
  expect="R05.7|InterrogateBuilder::get_make_seq|_make_seqs_by_name|key")
M("C05-property-keyed-by-simple-name", "C05", "src/interrogate/interrogateBuilder.cxx",
  "  string property_name = make_property->get_local_name(&parser);", "  string property_name = make_property->get_simple_name();",
  expect="R05.7|InterrogateBuilder::get_make_property|_properties_by_name|key")
M("C05-benign-make-seq-key-scoped", "C05", "src/interrogate/interrogateBuilder.cxx",
  "  string make_seq_name = make_seq->get_local_name(&parser);", "  string make_seq_name = make_seq->get_fully_scoped_name();",
  benign=True)

M("C07-binary-literal-first-digit-twice", "C07", "src/cppparser/cppPreprocessor.cxx",
  "    get();\n    c = peek();\n    string bin;\n", "    get();\n    c = peek();\n    string bin(1, (char)c);\n",
  expect="R07.8|get_number|bin|seed-is-consumed")
M("C07-benign-binary-literal-seed-consumed", "C07", "src/cppparser/cppPreprocessor.cxx",
  "    get();\n    c = peek();\n    string bin;\n", "    get();\n    c = peek();\n    string bin = \"\";\n",
  benign=True)

MUTANTS.append({"id": "C05-caller-manages-only-with-destructor", "prop": "C05", "benign": False,
  "expect": "R05.2|make_wrapper_entry|F_caller_manages|whenever-source",
  "edits": [("src/interrogate/functionRemap.cxx", "    iwrapper._flags |= InterrogateFunctionWrapper::F_caller_manages;\n    FunctionIndex destructor = _return_value_destructor;\n\n    if (destructor != 0) {\n",
             "    FunctionIndex destructor = _return_value_destructor;\n\n    if (destructor != 0) {\n      iwrapper._flags |= InterrogateFunctionWrapper::F_caller_manages;\n")]})
MUTANTS.append({"id": "C05-benign-caller-manages-after-destructor", "prop": "C05", "benign": True, "expect": None,
  "edits": [("src/interrogate/functionRemap.cxx", "    iwrapper._flags |= InterrogateFunctionWrapper::F_caller_manages;\n    FunctionIndex destructor = _return_value_destructor;\n",
             "    FunctionIndex destructor = _return_value_destructor;\n    iwrapper._flags |= InterrogateFunctionWrapper::F_caller_manages;\n")]})

M("C07-enum-reassociation-any-operator", "C07", "src/cppparser/cppEnumType.cxx",
  "               _last_value->_u._op._operator == '+' &&\n", "",
  expect="R07.9|add_element|binary@_u._op._op1|reassociation-only-for-plus")
M("C07-enum-successor-plus-two", "C07", "src/cppparser/cppEnumType.cxx",
  "      value = new CPPExpression(_last_value->_u._integer + 1);", "      value = new CPPExpression(_last_value->_u._integer + 2);",
  expect="R07.9|add_element|integer-successor")
M("C07-benign-enum-reassociation-order", "C07", "src/cppparser/cppEnumType.cxx",
  "    } else if (_last_value->_type == CPPExpression::T_binary_operation &&\n               _last_value->_u._op._operator == '+' &&\n               _last_value->_u._op._op2->_type == CPPExpression::T_integer) {",
  "    } else if (_last_value->_type == CPPExpression::T_binary_operation &&\n               _last_value->_u._op._op2->_type == CPPExpression::T_integer &&\n               '+' == _last_value->_u._op._operator) {",
  benign=True)

MUTANTS.append({"id": "C17-register-while-parsing", "prop": "C17", "benign": False,
  "expect": "R17.5|",
  "edits": [("src/interrogate/interrogate.cxx", "    parser._explicit_files.insert(filename);\n  }\n\n  // Now go through them again and feed them into the C++ parser.\n  for (i = 1; i < argc; ++i) {\n    Filename filename = Filename::from_os_specific(argv[i]);\n",
             "    parser._explicit_files.insert(filename);\n\n    filename = Filename::from_os_specific(argv[i]);\n")]})
M("C17-benign-register-loop-while", "C17", "src/interrogate/interrogate.cxx",
  "  for (i = 1; i < argc; ++i) {\n    Filename filename = Filename::from_os_specific(argv[i]);\n    filename.make_canonical();\n    parser._explicit_files.insert(filename);\n  }",
  "  i = 1;\n  while (i < argc) {\n    Filename filename = Filename::from_os_specific(argv[i]);\n    filename.make_canonical();\n    parser._explicit_files.insert(filename);\n    ++i;\n  }",
  benign=True)

M("C12-empty-string-keeps-old-value", "C12", "src/interrogatedb/interrogate_datafile.cxx",
  "  // Skip one character of whitespace, and then read the string.\n  in.get();\n  str = \"\";", "  if (length == 0) {\n    in.get();\n    return;\n  }\n\n  // Skip one character of whitespace, and then read the string.\n  in.get();\n  str = \"\";",
  expect="R12.6|idf_input_string(std::string&)|destination-always-assigned")
M("C12-benign-clear-string-first", "C12", "src/interrogatedb/interrogate_datafile.cxx",
  "  // Skip one character of whitespace, and then read the string.\n  in.get();\n  str = \"\";", "  str.clear();\n  // Skip one character of whitespace, and then read the string.\n  in.get();",
  benign=True)

M("C09-predefined-macro-keyed-by-option-text", "C09", "src/interrogate/interrogate.cxx",
  "  parser._manifests[macro->_name] = macro;", "  parser._manifests[macro_name] = macro;",
  expect="R09.3|")
M("C09-benign-predefined-macro-insert", "C09", "src/interrogate/parse_file.cxx",
  "  parser._manifests[macro->_name] = macro;", "  const std::string &key = macro->_name;\n  parser._manifests[key] = macro;",
  benign=True, allow_broken=False)

M("C06-template-arg-comma-needs-zero-nesting", "C06", "src/cppparser/cppPreprocessor.cxx",
  "    case ',':\n      if (_paren_nesting <= 0) {", "    case ',':\n      if (_paren_nesting == 0) {",
  expect="R06.7|CPPPreprocessor::internal_get_next_token|ends-argument")
M("C06-benign-template-arg-nesting-lt-one", "C06", "src/cppparser/cppPreprocessor.cxx",
  "    case ',':\n      if (_paren_nesting <= 0) {", "    case ',':\n      if (_paren_nesting < 1) {",
  benign=True)

MUTANTS.append({"id": "C15-unclosed-publish-reported-after-lexer-restore", "prop": "C15", "benign": False,
  "expect": "R15.12|parse_cpp|no-report-after-restore",
  "edits": [("src/cppparser/cppBison.yxx", "  if (publish_nest_level != 0) {\n    yyerror(\"Unclosed __begin_publish\", publish_loc);\n    publish_nest_level = 0;\n  }\n\n  current_scope = old_scope;\n  global_scope = old_global_scope;\n  current_lexer = old_lexer;\n",
             "  current_scope = old_scope;\n  global_scope = old_global_scope;\n  current_lexer = old_lexer;\n\n  if (publish_nest_level != 0) {\n    yyerror(\"Unclosed __begin_publish\", publish_loc);\n    publish_nest_level = 0;\n  }\n")]})
MUTANTS.append({"id": "C15-benign-restore-scopes-first", "prop": "C15", "benign": True, "expect": None,
  "edits": [("src/cppparser/cppBison.yxx", "  if (publish_nest_level != 0) {\n    yyerror(\"Unclosed __begin_publish\", publish_loc);\n    publish_nest_level = 0;\n  }\n\n  current_scope = old_scope;\n  global_scope = old_global_scope;\n  current_lexer = old_lexer;\n",
             "  current_scope = old_scope;\n  global_scope = old_global_scope;\n\n  if (publish_nest_level != 0) {\n    yyerror(\"Unclosed __begin_publish\", publish_loc);\n    publish_nest_level = 0;\n  }\n\n  current_lexer = old_lexer;\n")]})

M("C18-exponent-plus-sign-not-consumed", "C18", "src/cppparser/cppPreprocessor.cxx",
  "      if (c == '-' || c == '+') {\n        num += get();", "      if (c == '-') {\n        num += get();",
  expect="R18.5|get_number|exponent-sign")
M("C18-benign-exponent-sign-order", "C18", "src/cppparser/cppPreprocessor.cxx",
  "      if (c == '-' || c == '+') {\n        num += get();", "      if ('+' == c || '-' == c) {\n        num += get();",
  benign=True)

M("C04-public-typedef-hides-protected-type", "C04", "src/interrogate/typeManager.cxx",
  "  case CPPDeclaration::ST_typedef:\n    return involves_protected(type->as_typedef_type()->_type);", "  case CPPDeclaration::ST_typedef:\n    if (type->_vis <= V_public) {\n      return false;\n    }\n    return involves_protected(type->as_typedef_type()->_type);",
  expect="R04.9|involves_protected|ST_typedef")
M("C04-benign-typedef-arm-local", "C04", "src/interrogate/typeManager.cxx",
  "  case CPPDeclaration::ST_typedef:\n    return involves_protected(type->as_typedef_type()->_type);", "  case CPPDeclaration::ST_typedef: {\n    CPPType *aliased = type->as_typedef_type()->_type;\n    return involves_protected(aliased);\n  }",
  benign=True)

M("C02-bool-ranked-as-integer", "C02", "src/interrogate/interfaceMakerPythonNative.cxx",
  "  } else if (TypeManager::is_integer(type) && !TypeManager::is_bool(type)) {\n    return 5;", "  } else if (TypeManager::is_integer(type)) {\n    return 5;",
  expect="R02.6|get_type_sort|integer-rank-excludes-bool")
M("C02-benign-bool-rank-first-in-chain", "C02", "src/interrogate/interfaceMakerPythonNative.cxx",
  "  if (TypeManager::is_nullptr(type)) {\n    return 15;\n  } else if (TypeManager::is_pointer_to_Py_buffer(type)) {", "  if (TypeManager::is_bool(type)) {\n    return 1;\n  } else if (TypeManager::is_nullptr(type)) {\n    return 15;\n  } else if (TypeManager::is_pointer_to_Py_buffer(type)) {",
  benign=True)

MUTANTS.append({"id": "C14-forced-types-through-identity-ordered-set", "prop": "C14", "benign": False,
  "expect": "R14.5c|InterrogateBuilder::build",
  "edits": [("src/interrogate/interrogateBuilder.cxx", "  // First, get all the types that were explicitly forced.\n  Commands::const_iterator ci;",
             "  // First, get all the types that were explicitly forced.\n  std::set<CPPType *, CPPTypeCompare> forced_types;\n  Commands::const_iterator ci;"),
            ("src/interrogate/interrogateBuilder.cxx", "      continue;\n    }\n    get_type(type, true);\n  }", "      continue;\n    }\n    forced_types.insert(type);\n  }\n  for (CPPType *type : forced_types) {\n    get_type(type, true);\n  }")]})

M("C19-string-payload-through-streambuf", "C19", "src/interrogatedb/interrogate_datafile.cxx",
  "  out << str.length() << whitespace;\n  if (!str.empty()) {\n    out << str << whitespace;", "  out << str.length() << whitespace;\n  if (!str.empty()) {\n    out.rdbuf()->sputn(str.data(), str.length());\n    out << whitespace;",
  expect="R19.b|idf_output_string|sputn")
M("C12-benign-string-payload-write", "C12", "src/interrogatedb/interrogate_datafile.cxx",
  "  out << str.length() << whitespace;\n  if (!str.empty()) {\n    out << str << whitespace;", "  out << str.length() << whitespace;\n  if (!str.empty()) {\n    out.write(str.data(), str.size());\n    out << whitespace;",
  benign=True)

M("C09-number-letters-taken-for-identifier", "C09", "src/cppparser/cppPreprocessor.cxx",
  "    else if (isdigit(expr[p])) {\n      // A number.  Skip it whole, so that the letters of a hex or binary\n      // prefix, an exponent or a suffix (0x10, 0b11, 1e5, 1L, 10u) are not\n      // mistaken for an identifier to be expanded.\n      p++;\n      while (p < expr.size() &&\n             (isalnum(expr[p]) || expr[p] == '_' || expr[p] == '.' ||\n              (expr[p] == '\\'' && p + 1 < expr.size() && isalnum(expr[p + 1])) ||\n              ((expr[p] == '+' || expr[p] == '-') &&\n               (expr[p - 1] == 'e' || expr[p - 1] == 'E' ||\n                expr[p - 1] == 'p' || expr[p - 1] == 'P')))) {\n        p++;\n      }\n    }\n", "",
  expect="R09.4|expand_manifests|number-consumed-whole")
M("C09-benign-number-skip-isxdigit", "C09", "src/cppparser/cppPreprocessor.cxx",
  "    else if (isdigit(expr[p])) {\n      // A number.  Skip it whole,", "    else if (isdigit(expr[p]) != 0) {\n      // A number.  Skip it whole,",
  benign=True)

MUTANTS.append({"id": "C15-current-enum-reset-to-null", "prop": "C15", "benign": False,
  "expect": "R15.13|current_enum|reset-to-null",
  "edits": [("src/cppparser/cppBison.yxx", "  current_enum = last_enums.back();\n  last_enums.pop_back();\n", "  current_enum = nullptr;\n")]})

M("C07-hex-separator-decimal-only", "C07", "src/cppparser/cppPreprocessor.cxx",
  "      c = skip_digit_separator(peek(), true);", "      c = skip_digit_separator(peek());",
  expect="R07.10|get_number|hex-digits|hex-class")
M("C07-fraction-without-separators", "C07", "src/cppparser/cppPreprocessor.cxx",
  "    while (c != EOF && isdigit(c)) {\n      num += get();\n      c = skip_digit_separator(peek());\n    }\n  }\n\n  if (decimal_point || c == 'e' || c == 'E') {",
  "    while (c != EOF && isdigit(c)) {\n      num += get();\n      c = peek();\n    }\n  }\n\n  if (decimal_point || c == 'e' || c == 'E') {",
  expect="R07.10|get_number|")
M("C07-cast-to-short-ignores-width", "C07", "src/cppparser/cppExpression.cxx",
  '          if (stype->_flags & CPPSimpleType::F_short) {\n            if (stype->_flags & CPPSimpleType::F_unsigned) {\n              return Result((int)(unsigned short)value);\n            } else {\n              return Result((int)(short)value);\n            }\n          }\n', "",
  expect="R07.12|evaluate|cast-to-T_int|plain-return")

M("C07-conditional-truncates-condition", "C07", "src/cppparser/cppExpression.cxx",
  "      return r1.as_boolean() ?\n        _u._op._op2->evaluate() : _u._op._op3->evaluate();", "      return r1.as_integer() ?\n        _u._op._op2->evaluate() : _u._op._op3->evaluate();",
  expect="R07.3|")

M("C07-generator-as-integer-of-error-result", "C07", "src/interrogate/interfaceMakerPythonNative.cxx",
  "            CPPExpression::Result bounds = array_type->_bounds->evaluate();\n            if (bounds._type == CPPExpression::RT_integer) {\n              array_len = bounds.as_integer();\n            }", "            array_len = array_type->_bounds->evaluate().as_integer();",
  expect="R07.6|write_function_instance|as_integer-of-untested-result")

M("C10-getter-description-strips-initializer", "C10", "src/interrogate/interrogateBuilder.cxx",
  "  desc << \"getter for \";\n  if (element != nullptr) {\n    // Describe the element without its default value, but leave the parsed\n    // declaration as it was: is_default_constructible() looks at it later.\n    CPPExpression *initializer = element->_initializer;\n    element->_initializer = nullptr;\n    element->output(desc, 0, &parser, false);\n    element->_initializer = initializer;",
  "  desc << \"getter for \";\n  if (element != nullptr) {\n    element->_initializer = nullptr;\n    element->output(desc, 0, &parser, false);",
  expect="R10.5|InterrogateBuilder::get_getter|_initializer|restored")
M("C10-const-member-ignored", "C10", "src/cppparser/cppStructType.cxx",
  "      if (member_ctor == nullptr ||\n          (member_ctor->_storage_class & CPPInstance::SC_defaulted) != 0) {\n        return false;\n      }", "      if (member_ctor == nullptr ||\n          (member_ctor->_storage_class & CPPInstance::SC_defaulted) != 0) {\n        continue;\n      }",
  expect="R10.1|is_default_constructible|M:const-without-initializer")

MUTANTS.append({"id": "C15-declared-type-not-stacked", "prop": "C15", "benign": False,
  "expect": "R15.13|current_type|pushed-before-replaced",
  "edits": [("src/cppparser/cppBison.yxx", "  // These declarations can nest: an initializer may contain a class\n  // definition with members of its own (e.g. within sizeof).\n  last_types.push_back(current_type);\n", ""),
            ("src/cppparser/cppBison.yxx", "        multiple_instance_identifiers\n{\n  pop_storage_class();\n  current_type = last_types.back();\n  last_types.pop_back();\n}", "        multiple_instance_identifiers\n{\n  pop_storage_class();\n}")]})

M("C15-hex-literal-through-stoull", "C15", "src/cppparser/cppPreprocessor.cxx",
  "    result.u.integer = strtol(num.c_str(), nullptr, 16);", "    result.u.integer = std::stoull(num, nullptr, 16);",
  expect="R15.15|CPPPreprocessor::get_number|stoull")

M("C17-canonical-resolves-directory-only", "C17", "src/dtoolutil/filename.cxx",
  "  if (realpath(c_str(), newpath) != nullptr) {\n    Filename newpath_fn(newpath);", "  if (realpath(get_dirname().c_str(), newpath) != nullptr) {\n    Filename newpath_fn(Filename(newpath), get_basename());",
  expect="R17.6|make_canonical|realpath-of-whole-name")
M("C09-rescan-without-undefined-mode", "C09", "src/cppparser/cppPreprocessor.cxx",
  "          expand_manifests(result, expand_undefined, nested_ignores);", "          expand_manifests(result, false, nested_ignores);",
  expect="R09.5|expand_manifests|rescan#0|forwards-mode")
M("C20-unique-name-lookup-needs-fptrs", "C20", "src/interrogatedb/interrogateDatabase.cxx",
  "  if (index_offset >= 0) {\n    return def->first_index + index_offset;", "  if (index_offset >= 0 && index_offset < def->num_fptrs) {\n    return def->first_index + index_offset;",
  expect="R20.9|InterrogateDatabase::get_wrapper_by_unique_name|reads-fptr-table")

M("C14-type-trait-returns-node-address", "C14", "src/cppparser/cppExpression.cxx",
  "->is_enum())", "->as_enum_type())",
  expect="R14.7|CPPExpression::evaluate|Result(void*)")

M("C07-right-shift-in-unsigned-domain", "C07", "src/cppparser/cppExpression.cxx",
  "      return Result(r1.as_integer() >> r2.as_integer());", "      return Result((int)((unsigned int)r1.as_integer() >> r2.as_integer()));",
  expect="R07.3|")

M("C07-benign-left-shift-in-unsigned-domain", "C07", "src/cppparser/cppExpression.cxx",
  "      return Result(r1.as_integer() << r2.as_integer());", "      return Result((int)((unsigned int)r1.as_integer() << r2.as_integer()));",
  benign=True)

M("C06-base-scope-lookup-recurses", "C06", "src/cppparser/cppScope.cxx",
  "        CPPType *type = st->_scope->find_type(name, false);", "        CPPType *type = st->_scope->find_type(name, recurse);",
  expect="R06.8|CPPScope::find_type")

M("C13-global-tie-break-dropped", "C13", "src/interrogatedb/interrogateType.cxx",
  "  if (is_fully_defined() &&\n      (!other.is_fully_defined() || (other._flags & F_global) == 0)) {", "  if (is_fully_defined() && !other.is_fully_defined()) {",
  expect="R13.5|merge_with|fully-defined-then-global-wins")
M("C13-benign-merge-with-is-global", "C13", "src/interrogatedb/interrogateType.cxx",
  "  if (is_fully_defined() &&\n      (!other.is_fully_defined() || (other._flags & F_global) == 0)) {", "  if (is_fully_defined() &&\n      (!other.is_fully_defined() || !other.is_global())) {",
  benign=True)
MUTANTS.append({"id": "C13-mapping-built-while-translating", "prop": "C13", "benign": False,
  "expect": "R13.5|merge_from|mapping-complete-before-first-translation",
  "edits": [("src/interrogatedb/interrogateDatabase.cxx", "        remap.add_mapping(other_type_index, this_type_index);\n      }\n    }\n  }\n\n  // Now that we know the full type-to-type mapping, we can copy the new\n  // types, one at a time.\n  for (ti = other._type_map.begin(); ti != other._type_map.end(); ++ti) {\n    TypeIndex other_type_index = (*ti).first;\n    const InterrogateType &other_type = (*ti).second;\n",
             "        remap.add_mapping(other_type_index, this_type_index);\n      }\n    }\n")]})

M("C18-weeding-ignores-lower-boundary", "C18", "src/dtoolbase/pdtoa.cxx",
  "  while (rest < wp_w && delta - rest >= ten_kappa &&", "  while (rest < wp_w && delta >= ten_kappa &&",
  expect="R18.6|GrisuRound|weeding-condition")
M("C18-benign-weeding-condition-order", "C18", "src/dtoolbase/pdtoa.cxx",
  "  while (rest < wp_w && delta - rest >= ten_kappa &&", "  while (delta - rest >= ten_kappa && rest < wp_w &&",
  benign=True)

M("C05-public-virtual-base-recorded-nonvirtual", "C05", "src/cppparser/cppBison.yxx",
  "        | KW_PUBLIC KW_VIRTUAL class_derivation_name\n{\n  current_struct->append_derivation($3, V_public, true);", "        | KW_PUBLIC KW_VIRTUAL class_derivation_name\n{\n  current_struct->append_derivation($3, V_public, false);",
  expect="R05.8|base_specification|KW_PUBLIC_KW_VIRTUAL")
M("C05-virtual-base-without-access-rejected", "C05", "src/cppparser/cppBison.yxx",
  "        | KW_VIRTUAL class_derivation_name\n{\n  current_struct->append_derivation($2, V_unknown, true);\n}\n", "",
  expect="R05.8|base_specification|covers|virtual+V_unknown")

M("C02-property-setter-accepts-const-this", "C02", "src/interrogate/interfaceMakerPythonNative.cxx",
  "        out << \"  if (!Dtool_Call_ExtractThisPointer_NonConst(self, Dtool_\" << ClassName << \", (void **)&local_this, \\\"\"\n            << classNameFromCppName(cClassName, false) << \".\" << ielem.get_name() << \"\\\")) {\\n\";\n        out << \"    return -1;\\n\";\n        out << \"  }\\n\\n\";\n      }\n\n      out << \"  if (arg == nullptr) {\\n\";",
  "        out << \"  if (!Dtool_Call_ExtractThisPointer(self, Dtool_\" << ClassName << \", (void **)&local_this)) {\\n\";\n        out << \"    return -1;\\n\";\n        out << \"  }\\n\\n\";\n      }\n\n      out << \"  if (arg == nullptr) {\\n\";",
  expect="R02.7|write_getset")

# ---------------------------------------------------------------- C09 R09.6 / R09.7 (F-C09b, F-C09c)
M("C09-null-directive-swallows-next-line", "C09", "src/cppparser/cppPreprocessor.cxx",
  "  assert(c == '#');\n  // Skip blanks after the '#', but stay on the line: a '#' alone on a line is\n  // a (valid) null directive.\n  c = skip_comment(get());\n  while (c != EOF && c != '\\n' && isspace(c)) {\n    c = skip_comment(get());\n  }\n",
  "  assert(c == '#');\n  c = skip_whitespace(get());\n",
  expect="R09.6|process_directive|no-skip_whitespace")
M("C09-skipper-hash-crosses-line", "C09", "src/cppparser/cppPreprocessor.cxx",
  "    if (c == '#' && _start_of_line) {\n      c = skip_comment(get());\n      while (c != EOF && c != '\\n' && isspace(c)) {\n",
  "    if (c == '#' && _start_of_line) {\n      c = skip_comment(get());\n      while (c != EOF && isspace(c)) {\n",
  expect="R09.6|skip_false_if_block|blank-loop#0|stops-at-newline")
M("C09-skipper-scans-literals-for-comments", "C09", "src/cppparser/cppPreprocessor.cxx",
  "    } else if (c == '\"' || c == '\\'') {\n      // A string or character literal in the skipped text.",
  "    } else if (false) {\n      // A string or character literal in the skipped text.",
  expect="R09.7|skip_false_if_block|literal-branch")
M("C09-skipper-literal-contents-through-skip_comment", "C09", "src/cppparser/cppPreprocessor.cxx",
  "            break;\n          }\n        }\n        c = get();\n      }\n      if (c == quote_mark) {",
  "            break;\n          }\n        }\n        c = skip_comment(get());\n      }\n      if (c == quote_mark) {",
  expect="R09.7|skip_false_if_block|literal-branch|consumed-raw")
M("C09-skipper-literal-ignores-escapes", "C09", "src/cppparser/cppPreprocessor.cxx",
  "        if (c == '\\\\') {\n          c = get();\n          if (c == EOF || c == '\\n') {\n            break;\n          }\n        }\n        c = get();\n      }\n      if (c == quote_mark) {",
  "        c = get();\n      }\n      if (c == quote_mark) {",
  expect="R09.7|skip_false_if_block|literal-branch|escapes")
M("C09-benign-literal-branch-two-tests", "C09", "src/cppparser/cppPreprocessor.cxx",
  "      while (c != EOF && c != quote_mark && c != '\\n') {\n        if (c == '\\\\') {",
  "      while (c != '\\n' && c != quote_mark && c != EOF) {\n        if (c == '\\\\') {",
  benign=True)
M("C09-benign-blank-loop-explicit", "C09", "src/cppparser/cppPreprocessor.cxx",
  "  c = skip_comment(get());\n  while (c != EOF && c != '\\n' && isspace(c)) {\n    c = skip_comment(get());\n  }\n\n  int begin_line",
  "  c = skip_comment(get());\n  while (c != '\\n' && c != EOF && isspace(c)) {\n    c = skip_comment(get());\n  }\n\n  int begin_line",
  benign=True)

# ---------------------------------------------------------------- R15.16 / R15.17 / R06.9 (F-C15l, F-C15m, F-C06g)
M("C15-parameter-expression-cleared-while-printing", "C15", "src/cppparser/cppParameterList.cxx",
  "          i < (int)_parameters.size() - num_default_parameters &&\n          !_parameters[i]->_type->is_parameter_expr()) {",
  "          i < (int)_parameters.size() - num_default_parameters) {",
  expect="R15.16|CPPParameterList::output|clear#0|spares-parameter-expressions")
M("C15-initializer-deref-unguarded", "C15", "src/cppparser/cppInstance.cxx",
  "  if (_initializer != nullptr && !_initializer->is_fully_specified()) {",
  "  if (!_initializer->is_fully_specified()) {",
  expect="R15.16|CPPInstance::is_fully_specified")
M("C15-enumerator-without-value", "C15", "src/cppparser/cppEnumType.cxx",
  "      static CPPExpression *const one = new CPPExpression(1);\n      value = new CPPExpression('+', _last_value, one);",
  "      // leave it to the compiler",
  expect="R15.16|CPPEnumType::add_element|element-always-valued")
M("C15-benign-initializer-test-swapped", "C15", "src/cppparser/cppInstance.cxx",
  "  if (_initializer != nullptr && !_initializer->is_fully_specified()) {",
  "  if (nullptr != _initializer && !_initializer->is_fully_specified()) {",
  benign=True)
M("C15-custom-literal-null-expression", "C15", "src/cppparser/cppPreprocessor.cxx",
  "  error(fgroup->_name + \" has no suitable overload for literal of this type\", loc);\n  return CPPToken(token, loc, str, value);",
  "  error(fgroup->_name + \" has no suitable overload for literal of this type\", loc);\n  result.u.expr = nullptr;\n  return CPPToken(CUSTOM_LITERAL, loc, str, result);",
  expect="R15.17|")
M("C15-benign-custom-literal-error-first", "C15", "src/cppparser/cppPreprocessor.cxx",
  "  error(fgroup->_name + \" has no suitable overload for literal of this type\", loc);\n  return CPPToken(token, loc, str, value);",
  "  CPPToken plain(token, loc, str, value);\n  error(fgroup->_name + \" has no suitable overload for literal of this type\", loc);\n  return plain;",
  benign=True)
M("C06-raw-literal-records-null-operator", "C06", "src/cppparser/cppPreprocessor.cxx",
  "CPPExpression::raw_literal(str, raw_instance)", "CPPExpression::raw_literal(str, instance)",
  expect="R06.9|CPPPreprocessor::get_literal|raw_literal(instance)")
M("C06-benign-raw-literal-local", "C06", "src/cppparser/cppPreprocessor.cxx",
  "    result.u.expr = new CPPExpression(CPPExpression::raw_literal(str, raw_instance));",
  "    CPPInstance *lit_op = raw_instance;\n    result.u.expr = new CPPExpression(CPPExpression::raw_literal(str, lit_op));",
  benign=True)

# ---------------------------------------------------------------- R15.18 / R15.19 (F-C15n, F-C15o)
M("C15-typedef-target-cpptype-unchecked", "C15", "src/interrogate/interfaceMakerPythonNative.cxx",
  "    if (wrapped_itype._cpptype == nullptr) {\n      // The typedef names a type that is not in the database (for instance a\n      // class template that was never instantiated); there is no class to\n      // alias.\n      return;\n    }\n",
  "",
  expect="R15.18|InterfaceMakerPythonNative::write_sub_module|wrapped_itype._cpptype")
M("C15-base-cpptype-unchecked", "C15", "src/interrogate/interfaceMakerPythonNative.cxx",
  "      if (is_cpp_type_legal(d_itype._cpptype)) {\n        if (!isExportThisRun(d_itype._cpptype)) {",
  "      if (!interrogate_type_is_nested(d_type_Index)) {\n        if (!isExportThisRun(d_itype._cpptype)) {",
  expect="R15.18|InterfaceMakerPythonNative::write_module_class|d_itype._cpptype")
M("C15-benign-typedef-target-test-form", "C15", "src/interrogate/interfaceMakerPythonNative.cxx",
  "    if (wrapped_itype._cpptype == nullptr) {\n      // The typedef names",
  "    if (!wrapped_itype._cpptype) {\n      // The typedef names",
  benign=True)
M("C15-unbounded-array-assignable", "C15", "src/interrogate/typeManager.cxx",
  "    return type->as_array_type()->_bounds != nullptr;",
  "    return true;",
  expect="R15.19|TypeManager::is_assignable|ST_array|needs-a-bound")
M("C15-setter-without-assignable-test", "C15", "src/interrogate/interrogateBuilder.cxx",
  "    if (TypeManager::is_assignable(element_type)) {\n      FunctionIndex setter =",
  "    if (!TypeManager::is_const(element_type)) {\n      FunctionIndex setter =",
  expect="R15.19|InterrogateBuilder::scan_element|get_setter|behind-is_assignable")
M("C15-array-bound-deref-unguarded", "C15", "src/interrogate/interrogateBuilder.cxx",
  "  if (cpptype->_bounds == nullptr) {\n    // This indicates an unsized array.\n    itype._array_size = -1;\n  } else {",
  "  if (cpptype->_element_type == nullptr) {\n    // This indicates an unsized array.\n    itype._array_size = -1;\n  } else {",
  expect="R15.19|InterrogateBuilder::define_array_type")
M("C15-benign-array-bound-test-swapped", "C15", "src/interrogate/typeManager.cxx",
  "    return type->as_array_type()->_bounds != nullptr;",
  "    return nullptr != type->as_array_type()->_bounds;",
  benign=True)

# ---------------------------------------------------------------- R15.20 (F-C15p)
M("C15-class-listed-in-own-scope", "C15", "src/cppparser/cppBison.yxx",
  "  if (names_enclosing_class) {\n    yywarning(\"declaration does not declare anything\", @2);\n  } else {\n    current_scope->add_declaration($2, global_scope, current_lexer, @2);\n  }",
  "  if (names_enclosing_class) {\n    yywarning(\"declaration does not declare anything\", @2);\n  }\n  current_scope->add_declaration($2, global_scope, current_lexer, @2);",
  expect="R15.20|")
M("C15-enclosing-walk-stops-at-current-scope", "C15", "src/cppparser/cppBison.yxx",
  "    for (CPPScope *scope = current_scope;\n         scope != nullptr;\n         scope = scope->get_parent_scope()) {\n      if (scope == declared_struct->get_scope()) {\n        names_enclosing_class = true;\n        break;\n      }\n    }",
  "    names_enclosing_class = false;",
  expect="R15.20|")
M("C15-benign-enclosing-walk-while", "C15", "src/cppparser/cppBison.yxx",
  "    for (CPPScope *scope = current_scope;\n         scope != nullptr;\n         scope = scope->get_parent_scope()) {\n      if (scope == declared_struct->get_scope()) {\n        names_enclosing_class = true;\n        break;\n      }\n    }",
  "    CPPScope *scope = current_scope;\n    while (scope != nullptr && !names_enclosing_class) {\n      if (declared_struct->get_scope() == scope) {\n        names_enclosing_class = true;\n      }\n      scope = scope->get_parent_scope();\n    }",
  benign=True)

# ---------------------------------------------------------------- R11.7 (F-C11b)
M("C11-zero-make-seq-stored", "C11", "src/interrogate/interrogateBuilder.cxx",
  "        if (make_seq_index != 0) {\n          itype._make_seqs.push_back(make_seq_index);\n        }",
  "        itype._make_seqs.push_back(make_seq_index);",
  expect="R11.7|InterrogateBuilder::define_struct_type|_make_seqs.push_back(make_seq_index)|from-get_make_seq")
M("C11-zero-element-stored", "C11", "src/interrogate/interrogateBuilder.cxx",
  "        if (data_member != 0) {\n          itype._elements.push_back(data_member);\n        }",
  "        itype._elements.push_back(data_member);",
  expect="R11.7|InterrogateBuilder::define_struct_type|_elements.push_back(data_member)|from-scan_element")
M("C11-zero-nested-type-stored", "C11", "src/interrogate/interrogateBuilder.cxx",
  "        TypeIndex nested_index = get_type(type, false);\n        if (nested_index != 0) {\n          itype._nested_types.push_back(nested_index);\n        }",
  "        TypeIndex nested_index = get_type(type, false);\n        itype._nested_types.push_back(nested_index);",
  expect="R11.7|InterrogateBuilder::define_struct_type|_nested_types.push_back(nested_index)|from-get_type")
M("C11-benign-zero-test-positive", "C11", "src/interrogate/interrogateBuilder.cxx",
  "        if (make_seq_index != 0) {\n          itype._make_seqs.push_back(make_seq_index);\n        }",
  "        if (make_seq_index > 0) {\n          itype._make_seqs.push_back(make_seq_index);\n        }",
  benign=True)

# ---------------------------------------------------------------- R05.9 (F-C05b)
M("C05-getter-shadows-later-method", "C05", "src/interrogate/interrogateBuilder.cxx",
  "  if (scope != nullptr && scope->_functions.count(fname) != 0) {\n    return 0;\n  }\n\n  ostringstream desc;\n  desc << \"getter for \";",
  "  ostringstream desc;\n  desc << \"getter for \";",
  expect="R05.9|get_getter|synthesis|only-if-name-not-declared-in-scope")
M("C05-setter-ignores-scanned-functions", "C05", "src/interrogate/interrogateBuilder.cxx",
  "  // function for a synthesized setter.\n  string function_name = TypeManager::get_function_name(function);\n  if (_functions_by_name.count(function_name) != 0) {\n    return 0;\n  }",
  "  // function for a synthesized setter.\n  string function_name = TypeManager::get_function_name(function);",
  expect="R05.9|get_setter|synthesis|only-if-name-not-already-scanned")
M("C05-benign-accessor-collision-find", "C05", "src/interrogate/interrogateBuilder.cxx",
  "  if (scope != nullptr && scope->_functions.count(fname) != 0) {\n    return 0;\n  }\n\n  ostringstream desc;\n  desc << \"getter for \";",
  "  if (scope != nullptr && scope->_functions.find(fname) != scope->_functions.end()) {\n    return 0;\n  }\n\n  ostringstream desc;\n  desc << \"getter for \";",
  benign=True)

# ---------------------------------------------------------------- R02.8 (F-C02b)
M("C02-make-seq-tuple-unchecked", "C02", "src/interrogate/interfaceMakerPythonNative.cxx",
  "    \"  PyObject *tuple = PyTuple_New(count);\\n\"\n    \"  if (tuple == nullptr) {\\n\"\n    \"    return nullptr;\\n\"\n    \"  }\\n\"\n",
  "    \"  PyObject *tuple = PyTuple_New(count);\\n\"\n",
  expect="R02.8|write_make_seq|tuple=New(count)|tested-before-use")
M("C02-benign-make-seq-tuple-not-form", "C02", "src/interrogate/interfaceMakerPythonNative.cxx",
  "    \"  if (tuple == nullptr) {\\n\"\n    \"    return nullptr;\\n\"\n    \"  }\\n\"\n",
  "    \"  if (!tuple) {\\n\"\n    \"    return nullptr;\\n\"\n    \"  }\\n\"\n",
  benign=True)

# ---------------------------------------------------------------- R04.2 vis (make_property), R04.10, R04.11 (F-C04a, F-C04b)
M("C04-command-file-stops-at-eof", "C04", "src/interrogate/interrogateBuilder.cxx",
  "  while (!in.fail()) {\n    // Strip out the comment.",
  "  while (!in.fail() && !in.eof()) {\n    // Strip out the comment.",
  expect="R04.11|read_command_file|loop-does-not-stop-at-eof")
M("C04-benign-command-file-getline-loop", "C04", "src/interrogate/interrogateBuilder.cxx",
  "  while (!in.fail()) {\n    // Strip out the comment.",
  "  while (!(in.fail())) {\n    // Strip out the comment.",
  benign=True)
M("C04-private-make-property-exported", "C04", "src/interrogate/interrogateBuilder.cxx",
  "      if ((*di)->_vis <= min_vis) {\n        ElementIndex element_index = get_make_property(",
  "      if ((*di)->_vis <= V_private) {\n        ElementIndex element_index = get_make_property(",
  expect="R04.2|define_struct_type|get_make_property")
M("C04-private-make-seq-exported", "C04", "src/interrogate/interrogateBuilder.cxx",
  "      if ((*di)->_vis <= min_vis) {\n        MakeSeqIndex make_seq_index = get_make_seq(",
  "      {\n        MakeSeqIndex make_seq_index = get_make_seq(",
  expect="R04.2|define_struct_type|get_make_seq")
M("C04-private-accessor-taken", "C04", "src/interrogate/interrogateBuilder.cxx",
  "  fgroup = make_property->_get_function;\n  if (fgroup != nullptr) {\n    CPPFunctionGroup::Instances::const_iterator fi;\n    for (fi = fgroup->_instances.begin(); fi != fgroup->_instances.end(); ++fi) {\n      CPPInstance *function = (*fi);\n      if (function->_vis > V_public) {\n        // A private or protected method cannot be called from a wrapper.\n        continue;\n      }\n",
  "  fgroup = make_property->_get_function;\n  if (fgroup != nullptr) {\n    CPPFunctionGroup::Instances::const_iterator fi;\n    for (fi = fgroup->_instances.begin(); fi != fgroup->_instances.end(); ++fi) {\n      CPPInstance *function = (*fi);\n",
  expect="R04.10|get_make_property|loop#")
M("C04-protected-accessor-taken", "C04", "src/interrogate/interrogateBuilder.cxx",
  "  fgroup = make_property->_get_function;\n  if (fgroup != nullptr) {\n    CPPFunctionGroup::Instances::const_iterator fi;\n    for (fi = fgroup->_instances.begin(); fi != fgroup->_instances.end(); ++fi) {\n      CPPInstance *function = (*fi);\n      if (function->_vis > V_public) {",
  "  fgroup = make_property->_get_function;\n  if (fgroup != nullptr) {\n    CPPFunctionGroup::Instances::const_iterator fi;\n    for (fi = fgroup->_instances.begin(); fi != fgroup->_instances.end(); ++fi) {\n      CPPInstance *function = (*fi);\n      if (function->_vis > V_protected) {",
  expect="R04.10|get_make_property|loop#")
M("C04-benign-accessor-test-form", "C04", "src/interrogate/interrogateBuilder.cxx",
  "  fgroup = make_property->_get_function;\n  if (fgroup != nullptr) {\n    CPPFunctionGroup::Instances::const_iterator fi;\n    for (fi = fgroup->_instances.begin(); fi != fgroup->_instances.end(); ++fi) {\n      CPPInstance *function = (*fi);\n      if (function->_vis > V_public) {",
  "  fgroup = make_property->_get_function;\n  if (fgroup != nullptr) {\n    CPPFunctionGroup::Instances::const_iterator fi;\n    for (fi = fgroup->_instances.begin(); fi != fgroup->_instances.end(); ++fi) {\n      CPPInstance *function = (*fi);\n      if (!(function->_vis <= V_public)) {",
  benign=True)

# ---------------------------------------------------------------- R07.13, R06.10 (F-C07j, F-C06h)
M("C07-is-base-of-built-as-is-class", "C07", "src/cppparser/cppBison.yxx",
  "type_trait(KW_IS_BASE_OF, $3, $5)", "type_trait(KW_IS_CLASS, $3, $5)",
  expect="R07.13|")
M("C07-convertible-drops-second-operand", "C07", "src/cppparser/cppBison.yxx",
  "type_trait(KW_IS_CONVERTIBLE_TO, $3, $5)", "type_trait(KW_IS_CONVERTIBLE_TO, $3)",
  expect="R07.13|")
M("C06-trait-second-operand-not-printed", "C06", "src/cppparser/cppExpression.cxx",
  "    if (_u._type_trait._arg != nullptr) {\n      out << \", \";\n      _u._type_trait._arg->output(out, indent_level, scope, false);\n    }\n", "",
  expect="R06.10|output|T_type_trait|_u._type_trait._arg")
M("C06-benign-trait-operand-printed-inline", "C06", "src/cppparser/cppExpression.cxx",
  "    if (_u._type_trait._arg != nullptr) {\n      out << \", \";\n      _u._type_trait._arg->output(out, indent_level, scope, false);\n    }\n",
  "    if (_u._type_trait._arg != nullptr) {\n      out << \", \" << *_u._type_trait._arg;\n    }\n",
  benign=True)

# ---------------------------------------------------------------- R06.11 (F-C06i)
M("C06-sign-joined-to-operand", "C06", "src/cppparser/cppExpression.cxx",
  "        out << sign;\n        if (!operand_str.empty() && operand_str[0] == sign) {\n          out << ' ';\n        }\n        out << operand_str;",
  "        out << sign;\n        _u._op._op1->output(out, indent_level, scope, false);",
  expect="R06.11|output|")
M("C06-benign-sign-parenthesised", "C06", "src/cppparser/cppExpression.cxx",
  "        out << sign;\n        if (!operand_str.empty() && operand_str[0] == sign) {\n          out << ' ';\n        }\n        out << operand_str;",
  "        out << \"(\" << sign << \" \";\n        _u._op._op1->output(out, indent_level, scope, false);\n        out << \")\";",
  benign=True)

# ---------------------------------------------------------------- R10.6 / R10.7 (F-C10f, F-C10g)
M("C10-typedef-argument-not-unwrapped", "C10", "src/cppparser/cppType.cxx",
  "  if (other.get_subtype() == ST_typedef && get_subtype() != ST_typedef) {\n    // A typedef is equivalent to the type it names, whichever side it is on.\n    return other.is_equivalent(*this);\n  }\n",
  "",
  expect="R10.6|CPPType::is_equivalent|subtype-mismatch#0")
M("C10-benign-typedef-argument-unwrapped-by-loop", "C10", "src/cppparser/cppType.cxx",
  "  if (other.get_subtype() == ST_typedef && get_subtype() != ST_typedef) {\n    // A typedef is equivalent to the type it names, whichever side it is on.\n    return other.is_equivalent(*this);\n  }\n",
  "  if (other.get_subtype() == ST_typedef) {\n    if (get_subtype() != ST_typedef) {\n      return other.is_equivalent(*this);\n    }\n  }\n",
  benign=True)
M("C10-parameter-const-one-side-only", "C10", "src/cppparser/cppParameterList.cxx",
  "    while (other_type->as_const_type() != nullptr) {\n      other_type = other_type->as_const_type()->_wrapped_around;\n    }\n",
  "",
  expect="R10.7|CPPParameterList::is_equivalent|compare#0")
M("C10-parameter-const-compared", "C10", "src/cppparser/cppParameterList.cxx",
  "    if (!type->is_equivalent(*other_type)) {",
  "    if (!_parameters[i]->_type->is_equivalent(*other._parameters[i]->_type)) {",
  expect="R10.7|CPPParameterList::is_equivalent|compare#0")

# ---------------------------------------------------------------- R12.4 identifier clause (F-C12b)
M("C12-identifier-mismatch-still-read", "C12", "src/interrogatedb/interrogateDatabase.cxx",
  "            set_error_flag(true);\n\n          } else if (_file_major_version != _current_major_version ||",
  "            set_error_flag(true);\n          }\n\n          if (_file_major_version != _current_major_version ||",
  expect="R12.4|load_latest|no-read-on-identifier-mismatch")

# ---------------------------------------------------------------- R11.8 (F-C11c known): a second early emission must still be reported
M("C11-c-maker-emits-next-index-early", "C11", "src/interrogate/interfaceMakerC.cxx",
  "void InterfaceMakerC::\nwrite_prototypes(ostream &out,ostream *out_h) {\n",
  "void InterfaceMakerC::\nwrite_prototypes(ostream &out,ostream *out_h) {\n  out << \"/* next index \" << InterrogateDatabase::get_ptr()->get_next_index() << \" */\\n\";\n",
  expect="R11.8|write_code|InterfaceMakerC::write_prototypes")

# ---------------------------------------------------------------- R16.4 (F-C16b)
M("C16-cycle-search-without-finished-set", "C16", "src/interrogate/interrogate_module.cxx",
  "    if (finished.count(*it) != 0) {\n      // We have already been everywhere that can be reached from there, and\n      // found no cycle.\n      continue;\n    }\n",
  "",
  expect="R16.4|find_dependency_cycle|recursion-skips-finished-nodes")
M("C16-cycle-search-never-marks-finished", "C16", "src/interrogate/interrogate_module.cxx",
  "  finished.insert(cycle.back());\n  return false;",
  "  return false;",
  expect="R16.4|find_dependency_cycle|no-cycle-return-marks-node-finished")
M("C16-benign-cycle-search-find-form", "C16", "src/interrogate/interrogate_module.cxx",
  "    if (finished.count(*it) != 0) {",
  "    if (finished.find(*it) != finished.end()) {",
  benign=True)

# ---------------------------------------------------------------- R17.7 (F-C17b)
M("C17-directory-satisfies-cwd-probe", "C17", "src/cppparser/cppPreprocessor.cxx",
  "  if (!angle_quotes && filename.is_regular_file()) {", "  if (!angle_quotes && filename.exists()) {",
  expect="R17.7|find_include|probe#0")
M("C17-benign-probe-exists-not-directory", "C17", "src/cppparser/cppPreprocessor.cxx",
  "  if (!angle_quotes && filename.is_regular_file()) {", "  if (!angle_quotes && !filename.is_directory() && filename.exists()) {",
  benign=True)

# ---------------------------------------------------------------- R14.5c after the repair of F-C14b
M("C14-slot-remap-chosen-by-address", "C14", "src/interrogate/interfaceMakerPythonNative.cxx",
  "          // Find the remap.  There should be only one.\n          FunctionRemap *remap = ordered_remaps(def._remaps).front();\n          const char *container = \"\";",
  "          // Find the remap.  There should be only one.\n          FunctionRemap *remap = *def._remaps.begin();\n          const char *container = \"\";",
  expect="R14.5c|InterfaceMakerPythonNative::write_module_class|def._remaps|begin()")
M("C14-ordered-remaps-not-sorted", "C14", "src/interrogate/interfaceMakerPythonNative.cxx",
  "  std::sort(result.begin(), result.end(),\n            [](FunctionRemap *a, FunctionRemap *b) {\n    if (a->_wrapper_index != b->_wrapper_index) {\n      return a->_wrapper_index < b->_wrapper_index;\n    }\n    std::ostringstream proto_a, proto_b;\n    a->write_orig_prototype(proto_a, 0);\n    b->write_orig_prototype(proto_b, 0);\n    return proto_a.str() < proto_b.str();\n  });\n",
  "",
  expect="R14.5c|")
M("C14-ordered-remaps-tie-by-address", "C14", "src/interrogate/interfaceMakerPythonNative.cxx",
  "    std::ostringstream proto_a, proto_b;\n    a->write_orig_prototype(proto_a, 0);\n    b->write_orig_prototype(proto_b, 0);\n    return proto_a.str() < proto_b.str();\n  });\n  return result;",
  "    return a < b;\n  });\n  return result;",
  expect="R14.5")

# ---------------------------------------------------------------- R07.14 (seed S6-C07)
M("C07-oror-uses-unevaluated-second-operand", "C07", "src/cppparser/cppExpression.cxx",
  "      if (r1.as_boolean()) {\n        return Result(true);\n      } else if (r2._type == RT_error) {\n        return r2;\n      } else {",
  "      if (r1.as_boolean()) {\n        return Result(true);\n      } else {",
  expect="R07.14|evaluate|OROR")
M("C07-benign-andand-error-test-first", "C07", "src/cppparser/cppExpression.cxx",
  "      if (!r1.as_boolean()) {\n        return Result(false);\n      } else if (r2._type == RT_error) {\n        return r2;\n      } else {\n        return Result(r2.as_boolean());\n      }",
  "      if (!r1.as_boolean()) {\n        return Result(false);\n      }\n      if (r2._type != RT_error) {\n        return Result(r2.as_boolean());\n      }\n      return r2;",
  benign=True)

# ---------------------------------------------------------------- R12.8 (seed S6-C14)
M("C12-cstring-read-unterminated", "C12", "src/interrogatedb/interrogate_datafile.cxx",
  "  int p = 0;\n  while (p < length) {\n    readstr[p] = in.get();\n    p++;\n  }\n  readstr[p] = '\\0';\n",
  "  in.read(readstr, length);\n",
  expect="R12.8|idf_input_string(constchar*&)|buffer-terminated-before-handed-out")
M("C12-benign-cstring-block-read-terminated", "C12", "src/interrogatedb/interrogate_datafile.cxx",
  "  int p = 0;\n  while (p < length) {\n    readstr[p] = in.get();\n    p++;\n  }\n  readstr[p] = '\\0';\n",
  "  in.read(readstr, length);\n  readstr[length] = '\\0';\n",
  benign=True)

# ---------------------------------------------------------------- R12.9 (seed S6-C12)
M("C12-type-record-reused-across-list", "C12", "src/interrogatedb/interrogateDatabase.cxx",
  "    while (num_types > 0) {\n      TypeIndex index;\n      InterrogateType type(def);\n",
  "    InterrogateType type(def);\n    while (num_types > 0) {\n      TypeIndex index;\n",
  expect="R12.9|InterrogateDatabase::read_new|type|fresh-per-record")
M("C12-benign-index-declared-outside", "C12", "src/interrogatedb/interrogateDatabase.cxx",
  "    while (num_types > 0) {\n      TypeIndex index;\n      InterrogateType type(def);\n",
  "    TypeIndex index;\n    while (num_types > 0) {\n      InterrogateType type(def);\n",
  benign=True)

# ---------------------------------------------------------------- R13.6 (seed S6-C13)
M("C13-merge-looks-up-scoped-name", "C13", "src/interrogatedb/interrogateDatabase.cxx",
  "      ni = types_by_name.find(other_type.get_true_name());", "      ni = types_by_name.find(other_type.get_scoped_name());",
  expect="R13.6|merge_from|types_by_name.find")
M("C13-merge-table-keyed-by-plain-name", "C13", "src/interrogatedb/interrogateDatabase.cxx",
  "      types_by_name[type.get_true_name()] = (*ti).first;", "      types_by_name[type.get_name()] = (*ti).first;",
  expect="R13.6|merge_from|types_by_name.operator[]")
M("C13-benign-merge-key-local", "C13", "src/interrogatedb/interrogateDatabase.cxx",
  "      ni = types_by_name.find(other_type.get_true_name());", "      ni = types_by_name.find(std::string(other_type.get_true_name()));",
  benign=True)

# ---------------------------------------------------------------- R11.9 (seed S6-C11)
M("C11-downcast-base-by-stale-counter", "C11", "src/interrogate/interfaceMaker.cxx",
  "      TypeIndex base_type_index = itype.get_derivation(di);\n      const InterrogateType &base_type = idb->get_type(base_type_index);\n      record_function(base_type, itype.derivation_get_downcast(di));",
  "      TypeIndex base_type_index = itype.get_derivation(mi);\n      const InterrogateType &base_type = idb->get_type(base_type_index);\n      record_function(base_type, itype.derivation_get_downcast(di));",
  expect="R11.9|InterfaceMaker::record_object|itype.get_derivation(mi)")
M("C11-benign-cast-loop-own-counter", "C11", "src/interrogate/interfaceMaker.cxx",
  "  for (mi = 0; mi < num_casts; mi++) {\n    function = record_function(itype, itype.get_cast(mi));",
  "  for (int ki = 0; ki < num_casts; ki++) {\n    function = record_function(itype, itype.get_cast(ki));",
  benign=True)

# ---------------------------------------------------------------- R10.8 (seed S6-C10)
M("C10-inherited-virtual-destructor-dropped", "C10", "src/cppparser/cppStructType.cxx",
  "      CPPInstance *destructor = get_destructor();\n      if (destructor != nullptr) {\n        // It's a match!  This destructor is virtual.\n        funcs.erase(vfi);\n",
  "      funcs.erase(vfi);\n      CPPInstance *destructor = get_destructor();\n      if (destructor != nullptr) {\n        // It's a match!  This destructor is virtual.\n",
  expect="R10.8|get_virtual_funcs|erase#")
M("C10-benign-mark-before-erase", "C10", "src/cppparser/cppStructType.cxx",
  "        funcs.erase(vfi);\n        destructor->_storage_class |=\n          (CPPInstance::SC_virtual | CPPInstance::SC_inherited_virtual);",
  "        destructor->_storage_class |=\n          (CPPInstance::SC_virtual | CPPInstance::SC_inherited_virtual);\n        funcs.erase(vfi);",
  benign=True)

# ---------------------------------------------------------------- R06.12 (seed S6-C06)
M("C06-find-scope-typedefs-then-one-const", "C06", "src/cppparser/cppScope.cxx",
  "  while (type->get_subtype() == CPPDeclaration::ST_const ||\n         type->get_subtype() == CPPDeclaration::ST_typedef) {\n    if (type->as_typedef_type() != nullptr) {\n      type = type->as_typedef_type()->_type;\n    } else {\n      type = type->as_const_type()->_wrapped_around;\n    }\n  }",
  "  while (type->get_subtype() == CPPDeclaration::ST_typedef) {\n    type = type->as_typedef_type()->_type;\n  }\n  if (type->get_subtype() == CPPDeclaration::ST_const) {\n    type = type->as_const_type()->_wrapped_around;\n  }",
  expect="R06.12|CPPScope::find_scope(4)")
M("C06-benign-find-scope-const-first", "C06", "src/cppparser/cppScope.cxx",
  "  while (type->get_subtype() == CPPDeclaration::ST_const ||\n         type->get_subtype() == CPPDeclaration::ST_typedef) {\n    if (type->as_typedef_type() != nullptr) {\n      type = type->as_typedef_type()->_type;\n    } else {\n      type = type->as_const_type()->_wrapped_around;\n    }\n  }",
  "  while (type->get_subtype() == CPPDeclaration::ST_typedef ||\n         type->get_subtype() == CPPDeclaration::ST_const) {\n    if (type->as_const_type() != nullptr) {\n      type = type->as_const_type()->_wrapped_around;\n    } else {\n      type = type->as_typedef_type()->_type;\n    }\n  }",
  benign=True)

# ---------------------------------------------------------------- R09.8 (seed S6-C09)
M("C09-has-include-name-always-expanded", "C09", "src/cppparser/cppPreprocessor.cxx",
  "  if (needs_expansion) {\n    expand_manifests(inc, false);\n  }",
  "  expand_manifests(inc, false);",
  expect="R09.8|expand_has_include_function|expand_manifests#0|guarded")
M("C09-include-name-always-expanded", "C09", "src/cppparser/cppPreprocessor.cxx",
  "  if (!expr.empty() && (expr[0] != '\"' && expr[0] != '<')) {\n    expand_manifests(expr, false);\n  }",
  "  if (!expr.empty()) {\n    expand_manifests(expr, false);\n  }",
  expect="R09.8|handle_include_directive|expand_manifests#0|guarded")
M("C09-benign-has-include-first-char-guard", "C09", "src/cppparser/cppPreprocessor.cxx",
  "  if (needs_expansion) {\n    expand_manifests(inc, false);\n  }",
  "  if (needs_expansion && !inc.empty() && inc[0] != '<' && inc[0] != '\"') {\n    expand_manifests(inc, false);\n  }",
  benign=True)

# ---------------------------------------------------------------- R19.b ostreambuf_iterator (seed S6-C19)
MUTANTS.append({"id": "C19-indent-through-streambuf-iterator", "prop": "C19", "expect": "R19.b|indent|ostreambuf_iterator", "benign": False,
  "edits": [("src/dtoolbase/indent.cxx", "#include \"indent.h\"\n", "#include \"indent.h\"\n#include <algorithm>\n#include <iterator>\n"),
            ("src/dtoolbase/indent.cxx", "  for (int i = 0; i < indent_level; i++) {\n    out << ' ';\n  }\n", "  std::fill_n(std::ostreambuf_iterator<char>(out), indent_level, ' ');\n")]})
MUTANTS.append({"id": "C19-benign-indent-through-ostream-iterator", "prop": "C19", "expect": None, "benign": True,
  "edits": [("src/dtoolbase/indent.cxx", "#include \"indent.h\"\n", "#include \"indent.h\"\n#include <algorithm>\n#include <iterator>\n"),
            ("src/dtoolbase/indent.cxx", "  for (int i = 0; i < indent_level; i++) {\n    out << ' ';\n  }\n", "  std::fill_n(std::ostream_iterator<char>(out), indent_level, ' ');\n")]})

# ---------------------------------------------------------------- R18.7 (seed S6-C18)
M("C18-cached-power-product-truncated", "C18", "src/dtoolbase/pdtoa.cxx",
  "    uint64_t h = p >> 64;\n    uint64_t l = static_cast<uint64_t>(p);\n    if (l & (uint64_t(1) << 63)) // rounding\n      h++;\n    return DiyFp(h, e + rhs.e + 64);\n#else",
  "    return DiyFp(static_cast<uint64_t>(p >> 64), e + rhs.e + 64);\n#else",
  expect="R18.7|DiyFp::operator*|rounded-upper-half")
M("C18-benign-product-rounding-by-addition", "C18", "src/dtoolbase/pdtoa.cxx",
  "    uint64_t h = p >> 64;\n    uint64_t l = static_cast<uint64_t>(p);\n    if (l & (uint64_t(1) << 63)) // rounding\n      h++;\n    return DiyFp(h, e + rhs.e + 64);\n#else",
  "    uint64_t h = p >> 64;\n    uint64_t l = static_cast<uint64_t>(p);\n    h += l >> 63;\n    return DiyFp(h, e + rhs.e + 64);\n#else",
  benign=True)
M("C18-benign-product-portable-branch", "C18", "src/dtoolbase/pdtoa.cxx",
  "#elif (__GNUC__ > 4 || (__GNUC__ == 4 && __GNUC_MINOR__ >= 6)) && defined(__x86_64__)\n    unsigned __int128 p",
  "#elif 0\n    unsigned __int128 p",
  benign=True)

# ---------------------------------------------------------------- R02.9 (seed S6-C02)
M("C02-keyword-test-inverted-equal-api", "C02", "src/interrogatedb/py_support.cxx",
  "      return PyUnicode_CheckExact(key) && _PyUnicode_EqualToASCIIString(key, keyword);",
  "      return PyUnicode_CheckExact(key) && _PyUnicode_EqualToASCIIString(key, keyword) == 0;",
  expect="R02.9|Dtool_ExtractOptionalArg(4)|_PyUnicode_EqualToASCIIString")
M("C02-keyword-test-compare-api-bare", "C02", "src/interrogatedb/py_support.cxx",
  "#if PY_MAJOR_VERSION >= 3\n      return PyUnicode_CheckExact(key) && PyUnicode_CompareWithASCIIString(key, keyword) == 0;\n#else\n      return PyString_CheckExact(key) && strcmp(PyString_AS_STRING(key), keyword) == 0;\n#endif\n    }\n  }\n\n  return false;",
  "#if PY_MAJOR_VERSION >= 3\n      return PyUnicode_CheckExact(key) && PyUnicode_CompareWithASCIIString(key, keyword);\n#else\n      return PyString_CheckExact(key) && strcmp(PyString_AS_STRING(key), keyword) == 0;\n#endif\n    }\n  }\n\n  return false;",
  expect="R02.9|Dtool_ExtractArg(4)|PyUnicode_CompareWithASCIIString")
M("C02-benign-keyword-test-not-not", "C02", "src/interrogatedb/py_support.cxx",
  "      return PyUnicode_CheckExact(key) && _PyUnicode_EqualToASCIIString(key, keyword);",
  "      return PyUnicode_CheckExact(key) && _PyUnicode_EqualToASCIIString(key, keyword) != 0;",
  benign=True)

# ---------------------------------------------------------------- R09.9 (F-C08b)
M("C09-directive-args-scan-literals-for-comments", "C09", "src/cppparser/cppPreprocessor.cxx",
  "    } else if (c == '\"' ||\n               (c == '\\'' && (args.empty() || !isalnum(args[args.size() - 1])))) {",
  "    } else if (false) {",
  expect="R09.9|get_preprocessor_args|literal-branch")
M("C09-directive-literal-ignores-escapes", "C09", "src/cppparser/cppPreprocessor.cxx",
  "      while (c != EOF && c != '\\n' && c != quote_mark) {\n        if (c == '\\\\') {\n          int next_c = get();\n          if (next_c == '\\n') {\n            args += '\\n';\n            c = get();\n            continue;\n          }\n          args += c;\n          if (next_c == EOF) {\n            c = next_c;\n            break;\n          }\n          c = next_c;\n        }\n        args += c;\n        c = get();\n      }",
  "      while (c != EOF && c != '\\n' && c != quote_mark) {\n        args += c;\n        c = get();\n      }",
  expect="R09.9|get_preprocessor_args|literal-branch|escapes")

# ---------------------------------------------------------------- R10.9 (F-C10h)
M("C10-base-convertibility-inverted", "C10", "src/cppparser/cppStructType.cxx",
  "    if (base != nullptr && (*di)._vis <= V_public && base->is_convertible_to(other)) {",
  "    if (base != nullptr && (*di)._vis <= V_public && !base->is_convertible_to(other)) {",
  expect="R10.9|CPPStructType::is_convertible_to|return-true#")

# ---------------------------------------------------------------- R20.10 (F-C20c)
M("C20-array-size-of-placeholder-is-one", "C20", "src/interrogatedb/interrogateType.I",
  "  return is_array() ? _array_size : 0;", "  return _array_size;",
  expect="R20.10|InterrogateType::get_array_size|neutral-on-placeholder")
M("C20-benign-array-size-default-zero", "C20", "src/interrogatedb/interrogateType.I",
  "  return is_array() ? _array_size : 0;", "  return (_flags & F_array) != 0 ? _array_size : 0;",
  benign=True)

# ---------------------------------------------------------------- R15.21 (F-C15q)
MUTANTS.append({"id": "C15-constructor-lookup-in-namespace-scope", "prop": "C15", "expect": "R15.21|CPPIdentifier::find_symbol", "benign": False,
  "edits": [("src/cppparser/cppIdentifier.cxx",
             "CPPPreprocessor *error_sink) const {\n  CPPScope *scope = get_scope(current_scope, global_scope, error_sink);\n  if (scope == nullptr) {\n    return nullptr;\n  }\n\n  CPPDeclaration *sym;\n  if (!_names.back().has_templ()) {\n    if (_names.size() > 1 && scope->get_struct_type() != nullptr &&\n        scope->get_simple_name() == get_simple_name()) {",
             "CPPPreprocessor *error_sink) const {\n  CPPScope *scope = get_scope(current_scope, global_scope, error_sink);\n  if (scope == nullptr) {\n    return nullptr;\n  }\n\n  CPPDeclaration *sym;\n  if (!_names.back().has_templ()) {\n    if (_names.size() > 1 &&\n        scope->get_simple_name() == get_simple_name()) {")]})

# ---------------------------------------------------------------- R05.10 (F-C05c)
M("C05-explicit-false-drops-specifiers", "C05", "src/cppparser/cppBison.yxx",
  "  $$ = $4;\n  CPPExpression::Result result = $2->evaluate();\n  if (result._type == CPPExpression::RT_error) {\n    yywarning(\"explicit() requires a constant expression\", @2);",
  "  CPPExpression::Result result = $2->evaluate();\n  if (result._type == CPPExpression::RT_error) {\n    yywarning(\"explicit() requires a constant expression\", @2);",
  expect="R05.10|storage_class|KW_EXPLICIT_LPAREN")
M("C05-benign-explicit-else-branch", "C05", "src/cppparser/cppBison.yxx",
  "  $$ = $4;\n  CPPExpression::Result result = $2->evaluate();\n  if (result._type == CPPExpression::RT_error) {\n    yywarning(\"explicit() requires a constant expression\", @2);\n  } else if (result.as_boolean()) {\n    $$ = $4 | (int)CPPInstance::SC_explicit;\n  }",
  "  CPPExpression::Result result = $2->evaluate();\n  if (result._type == CPPExpression::RT_error) {\n    yywarning(\"explicit() requires a constant expression\", @2);\n    $$ = $4;\n  } else if (result.as_boolean()) {\n    $$ = $4 | (int)CPPInstance::SC_explicit;\n  } else {\n    $$ = $4;\n  }",
  benign=True)

# ---------------------------------------------------------------- R04.2 ignoremember for data members (F-C04c)
M("C04-ignoremember-skips-data-members", "C04", "src/interrogate/interrogateBuilder.cxx",
  "      } else if (!in_ignoremember(inst->get_simple_name())) {\n        // Here's a data member declaration (and the user did not ask us to\n        // ignore members of this name).",
  "      } else {\n        // Here's a data member declaration.",
  expect="R04.2|define_struct_type|scan_element")

# ---------------------------------------------------------------- R16.2 emission loops as range-for (seed S7-C16)
_C16_OLD = r"""  vector_string::const_iterator si;
  for (si = imports.begin(); si != imports.end(); ++si) {
    out << "  PyImport_Import(PyUnicode_FromString(\"" << *si << "\"));\n";
  }

  for (ii = libraries.begin(); ii != libraries.end(); ii++) {
    out << "  Dtool_" << *ii << "_RegisterTypes();\n";
  }"""
MUTANTS.append({"id": "C16-registertypes-over-dependency-map", "prop": "C16", "expect": "R16.2|emission-loop#", "benign": False,
  "edits": [("src/interrogate/interrogate_module.cxx", _C16_OLD,
             _C16_OLD.replace("for (ii = libraries.begin(); ii != libraries.end(); ii++) {", "for (auto &lib : dependencies) {").replace('<< *ii << "_RegisterTypes', '<< lib.first << "_RegisterTypes'))]})
MUTANTS.append({"id": "C16-benign-register-types-range-for", "prop": "C16", "expect": None, "benign": True,
  "edits": [("src/interrogate/interrogate_module.cxx", _C16_OLD,
             _C16_OLD.replace("for (ii = libraries.begin(); ii != libraries.end(); ii++) {", "for (auto &lib : libraries) {").replace('<< *ii << "_RegisterTypes', '<< lib << "_RegisterTypes'))]})

# ---------------------------------------------------------------- R10.3 further-parameters clause (seeds S7-C04, S7-C05)
M("C10-copy-ctor-test-reads-first-parameter", "C10", "src/cppparser/cppInstance.cxx",
  "             params->_parameters[1]->_initializer != nullptr)) {", "             params->_parameters[0]->_initializer != nullptr)) {",
  expect="R10.3|check_for_constructor|F_copy_constructor|further-parameters-defaulted")
M("C10-copy-ctor-test-reads-last-parameter", "C10", "src/cppparser/cppInstance.cxx",
  "             params->_parameters[1]->_initializer != nullptr)) {", "             params->_parameters.back()->_initializer != nullptr)) {",
  expect="R10.3|check_for_constructor|F_copy_constructor|further-parameters-defaulted")
M("C10-benign-copy-ctor-test-size-first", "C10", "src/cppparser/cppInstance.cxx",
  "            (params->_parameters.size() == 1 ||\n             params->_parameters[1]->_initializer != nullptr)) {",
  "            (params->_parameters[1 < params->_parameters.size() ? 1 : 0]->_initializer != nullptr ||\n             params->_parameters.size() == 1) &&\n            (params->_parameters.size() == 1 || params->_parameters[1]->_initializer != nullptr)) {",
  benign=True)

# ---------------------------------------------------------------- R06.13 / R06.14 (seeds S7-C07, S7-C06)
M("C06-ternary-third-operand-compared-with-itself", "C06", "src/cppparser/cppExpression.cxx",
  "      *_u._op._op3 == *ot->_u._op._op3;", "      *_u._op._op3 == *_u._op._op3;",
  expect="R06.13|CPPExpression::is_equal|_u._op._op3")
M("C06-binary-op2-guarded-by-address", "C06", "src/cppparser/cppExpression.cxx",
  "  case T_binary_operation:\n    if (*_u._op._op2 != *ot->_u._op._op2) {\n      return *_u._op._op2 < *ot->_u._op._op2;",
  "  case T_binary_operation:\n    if (_u._op._op2 != ot->_u._op._op2) {\n      return *_u._op._op2 < *ot->_u._op._op2;",
  expect="R06.14|CPPExpression::is_less|_u._op._op2")
M("C06-array-bounds-compared-crosswise", "C06", "src/cppparser/cppArrayType.cxx",
  "    if (*_bounds != *ot->_bounds) {\n      return *_bounds < *ot->_bounds;",
  "    if (*_bounds != *ot->_bounds) {\n      return *_bounds < *_bounds;",
  expect="R06.13|CPPArrayType::is_less|_bounds")
M("C06-benign-comparison-operands-swapped", "C06", "src/cppparser/cppExpression.cxx",
  "      *_u._op._op3 == *ot->_u._op._op3;", "      *ot->_u._op._op3 == *_u._op._op3;",
  benign=True)

# ---------------------------------------------------------------- R09.10 (seed S7-C09)
M("C09-comment-scanner-skips-after-star", "C09", "src/cppparser/cppPreprocessor.cxx",
  "      if (c == '*') {\n        c = get();\n        if (c == '/') {\n          return get();\n        }\n      } else {\n        c = get();\n      }",
  "      if (c == '*') {\n        c = get();\n        if (c == '/') {\n          return get();\n        }\n      }\n      c = get();",
  expect="R09.10|skip_c_comment|loop#1")
M("C09-benign-comment-scanner-flag-form", "C09", "src/cppparser/cppPreprocessor.cxx",
  "      if (c == '*') {\n        c = get();\n        if (c == '/') {\n          return get();\n        }\n      } else {\n        c = get();\n      }",
  "      bool star = (c == '*');\n      c = get();\n      if (star && c == '/') {\n        return get();\n      }",
  benign=True)

# ---------------------------------------------------------------- R11.10 (seed S7-C11)
M("C11-update-type-before-zero-test", "C11", "src/interrogate/interrogateBuilder.cxx",
  "      index = (*tni).second;\n      if (index == 0) {\n        // This is an invalid type; we don't know anything about it.\n        return 0;\n      }\n\n      InterrogateType &itype = InterrogateDatabase::get_ptr()->update_type(index);\n      if (global) {\n        itype._flags |= InterrogateType::F_global;\n      }\n\n      if ((itype._flags & InterrogateType::F_fully_defined) != 0) {",
  "      index = (*tni).second;\n      InterrogateType &itype = InterrogateDatabase::get_ptr()->update_type(index);\n      if (global) {\n        itype._flags |= InterrogateType::F_global;\n      }\n\n      if (index == 0 || (itype._flags & InterrogateType::F_fully_defined) != 0) {",
  expect="R11.10|InterrogateBuilder::get_type|update_type(index)|not-zero")
M("C11-benign-zero-test-not-form", "C11", "src/interrogate/interrogateBuilder.cxx",
  "      index = (*tni).second;\n      if (index == 0) {\n        // This is an invalid type; we don't know anything about it.\n        return 0;\n      }\n",
  "      index = (*tni).second;\n      if (!(index != 0)) {\n        // This is an invalid type; we don't know anything about it.\n        return 0;\n      }\n",
  benign=True)

# ---------------------------------------------------------------- R12.10 (seed S7-C12)
M("C12-element-flags-regrouped", "C12", "src/interrogatedb/interrogateElement.h",
  "    F_sequence        = 0x0040,\n    F_mapping         = 0x0080,\n    F_has_insert_function= 0x0100,\n    F_has_getkey_function= 0x0200,",
  "    F_has_insert_function= 0x0040,\n    F_has_getkey_function= 0x0080,\n    F_sequence        = 0x0100,\n    F_mapping         = 0x0200,",
  expect="R12.10|InterrogateElement::Flags::F_sequence|value")
M("C12-benign-new-element-flag", "C12", "src/interrogatedb/interrogateElement.h",
  "    F_has_getkey_function= 0x0200,", "    F_has_getkey_function= 0x0200,\n    F_reserved_for_later = 0x0400,",
  benign=True)

# ---------------------------------------------------------------- R14.8 (seed S7-C14)
M("C14-open-write-default-keeps-old-contents", "C14", "src/dtoolutil/filename.h",
  "  bool open_write(std::ofstream &stream, bool truncate = true) const;", "  bool open_write(std::ofstream &stream, bool truncate = false) const;",
  expect="R14.8|")
M("C14-benign-open-write-explicit-true", "C14", "src/interrogate/interrogate.cxx",
  "    output_data_filename.open_write(output_data);", "    output_data_filename.open_write(output_data, true);",
  benign=True)

# ---------------------------------------------------------------- R15.7 inherits-outer-ignore-set (seed S7-C15)
M("C15-nested-ignores-forget-outer-macros", "C15", "src/cppparser/cppPreprocessor.cxx",
  "          CPPManifest::Ignores nested_ignores(ignores);", "          CPPManifest::Ignores nested_ignores;",
  expect="R15.7|expand_manifests|")
M("C15-benign-nested-ignores-assigned", "C15", "src/cppparser/cppPreprocessor.cxx",
  "          CPPManifest::Ignores nested_ignores(ignores);", "          CPPManifest::Ignores nested_ignores = ignores;",
  benign=True)

# ---------------------------------------------------------------- R17.8 (seed S7-C17)
M("C17-dotdot-cancels-dotdot", "C17", "src/dtoolutil/filename.cxx",
  "    } else if (component == \"..\" && !components.empty() &&\n               !(components.back() == \"..\")) {",
  "    } else if (component == \"..\" && !components.empty()) {",
  expect="R17.8|standardize|pop_back#")
M("C17-benign-dotdot-test-not-equal", "C17", "src/dtoolutil/filename.cxx",
  "    } else if (component == \"..\" && !components.empty() &&\n               !(components.back() == \"..\")) {",
  "    } else if (component == \"..\" && !components.empty() &&\n               components.back() != \"..\") {",
  benign=True)

# ---------------------------------------------------------------- R02.10 (seed S7-C02)
M("C02-blind-extractor-without-const-ok", "C02", "src/interrogate/interfaceMakerPythonNative.cxx",
  "        if (const_ok && !report_errors) {\n          // This function does the same thing in this case and is slightly",
  "        if (!report_errors) {\n          // This function does the same thing in this case and is slightly",
  expect="R02.10|write_function_instance|DtoolInstance_GetPointer#0")
M("C02-benign-blind-extractor-condition-order", "C02", "src/interrogate/interfaceMakerPythonNative.cxx",
  "        if (const_ok && !report_errors) {\n          // This function does the same thing in this case and is slightly",
  "        if (!report_errors && const_ok) {\n          // This function does the same thing in this case and is slightly",
  benign=True)

# ---------------------------------------------------------------- R18.8 (seed S7-C18)
M("C18-exponent-loses-tens-digit", "C18", "src/dtoolbase/pdtoa.cxx",
  "    K %= 100;\n    const char* d = cDigitsLut + K * 2;\n    *buffer++ = d[0];\n    *buffer++ = d[1];\n  }\n  else if (K >= 10) {",
  "    K %= 100;\n  }\n  if (K >= 10) {",
  expect="R18.8|WriteExponent|decimal-text")
M("C18-benign-exponent-digits-by-division", "C18", "src/dtoolbase/pdtoa.cxx",
  "    K %= 100;\n    const char* d = cDigitsLut + K * 2;\n    *buffer++ = d[0];\n    *buffer++ = d[1];\n  }\n  else if (K >= 10) {",
  "    K %= 100;\n    *buffer++ = '0' + static_cast<char>(K / 10);\n    *buffer++ = '0' + static_cast<char>(K % 10);\n  }\n  else if (K >= 10) {",
  benign=True)

# ---------------------------------------------------------------- R15.22 (F-C15r)
M("C15-typedef-array-not-peeled", "C15", "src/interrogate/interfaceMakerPythonNative.cxx",
  "        // The array or pointer may be named through a typedef\n        // (is_pointer_to_simple() looks through those, too).\n        while (unwrap->get_subtype() == CPPDeclaration::ST_typedef) {\n          unwrap = unwrap->as_typedef_type()->_type;\n        }\n",
  "",
  expect="R15.22|write_function_instance|unwrap.as_array_type()")

# ---------------------------------------------------------------- R15.1 premise of the hash_function_signature exemption (F-C15s)
M("C15-duplicate-signature-reaches-abort", "C15", "src/interrogate/interfaceMaker.cxx",
  "      if (hi != _wrappers_by_hash.end() && (*hi).second != nullptr &&\n          (*hi).second->_function_signature == remap->_function_signature) {\n        delete remap;\n        return nullptr;\n      }\n",
  "",
  expect="R15.1|InterfaceMaker::make_function_remap|hash_function_signature|same-signature-excluded-before-call")

# ---------------------------------------------------------------- R15.23 (F-C15t)
MUTANTS.append({"id": "C15-decltype-error-leaves-null-type", "prop": "C15", "expect": "R15.23|", "benign": False,
  "edits": [("src/cppparser/cppBison.yxx",
             "    // Carry on with a placeholder; a null type cannot be declared with.\n    $$ = CPPType::new_type(new CPPSimpleType(CPPSimpleType::T_unknown));\n",
             "", 3)]})

# ---- R15.14 after the F-C15k repair (ClassInProgress guard in cppStructType.cxx)
F_ST = "src/cppparser/cppStructType.cxx"
_G_TRIVIAL = """is_trivial() const {
  static ClassInProgress::Set in_progress;
  ClassInProgress guard(in_progress, this);
  if (guard.is_recursive()) {
    // This class contains or derives from itself; that is ill-formed.
    return false;
  }
"""
M("C15-class-guard-dropped-from-is_trivial", "C15", F_ST, _G_TRIVIAL, "is_trivial() const {\n",
  expect="R15.14|CPPStructType::is_trivial|recursion-guard")
M("C15-class-guard-set-not-static", "C15", F_ST, _G_TRIVIAL,
  _G_TRIVIAL.replace("static ClassInProgress::Set in_progress;", "ClassInProgress::Set in_progress;"),
  expect="R15.14|CPPStructType::is_trivial|recursion-guard")
M("C15-class-guard-answer-ignored", "C15", F_ST, _G_TRIVIAL,
  _G_TRIVIAL.replace("  if (guard.is_recursive()) {\n    // This class contains or derives from itself; that is ill-formed.\n    return false;\n  }\n", "  (void)guard.is_recursive();\n"),
  expect="R15.14|CPPStructType::is_trivial|recursion-guard")
M("C15-class-guard-never-leaves", "C15", F_ST,
  "    if (_is_first) {\n      _in_progress.erase(_type);\n    }\n", "",
  expect="R15.14|ClassInProgress|destructor-unregisters")
M("C15-class-guard-polarity", "C15", F_ST,
  "    return !_is_first;\n", "    return _is_first;\n",
  expect="R15.14|ClassInProgress::is_recursive|answers-not-new")
M("C15-class-guard-does-not-insert", "C15", F_ST,
  "_is_first(in_progress.insert(type).second) {", "_is_first(in_progress.count(type) == 0) {",
  expect="R15.14|ClassInProgress|constructor-registers")
M("C15-benign-class-guard-comment-and-order", "C15", F_ST, _G_TRIVIAL,
  "is_trivial() const {\n  static ClassInProgress::Set judged;\n  ClassInProgress guard(judged, this);\n  if (guard.is_recursive()) {\n    // ill-formed\n    return false;\n  }\n",
  benign=True)

# ---- R15.24 (F-C15u: a base clause leading back to the class being defined)
F_Y = "src/cppparser/cppBison.yxx"
_CYC1 = """  std::set<CPPType *> visited;
  if (derives_from_current_struct(type, visited)) {
    yyerror("base class " + $1->get_fully_scoped_name() + " is or derives from the class being defined", @1);
    type = nullptr;
  }
  $$ = type;
"""
M("C15-base-cycle-test-reverted", "C15", F_Y, _CYC1, "  $$ = type;\n",
  expect="R15.24|class_derivation_name:name|cycle-refused")
M("C15-base-cycle-reported-but-kept", "C15", F_Y, _CYC1, _CYC1.replace("    type = nullptr;\n", ""),
  expect="R15.24|class_derivation_name:name|cycle-refused")
M("C15-base-cycle-typename-form-unchecked", "C15", F_Y,
  """  CPPType *type = CPPType::new_type(new CPPTBDType($2));
  std::set<CPPType *> visited;
  if (derives_from_current_struct(type, visited)) {
    yyerror("base class " + $2->get_fully_scoped_name() + " is or derives from the class being defined", @2);
    type = nullptr;
  }
  $$ = type;
""", "  $$ = CPPType::new_type(new CPPTBDType($2));\n",
  expect="R15.24|class_derivation_name:\"typename\"_name|cycle-refused")
M("C15-base-cycle-names-not-resolved", "C15", F_Y,
  "    CPPType *resolved = type->resolve_type(current_scope, global_scope);\n    if (resolved != type) {\n      type = resolved;\n      continue;\n    }\n", "",
  expect="R15.24|derives_from_current_struct|looks-names-up-again")
M("C15-base-cycle-direct-bases-only", "C15", F_Y,
  "        if (derives_from_current_struct(base._base, visited)) {\n          return true;\n        }\n",
  "        if (base._base == current_struct) {\n          return true;\n        }\n",
  expect="R15.24|derives_from_current_struct|recurses-over-bases")
M("C15-base-cycle-no-visited-set", "C15", F_Y,
  "  while (type != nullptr && visited.insert(type).second) {", "  while (type != nullptr) {",
  expect="R15.24|derives_from_current_struct|visited-set")
M("C15-base-cycle-typedef-not-peeled", "C15", F_Y,
  "    CPPTypedefType *td = type->as_typedef_type();\n    if (td != nullptr) {\n      type = td->_type;\n      continue;\n    }\n    CPPType *resolved", "    CPPType *resolved",
  expect="R15.24|derives_from_current_struct|peels-typedefs")
M("C15-benign-base-cycle-message-and-names", "C15", F_Y, _CYC1,
  """  std::set<CPPType *> seen;
  bool cyclic = derives_from_current_struct(type, seen);
  if (cyclic) {
    type = nullptr;
    yyerror("circular base class " + $1->get_fully_scoped_name(), @1);
  }
  $$ = type;
""", benign=True)

# ---- R11.11 (S8-C11: renumbering applied to copies)
F_DBX = "src/interrogatedb/interrogateDatabase.cxx"
M("C11-make-seqs-renumbered-on-copies", "C11", F_DBX,
  "  for (si = _make_seq_map.begin(); si != _make_seq_map.end(); ++si) {\n    (*si).second.remap_indices(remap);\n  }\n",
  "  for (auto entry : _make_seq_map) {\n    entry.second.remap_indices(remap);\n  }\n",
  expect="R11.11|InterrogateDatabase::remap_indices|for(entry)|no-update-of-a-copy")
M("C11-benign-make-seqs-range-for-by-reference", "C11", F_DBX,
  "  for (si = _make_seq_map.begin(); si != _make_seq_map.end(); ++si) {\n    (*si).second.remap_indices(remap);\n  }\n",
  "  for (auto &entry : _make_seq_map) {\n    entry.second.remap_indices(remap);\n  }\n",
  benign=True)

# ---- R17.9 (S8-C17: -S directory appended before it was made absolute)
F_IG = "src/interrogate/interrogate.cxx"
M("C17-angle-path-gets-relative-directory", "C17", F_IG,
  "      fn.make_absolute();\n      parser._angle_include_path.append_directory(fn);\n",
  "      parser._angle_include_path.append_directory(fn);\n      fn.make_absolute();\n",
  expect="R17.9|main|parser._angle_include_path.append_directory(fn)|absolute-before-chdir")
M("C17-I-directory-not-made-absolute", "C17", F_IG,
  "      fn.make_absolute();\n      parser._quote_include_path.append_directory(fn);\n      parser._quote_include_kind.push_back(CPPFile::S_alternate);\n",
  "      parser._quote_include_path.append_directory(fn);\n      parser._quote_include_kind.push_back(CPPFile::S_alternate);\n",
  expect="R17.9|main|parser._quote_include_path.append_directory(fn)|absolute-before-chdir")
M("C17-benign-S-quote-path-first", "C17", F_IG,
  "      parser._angle_include_path.append_directory(fn);\n      parser._quote_include_path.append_directory(fn);\n      parser._quote_include_kind.push_back(CPPFile::S_system);\n",
  "      parser._quote_include_path.append_directory(fn);\n      parser._quote_include_kind.push_back(CPPFile::S_system);\n      parser._angle_include_path.append_directory(fn);\n",
  benign=True)

# ---- R09.11 (S8-C09: __has_include(<f>) looked up like "f")
F_PP = "src/cppparser/cppPreprocessor.cxx"
_HI = """    if (!_noangles) {
      // If _noangles is true, we don't make a distinction between angle
      // brackets and quote marks--all #inc statements are treated the
      // same, as if they used quote marks.
      angle_quotes = true;
    }
"""
M("C09-has-include-noangles-polarity", "C09", F_PP, _HI, _HI.replace("if (!_noangles)", "if (_noangles)"),
  expect="R09.11|CPPPreprocessor::expand_has_include_function|find_include|angle-argument")
M("C09-has-include-ignores-noangles", "C09", F_PP, _HI, "    angle_quotes = true;\n",
  expect="R09.11|CPPPreprocessor::expand_has_include_function|find_include|angle-argument")
M("C09-has-include-quote-form-taken-as-angle", "C09", F_PP,
  "  if (!inc.empty() && inc[0] == '\"' && inc[inc.size() - 1] == '\"') {\n    filename = inc.substr(1, inc.size() - 2);\n  }\n",
  "  if (!inc.empty() && inc[0] == '\"' && inc[inc.size() - 1] == '\"') {\n    filename = inc.substr(1, inc.size() - 2);\n    angle_quotes = !_noangles;\n  }\n",
  expect="R09.11|CPPPreprocessor::expand_has_include_function|find_include|angle-argument")
M("C09-benign-has-include-flag-computed-positively", "C09", F_PP, _HI,
  "    if (_noangles) {\n      angle_quotes = false;\n    } else {\n      angle_quotes = true;\n    }\n", benign=True)

# ---- R10.10 (S8-C10: defaulted virtual members no longer collected)
_VF = "      if ((inst->_storage_class & CPPInstance::SC_virtual) != 0 &&\n          (inst->_storage_class & CPPInstance::SC_deleted) == 0) {\n"
M("C10-defaulted-virtuals-not-collected", "C10", F_ST, _VF, _VF.replace("SC_deleted", "SC_defaulted"),
  expect="R10.10|get_virtual_funcs|push_back(inst)|exactly-the-declared-virtuals")
M("C10-only-pure-virtuals-collected", "C10", F_ST, _VF, _VF.replace("SC_virtual", "SC_pure_virtual"),
  expect="R10.10|get_virtual_funcs|push_back(inst)|exactly-the-declared-virtuals")
M("C10-benign-virtual-test-spelled-differently", "C10", F_ST, _VF,
  "      if (!(inst->_storage_class & CPPInstance::SC_deleted) &&\n          (inst->_storage_class & CPPInstance::SC_virtual)) {\n", benign=True)

# ---- R05.11 (S8-C05: overrides folded into a virtual base)
F_IB = "src/interrogate/interrogateBuilder.cxx"
_FOLD = """      struct_type->_derivation.size() == 1 &&
      struct_type->_derivation[0]._vis <= V_public &&
      !struct_type->_derivation[0]._is_virtual) {
"""
M("C05-overrides-folded-into-virtual-base", "C05", F_IB, _FOLD,
  "      struct_type->_derivation.size() == 1 &&\n      struct_type->_derivation[0]._vis <= V_public) {\n",
  expect="R05.11|define_method|")
M("C05-overrides-folded-into-private-base", "C05", F_IB, _FOLD,
  "      struct_type->_derivation.size() == 1 &&\n      !struct_type->_derivation[0]._is_virtual) {\n",
  expect="R05.11|define_method|")
M("C05-overrides-folded-under-multiple-inheritance", "C05", F_IB, _FOLD,
  "      !struct_type->_derivation.empty() &&\n      struct_type->_derivation[0]._vis <= V_public &&\n      !struct_type->_derivation[0]._is_virtual) {\n",
  expect="R05.11|define_method|")
M("C05-benign-fold-condition-reordered", "C05", F_IB, _FOLD,
  "      struct_type->_derivation.size() == 1 &&\n      !struct_type->_derivation[0]._is_virtual &&\n      struct_type->_derivation[0]._vis <= V_public) {\n",
  benign=True)

# ---- R04.1 not-a-member gate (S8-C04: out-of-line member definition exported as a global function)
M("C04-uncommented-member-definition-exported-globally", "C04", F_IB,
  "    if (scope->get_struct_type() != nullptr) {\n      // Wait, this is a method, not a function.",
  "    if (scope->get_struct_type() != nullptr &&\n        function->_leading_comment != nullptr) {\n      // Wait, this is a method, not a function.",
  expect="R04.1|scan_function|get_function|not-a-member")
M("C04-member-definition-comment-updated-then-exported", "C04", F_IB,
  "      update_function_comment(function, scope);\n      return;\n    }\n  }\n\n  if (function->is_template()) {",
  "      update_function_comment(function, scope);\n    }\n  }\n\n  if (function->is_template()) {",
  expect="R04.1|scan_function|get_function|not-a-member")
M("C04-benign-member-test-spelled-positively", "C04", F_IB,
  "    if (scope->get_struct_type() != nullptr) {\n      // Wait, this is a method, not a function.",
  "    CPPStructType *owner = scope->get_struct_type();\n    if (!(owner == nullptr)) {\n      // Wait, this is a method, not a function.",
  benign=True)

# ---- R16.5 (S8-C16: stale search path)
F_IM = "src/interrogate/interrogate_module.cxx"
MUTANTS.append({"id": "C16-cycle-path-outlives-the-search", "prop": "C16", "expect": "R16.5|", "benign": False, "edits": [
    (F_IM, "      cerr << \"Circular dependency between libraries detected:\\n\";\n", "      cerr << \"Circular dependency between libraries detected:\\n\";\n      vector_string cycle;\n"),
    (F_IM, "        vector_string cycle;\n        cycle.push_back(library_name);\n", "        cycle.push_back(library_name);\n"),
    (F_IM, "        dependencies[cycle[0]].erase(cycle[1]);\n", "        dependencies[cycle[0]].erase(cycle[1]);\n        cycle.clear();\n"),
]})
MUTANTS.append({"id": "C16-benign-cycle-path-hoisted-and-cleared-first", "prop": "C16", "expect": None, "benign": True, "edits": [
    (F_IM, "      cerr << \"Circular dependency between libraries detected:\\n\";\n", "      cerr << \"Circular dependency between libraries detected:\\n\";\n      vector_string cycle;\n"),
    (F_IM, "        vector_string cycle;\n        cycle.push_back(library_name);\n", "        cycle.clear();\n        cycle.push_back(library_name);\n"),
]})

# ---- R14.9 (S8-C14: inf/nan texts without terminator)
F_PD = "src/dtoolbase/pdtoa.cxx"
M("C14-inf-text-not-terminated", "C14", F_PD,
  "    buffer[0] = 'i';\n    buffer[1] = 'n';\n    buffer[2] = 'f';\n    buffer[3] = '\\0';\n", "    memcpy(buffer, \"inf\", 3);\n",
  expect="R14.9|pdtoa|arm#0|terminated")
M("C14-one-point-zero-terminator-off-by-one", "C14", F_PD,
  "    buffer[0] = '1';\n    buffer[1] = '.';\n    buffer[2] = '0';\n    buffer[3] = '\\0';\n",
  "    buffer[0] = '1';\n    buffer[1] = '.';\n    buffer[2] = '0';\n    buffer[4] = '\\0';\n",
  expect="R14.9|pdtoa|arm#3|terminated")
M("C14-prettify-fraction-arm-not-terminated", "C14", F_PD,
  "    buffer[kk] = '.';\n    buffer[length + 1] = '\\0';\n", "    buffer[kk] = '.';\n",
  expect="R14.9|Prettify|arm#1|terminated")
M("C14-benign-nan-text-by-memcpy-with-terminator", "C14", F_PD,
  "    buffer[0] = 'n';\n    buffer[1] = 'a';\n    buffer[2] = 'n';\n    buffer[3] = '\\0';\n", "    memcpy(buffer, \"nan\", 4);\n",
  benign=True)

# ---- R07.15 (S8-C07: multiplicative operators printed without their parentheses)
F_EX = "src/cppparser/cppExpression.cxx"
_DEF = """    default:
      out << "(";
      _u._op._op1->output(out, indent_level, scope, false);
      out << " " << (char)_u._op._operator << " ";
      _u._op._op2->output(out, indent_level, scope, false);
      out << ")";
    }
"""
M("C07-multiplicative-operators-printed-bare", "C07", F_EX, _DEF, """    default:
      {
        const bool parens = (_u._op._operator != '*' &&
                             _u._op._operator != '/' &&
                             _u._op._operator != '%');
        if (parens) out << "(";
        _u._op._op1->output(out, indent_level, scope, false);
        out << " " << (char)_u._op._operator << " ";
        _u._op._op2->output(out, indent_level, scope, false);
        if (parens) out << ")";
      }
    }
""", expect="R07.15|output|binary_default|parenthesised")
M("C07-shift-printed-bare", "C07", F_EX,
  "      out << \"(\";\n      _u._op._op1->output(out, indent_level, scope, false);\n      out << \" >> \";\n      _u._op._op2->output(out, indent_level, scope, false);\n      out << \")\";\n",
  "      _u._op._op1->output(out, indent_level, scope, false);\n      out << \" >> \";\n      _u._op._op2->output(out, indent_level, scope, false);\n",
  expect="R07.15|output|binary_RSHIFT|parenthesised")
M("C07-benign-default-arm-one-chain", "C07", F_EX, _DEF, """    default:
      out << "( ";
      _u._op._op1->output(out, indent_level, scope, false);
      out << " " << (char)_u._op._operator << " ";
      _u._op._op2->output(out, indent_level, scope, false);
      out << " )";
    }
""", benign=True)

# ---- R06.15 (S8-C06: trailing return type looked up from the wrong scope)
M("C06-trailing-return-scope-under-current-scope", "C06", F_Y,
  "    CPPScope *scope = new CPPScope($1->get_scope(current_scope, global_scope),\n                                   $1->_ident->_names.back(), V_private);\n",
  "    CPPScope *scope = new CPPScope(current_scope, $1->_ident->_names.back(),\n                                   V_private);\n",
  expect="R06.15|yyparse|function-scope#")
M("C06-parameter-scope-under-global-scope", "C06", F_Y,
  "  CPPScope *scope = new CPPScope($1->get_scope(current_scope, global_scope),\n                                 CPPNameComponent(\"\"), V_private);\n",
  "  CPPScope *scope = new CPPScope(global_scope,\n                                 CPPNameComponent(\"\"), V_private);\n",
  expect="R06.15|yyparse|function-scope#")
M("C06-benign-trailing-return-scope-parent-in-a-local", "C06", F_Y,
  "    CPPScope *scope = new CPPScope($1->get_scope(current_scope, global_scope),\n                                   $1->_ident->_names.back(), V_private);\n",
  "    CPPScope *scope = new CPPScope($1->get_scope(current_scope, global_scope),\n                                   $1->_ident->_names.back(),\n                                   V_private);\n",
  benign=True)

# ---- R02.11 (S8-C02: an overload written under `if (!DtoolInstance_IS_CONST(self))` ended the dispatch)
F_PN = "src/interrogate/interfaceMakerPythonNative.cxx"
MUTANTS.append({"id": "C02-guarded-overload-ends-dispatch-first-loop", "prop": "C02", "expect": "R02.11|write_function_forset|caught_all=true", "benign": False, "edits": [
    (F_PN, "                                  check_exceptions, first_pexpr)) {\n        // The rest of the overloads are dead code.\n        if (!remap_verify_const) {\n          caught_all = true;\n          //indent(out, indent_level) << \"  // caught all cases here\\n\";\n        }\n",
           "                                  check_exceptions, first_pexpr)) {\n        // The rest of the overloads are dead code.\n        caught_all = true;\n")]})
MUTANTS.append({"id": "C02-guarded-overload-ends-dispatch-coercion-loop", "prop": "C02", "expect": "R02.11|write_function_forset|caught_all=true", "benign": False, "edits": [
    (F_PN, "          if (!remap_verify_const) {\n            caught_all = true;\n", "          if (remap_verify_const) {\n            caught_all = true;\n")]})
MUTANTS.append({"id": "C02-benign-dead-code-flag-set-by-expression", "prop": "C02", "expect": None, "benign": True, "edits": [
    (F_PN, "        if (!remap_verify_const) {\n          caught_all = true;\n          //indent(out, indent_level) << \"  // caught all cases here\\n\";\n        }\n",
           "        if (remap_verify_const) {\n          // written under a run-time test: the next overload is still live\n        } else {\n          caught_all = true;\n        }\n")]})

# ---- R20.11 (= R13.6 from the lookup side; seed S8-C20)
M("C20-merge-looks-up-plain-name", "C20", "src/interrogatedb/interrogateDatabase.cxx",
  "      ni = types_by_name.find(other_type.get_true_name());", "      ni = types_by_name.find(other_type.get_name());",
  expect="R20.11|merge_from|types_by_name.find")

# ---- R15.25 (F-C15v, F-C15w: nullable lookup results)
F_ID = "src/cppparser/cppIdentifier.cxx"
M("C15-find-type-derefs-missing-symbol", "C15", F_ID,
  "    if (decl != nullptr) {\n      type = decl->as_type();\n    }\n", "    type = decl->as_type();\n",
  expect="R15.25|CPPIdentifier::find_type|")
M("C15-template-scope-passed-unchecked", "C15", F_PP,
  """        } else if (decl->get_template_scope() == nullptr) {
          // The template's parameter list is not known here (a member
          // template of an instantiated class template); its arguments
          // cannot be parsed.
          error(string("cannot instantiate template '") + ident->get_fully_scoped_name() + "' here", loc);
          nested_skip_template_instantiation(nullptr);
        } else {""", "        } else {",
  expect="R15.25|CPPPreprocessor::get_next_token|nested_parse_template_instantiation(#0")
M("C15-output-template-header-without-is-template", "C15", "src/cppparser/cppConcept.cxx",
  "  if (is_template()) {\n    get_template_scope()->_parameters.write_formal(out, scope);\n    indent(out, indent_level);\n  }\n",
  "  get_template_scope()->_parameters.write_formal(out, scope);\n  indent(out, indent_level);\n",
  expect="R15.25|CPPConcept::output|")
M("C15-benign-template-scope-tested-directly", "C15", "src/cppparser/cppConcept.cxx",
  "  if (is_template()) {\n    get_template_scope()->_parameters.write_formal(out, scope);",
  "  if (get_template_scope() != nullptr) {\n    get_template_scope()->_parameters.write_formal(out, scope);", benign=True)

# ---- R15.26 (F-C15x: write_call_args subscripts _parameters with the caller's count)
F_FR = "src/interrogate/functionRemap.cxx"
M("C15-call-args-bounded-by-the-expression-list-only", "C15", F_FR,
  "       pn < num_parameters && pn < _parameters.size(); ++pn) {\n", "       pn < num_parameters; ++pn) {\n    nassertd(pn < _parameters.size()) break;\n",
  expect="R15.26|FunctionRemap::write_call_args|")
M("C15-remap-compare-without-size-test", "C15", F_PN,
  "  if (in1->_parameters.size() != in2->_parameters.size()) {\n    return (in1->_parameters.size() > in2->_parameters.size());\n  }\n", "",
  expect="R15.26|RemapCompareLess|")
M("C15-benign-call-args-bound-by-min", "C15", F_FR,
  "  for (pn = _first_true_parameter;\n       pn < num_parameters && pn < _parameters.size(); ++pn) {\n",
  "  for (pn = _first_true_parameter; pn < num_parameters; ++pn) {\n    if (!(pn < _parameters.size())) {\n      break;\n    }\n",
  benign=True)

# ---- R15.25, base-class clause (F-C15y)
M("C15-standard-layout-derefs-unknown-base", "C15", F_ST,
  """    if (base == nullptr) {
      // We don't know what this base class is (it is only forward-declared,
      // or depends on a template parameter); like the other predicates,
      // assume that it does not stand in the way.
      continue;
    }
""", "", expect="R15.25|CPPStructType::is_standard_layout|")
M("C15-trivial-derefs-unknown-base", "C15", F_ST,
  "    if ((*di)._is_virtual || (base != nullptr && !base->is_trivial())) {", "    if ((*di)._is_virtual || !base->is_trivial()) {",
  expect="R15.25|CPPStructType::is_trivial|")

# ---- R15.27 (F-C15z: self-referential instance substituted without end)
F_IN = "src/cppparser/cppInstance.cxx"
M("C15-instance-registered-after-descent", "C15", F_IN,
  "  subst[this] = rep;\n\n  CPPDeclaration *new_type =", "  CPPDeclaration *new_type =",
  expect="R15.27|CPPInstance::substitute_decl|")
M("C15-instance-registered-after-type-only", "C15", F_IN,
  "  subst[this] = rep;\n\n  CPPDeclaration *new_type =\n    _type->substitute_decl(subst, current_scope, global_scope);\n",
  "  CPPDeclaration *new_type =\n    _type->substitute_decl(subst, current_scope, global_scope);\n  subst[this] = rep;\n",
  expect="R15.27|CPPInstance::substitute_decl|_type->substitute_decl")
M("C15-benign-instance-registered-by-insert", "C15", F_IN,
  "  subst[this] = rep;\n\n  CPPDeclaration *new_type =", "  subst.insert(SubstDecl::value_type(this, rep));\n\n  CPPDeclaration *new_type =",
  benign=True)

# ---- R20.12 (F-C20d)
M("C20-modules-by-hash-guarded-by-the-other-name", "C20", F_DBX,
  "  if (def->num_unique_names > 0 && def->library_hash_name != nullptr) {", "  if (def->num_unique_names > 0 && def->library_name != nullptr) {",
  expect="R20.12|InterrogateDatabase::request_module|")
M("C20-benign-modules-by-hash-guard-reordered", "C20", F_DBX,
  "  if (def->num_unique_names > 0 && def->library_hash_name != nullptr) {", "  if (def->library_hash_name != nullptr && def->num_unique_names > 0) {",
  benign=True)

# ---- R12.11 (F-C12c: count used without testing the stream)
F_CO = "src/interrogatedb/interrogateComponent.cxx"
M("C12-alt-name-count-used-untested", "C12", F_CO,
  "  in >> num_alt_names;\n  if (in.fail()) {\n    return;\n  }\n", "  in >> num_alt_names;\n",
  expect="R12.11|InterrogateComponent::input|num_alt_names|")
M("C12-function-count-used-untested", "C12", F_DBX,
  "    in >> num_functions;\n    if (in.fail()) {\n      return false;\n    }\n", "    in >> num_functions;\n",
  expect="R12.11|InterrogateDatabase::read_new|num_functions|")
M("C12-benign-alt-name-count-initialised-too", "C12", F_CO,
  "  int num_alt_names;\n  in >> num_alt_names;\n", "  int num_alt_names = 0;\n  in >> num_alt_names;\n", benign=True)


# ---- R17.1 after F-C17c (the <> form walks the -S directories itself)
_ANG = """  if (angle_quotes) {
    if (!filename.is_local()) {
      if (filename.is_regular_file()) {
        source = CPPFile::S_system;
        return true;
      }
    } else {
      for (size_t dir = 0; dir < _angle_include_path.get_num_directories(); ++dir) {
        Filename match(_angle_include_path.get_directory(dir), filename);
        if (match.is_regular_file()) {
          filename = match;
          source = CPPFile::S_system;
          return true;
        }
      }
    }
  }
"""
M("C17-angle-lookup-left-to-DSearchPath-again", "C17", F_PP, _ANG,
  "  if (angle_quotes && filename.resolve_filename(_angle_include_path)) {\n    source = CPPFile::S_system;\n    return true;\n  }\n",
  expect="R17.1|find_include|")
M("C17-angle-name-tried-as-given-even-if-local", "C17", F_PP, _ANG,
  _ANG.replace("    if (!filename.is_local()) {\n      if (filename.is_regular_file()) {\n        source = CPPFile::S_system;\n        return true;\n      }\n    } else {\n", "    if (filename.is_regular_file()) {\n      source = CPPFile::S_system;\n      return true;\n    }\n    {\n"),
  expect="R17.1|find_include|probe#2|angle-as-given-only-if-not-local")
M("C17-angle-directory-satisfies-the-probe", "C17", F_PP, _ANG, _ANG.replace("        if (match.is_regular_file()) {", "        if (match.exists()) {"),
  expect="R17.7|find_include|probe#3")
M("C17-angle-directories-walked-backwards", "C17", F_PP, _ANG,
  _ANG.replace("for (size_t dir = 0; dir < _angle_include_path.get_num_directories(); ++dir) {", "for (size_t dir = _angle_include_path.get_num_directories(); dir-- > 0;) {"),
  expect="R17.1|find_include|directory-loop")

# ---- R04.13 (F-C04d: private member class defined out of line was exported)
F_SC = "src/cppparser/cppScope.cxx"
M("C04-member-class-access-not-carried", "C04", F_SC,
  "      if (_struct_type != nullptr) {\n        // A member class keeps the access it was declared with in its class,\n        // also when it is defined outside of it.\n        type->_vis = other_ext->_vis;\n      }\n", "",
  expect="R04.13|define_extension_type|")
M("C04-type-declaration-takes-scope-visibility", "C04", F_SC,
  "      type_decl->_type->_vis > decl->_vis) {\n    decl->_vis = type_decl->_type->_vis;\n  }\n", "      false) {\n  }\n",
  expect="R04.13|add_declaration|")
M("C04-type-declaration-takes-the-wider-access", "C04", F_SC,
  "      type_decl->_type->_vis > decl->_vis) {", "      type_decl->_type->_vis < decl->_vis) {",
  expect="R04.13|add_declaration|")
M("C04-benign-member-class-access-condition-swapped", "C04", F_SC,
  "      type_decl->_type->_vis > decl->_vis) {", "      decl->_vis < type_decl->_type->_vis) {", benign=True)

# ---- R10.11 (S9-C10: bases share one list of virtual functions)
M("C10-bases-share-the-virtual-function-list", "C10", F_ST,
  "    VFunctions vf;\n    CPPStructType *base = (*di)._base->as_struct_type();\n    if (base != nullptr) {\n      base->get_virtual_funcs(vf);\n      funcs.splice(funcs.end(), vf);\n    }\n",
  "    CPPStructType *base = (*di)._base->as_struct_type();\n    if (base != nullptr) {\n      base->get_virtual_funcs(funcs);\n    }\n",
  expect="R10.11|get_virtual_funcs|")
M("C10-base-list-declared-outside-the-loop", "C10", F_ST,
  "  for (di = _derivation.begin(); di != _derivation.end(); ++di) {\n    VFunctions vf;\n    CPPStructType *base = (*di)._base->as_struct_type();\n    if (base != nullptr) {\n      base->get_virtual_funcs(vf);",
  "  VFunctions vf;\n  for (di = _derivation.begin(); di != _derivation.end(); ++di) {\n    CPPStructType *base = (*di)._base->as_struct_type();\n    if (base != nullptr) {\n      base->get_virtual_funcs(vf);",
  expect="R10.11|get_virtual_funcs|")

# ---- R16.6 (S9-C16: edges recorded only towards libraries already in the map)
M("C16-edge-needs-base-library-already-known", "C16", F_IM,
  "            if (baselib != library_name) {\n              deps.insert(std::move(baselib));",
  "            if (baselib != library_name && dependencies.count(baselib) != 0) {\n              deps.insert(std::move(baselib));",
  expect="R16.6|write_python_table_native|")
M("C16-typedef-edge-needs-library-already-known", "C16", F_IM,
  "            if (wrappedlib != library_name) {", "            if (wrappedlib != library_name && dependencies.find(wrappedlib) != dependencies.end()) {",
  expect="R16.6|write_python_table_native|")
M("C16-benign-edge-condition-reordered", "C16", F_IM,
  "            if (baselib != library_name) {\n              deps.insert(std::move(baselib));",
  "            if (!(library_name == baselib)) {\n              deps.insert(std::move(baselib));", benign=True)

# ---- R09.12 (S9-C09: defined() looks into the table itself)
M("C09-defined-searches-the-table-itself", "C09", F_PP,
  "  char result = is_manifest_defined(name) ? '1' : '0';", "  char result = (_manifests.find(name) != _manifests.end()) ? '1' : '0';",
  expect="R09.12|expand_defined_function|")
M("C09-ifndef-searches-the-table-itself", "C09", F_PP,
  "  if (is_manifest_defined(args)) {\n    // The macro is defined.  Skip stuff.", "  if (_manifests.count(args) != 0) {\n    // The macro is defined.  Skip stuff.",
  expect="R09.12|handle_ifndef_directive|")
M("C09-builtin-file-macro-not-defined", "C09", F_PP,
  "      manifest_name == \"__FILE__\" ||\n", "", expect="R09.12|is_manifest_defined|built-ins")

# ---- R18.9 (S9-C18: interval width taken before the boundaries are pulled inwards)
M("C18-width-before-narrowing", "C18", F_PD,
  "  Wm.f++;\n  Wp.f--;\n  DigitGen(W, Wp, Wp.f - Wm.f, buffer, length, K);",
  "  const uint64_t delta = Wp.f - Wm.f;\n  Wm.f++;\n  Wp.f--;\n  DigitGen(W, Wp, delta, buffer, length, K);",
  expect="R18.9|Grisu2|width-after|")
M("C18-upper-boundary-not-narrowed", "C18", F_PD,
  "  Wm.f++;\n  Wp.f--;\n  DigitGen(", "  Wm.f++;\n  DigitGen(", expect="R18.9|Grisu2|width-after|upper-boundary-moved-down")
M("C18-benign-width-in-a-local-after-narrowing", "C18", F_PD,
  "  Wm.f++;\n  Wp.f--;\n  DigitGen(W, Wp, Wp.f - Wm.f, buffer, length, K);",
  "  Wm.f += 1;\n  Wp.f -= 1;\n  const uint64_t delta = Wp.f - Wm.f;\n  DigitGen(W, Wp, delta, buffer, length, K);", benign=True)

# ---- R20.13 (S9-C20: the discarded index entered the global-type list)
M("C20-global-list-gets-the-discarded-index", "C20", F_DBX,
  "        _global_types.push_back(this_type_index);", "        _global_types.push_back(other_type_index);",
  expect="R20.13|merge_from|_global_types.push_back")

# ---- R13.7 (S9-C13: the loser's global bit read from the winner)
F_TY = "src/interrogatedb/interrogateType.cxx"
M("C13-global-bit-saved-from-the-other-type", "C13", F_TY,
  "    int old_flags = (_flags & F_global);", "    int old_flags = (other._flags & F_global);",
  expect="R13.7|merge_with|they-win|")
M("C13-global-bit-not-restored", "C13", F_TY,
  "    (*this) = other;\n    _flags |= old_flags;\n", "    (*this) = other;\n", expect="R13.7|merge_with|they-win|")
M("C13-we-win-drops-other-global", "C13", F_TY,
  "    _flags |= (other._flags & F_global);\n", "", expect="R13.7|merge_with|we-win|")

# ---- R07.16 (S9-C07: \0 split off the octal escapes)
MUTANTS.append({"id": "C07-backslash-zero-is-a-simple-escape", "prop": "C07", "expect": "R07.16|scan_escape_sequence|octal-digits-share-one-arm", "benign": False, "edits": [
    (F_PP, "  case 'b':\n    return '\\b';\n", "  case '0':\n    return '\\0';\n\n  case 'b':\n    return '\\b';\n"),
    (F_PP, "  case '0':\n  case '1':\n  case '2':\n  case '3':\n  case '4':\n  case '5':\n  case '6':\n  case '7':\n    // Octal character.", "  case '1':\n  case '2':\n  case '3':\n  case '4':\n  case '5':\n  case '6':\n  case '7':\n    // Octal character.")]})
M("C07-vertical-tab-escape-wrong", "C07", F_PP, "  case 'v':\n    return '\\v';\n", "  case 'v':\n    return '\\f';\n",
  expect="R07.16|scan_escape_sequence|\\v|standard-value")

# ---- R17.9 chdir clause (S9-C17: chdir inside the option loop)
MUTANTS.append({"id": "C17-chdir-inside-the-option-loop", "prop": "C17", "expect": "R17.9|main|chdir|after-every-make_absolute", "benign": False, "edits": [
    (F_IG, "      source_file_directory.make_absolute();\n      break;\n", "      source_file_directory.make_absolute();\n      if (!source_file_directory.chdir()) {\n        cerr << \"Could not change directory to \" << source_file_directory << \"\\n\";\n        exit(1);\n      }\n      break;\n"),
    (F_IG, "  // If requested, change directory to the source-file directory.\n  if (source_file_directory != \"\") {\n    if (!source_file_directory.chdir()) {\n      cerr << \"Could not change directory to \" << source_file_directory << \"\\n\";\n      exit(1);\n    }\n  }\n", "")]})

# ---- R15.29 (S9-C15: a manifest the push_macro stack may hold is freed)
M("C15-redefined-macro-freed", "C15", F_PP,
  "      result.first->second = manifest;\n    }\n  }\n}\n", "      delete other;\n      result.first->second = manifest;\n    }\n  }\n}\n",
  expect="R15.29|CPPPreprocessor::handle_define_directive|")

# ---- R05.12 (S9-C05: every reference stripped from the signature key)
F_TM = "src/interrogate/typeManager.cxx"
M("C05-signature-key-strips-every-reference", "C05", F_TM,
  "    if (is_const_ref_to_anything(ptype)) {\n      ptype = unwrap_const_reference(ptype);\n    }\n", "    ptype = unwrap_const_reference(ptype);\n",
  expect="R05.12|get_function_signature|")

# ---- R02.12 (S9-C02: the packed argument tuple of mp_ass_subscript leaked)
M("C02-setitem-dispatch-does-not-release-args", "C02", F_PN,
  "                                       true, true, AT_varargs, RF_int | RF_decref_args, false)) {", "                                       true, true, AT_varargs, RF_int, false)) {",
  expect="R02.12|write_module_class@")
M("C02-ternary-dispatch-does-not-release-args", "C02", F_PN,
  "                                       true, true, AT_varargs, return_flags | RF_decref_args, true)) {", "                                       true, true, AT_varargs, return_flags, true)) {",
  expect="R02.12|write_module_class@")

# ---- R06.16 (S9-C06: T[] and T[N] tie in is_less)
M("C06-array-bound-not-ordered-against-no-bound", "C06", "src/cppparser/cppArrayType.cxx",
  "  } else if ((_bounds == nullptr) != (ot->_bounds == nullptr)) {\n    return _bounds < ot->_bounds;\n  }\n", "  }\n",
  expect="R06.16|CPPArrayType::is_less|_bounds|")

# ---- R19.r (S9-C19: output moved into place by an unchecked rename)
MUTANTS.append({"id": "C19-module-file-renamed-into-place-unchecked", "prop": "C19", "expect": "R19.r|interrogate_module.cxx::main|", "benign": False, "edits": [
    (F_IM, "      if (output_code.fail()) {\n        nout << \"Error writing \" << output_code_filename << \"\\n\";\n        status = 1;\n      }\n",
           "      if (output_code.fail()) {\n        nout << \"Error writing \" << output_code_filename << \"\\n\";\n        status = 1;\n      } else {\n        rename(output_code_filename.to_os_specific().c_str(), output_code_filename.to_os_specific().c_str());\n      }\n"),
    (F_IM, "#include <algorithm>\n", "#include <algorithm>\n#include <cstdio>\n")]})

# ---- R15.28 (F-C15aa: cycles of using-directives)
M("C15-using-walk-forgets-where-it-has-been", "C15", F_SC,
  "    CPPDeclaration *decl = (*ui)->find_symbol(name, false, visited);", "    CPPDeclaration *decl = (*ui)->find_symbol(name, false);",
  expect="R15.28|CPPScope::find_symbol/3|")
MUTANTS.append({"id": "C15-using-walk-does-not-stop-at-visited-scope", "prop": "C15", "expect": "R15.28|CPPScope::find_template/3|", "benign": False, "edits": [
    (F_SC, "find_template(const string &name, bool recurse, UsingVisited &visited) const {\n  if (!visited.insert(this).second) {\n    // This scope is already being searched, further up a chain of\n    // using-directives.\n    return nullptr;\n  }\n\n",
           "find_template(const string &name, bool recurse, UsingVisited &visited) const {\n")]})

# ---- R15.30 (F-C15ab: a constant defined through itself)
M("C15-variable-evaluated-without-in-progress-guard", "C15", F_EX,
  "        if (!in_progress.insert(_u._variable).second) {\n          return Result();\n        }\n", "        in_progress.insert(_u._variable);\n",
  expect="R15.30|evaluate|variable-initializer#0|")
M("C15-variable-never-leaves-the-in-progress-set", "C15", F_EX,
  "        in_progress.erase(_u._variable);\n", "", expect="R15.30|evaluate|variable-initializer#0|")

# ---- R10.12 (S10-C10: `= 0` honoured only on a declaration that says `virtual`)
M("C10-pure-specifier-needs-virtual-keyword", "C10", F_IN,
  "        _storage_class |= SC_pure_virtual;\n", "        if (_storage_class & SC_virtual) {\n          _storage_class |= SC_pure_virtual;\n        }\n",
  expect="R10.12|set_initializer|SC_pure_virtual|")
M("C10-default-specifier-recorded-as-deleted-kind", "C10", F_IN,
  "      } else if (initializer->_type == CPPExpression::T_default) {\n        _storage_class |= SC_defaulted;", "      } else if (initializer->_type == CPPExpression::T_delete) {\n        _storage_class |= SC_defaulted;",
  expect="R10.12|set_initializer|SC_defaulted|")

# ---- R09.13 (S10-C09: the trim loop of __has_include tests the wrong character)
M("C09-has-include-trim-tests-the-closing-paren", "C09", F_PP,
  "  while (t > r && isspace(expr[t - 1])) {", "  while (t > r && isspace(expr[t])) {",
  expect="R09.13|CPPPreprocessor::expand_has_include_function|trim(t)|")
M("C09-trim-blanks-tests-one-before", "C09", F_PP,
  "  while (last > first && isspace(str[last])) {", "  while (last > first && isspace(str[last - 1])) {",
  expect="R09.13|trim_blanks|trim(last)|")

# ---- R17.10 (S10-C17: a named file reached through -S is no longer the user's own)
M("C17-named-file-from-system-directory-not-own", "C17", F_PP,
  "    if (_explicit_files.count(filename)) {\n      source = CPPFile::S_local;", "    if (source != CPPFile::S_system && _explicit_files.count(filename)) {\n      source = CPPFile::S_local;",
  expect="R17.10|handle_include_directive|")

# ---- R04.3 tightened (S10-C04: the typedef arm of in_ignoreinvolved compares a name instead of recursing)
M("C04-ignoreinvolved-typedef-arm-compares-name", "C04", F_IB,
  "      return in_ignoreinvolved(tdef->_type);", "      return in_ignoreinvolved(tdef->_type->get_simple_name());",
  expect="R04.3|in_ignoreinvolved|ST_typedef")

# ---- R07.17 (S10-C07: `or` lexed as bitwise or)
M("C07-or-is-bitwise", "C07", F_PP, "  {\"or\", OROR},", "  {\"or\", '|'},", expect="R07.17|keywords|or|primary-token")
M("C07-not-eq-is-not", "C07", F_PP, "  {\"not_eq\", NECOMPARE},", "  {\"not_eq\", '!'},", expect="R07.17|keywords|not_eq|primary-token")

# ---- R13.8 (S10-C13: the first index of a module belongs to the module before)
M("C13-module-search-excludes-first-index", "C13", F_DBX, "  if (index <= function) {\n    return binary_search_module(mid, end, function);", "  if (index < function) {\n    return binary_search_module(mid, end, function);",
  expect="R13.8|binary_search_module|")
M("C13-benign-module-search-condition-swapped", "C13", F_DBX, "  if (index <= function) {\n    return binary_search_module(mid, end, function);", "  if (function >= index) {\n    return binary_search_module(mid, end, function);", benign=True)

# ---- R20.12 character-read clause (S10-C20)
M("C20-has-library-name-reads-through-null", "C20", "src/interrogatedb/interrogateComponent.I",
  "  const char *name = get_library_name();\n  return (name != nullptr && name[0] != '\\0');", "  return (_def != nullptr && _def->library_name[0] != '\\0');",
  expect="R20.12|InterrogateComponent::has_library_name|")

# ---- R15.31 (S10-C15: pop_macro stores the saved nullptr)
M("C15-pop-macro-restores-null-into-the-table", "C15", F_PP,
  "      if (manifest == nullptr) {\n        // It was undefined when it was pushed, so make it undefined again.\n        if (mi != _manifests.end()) {\n          _manifests.erase(mi);\n        }\n      } else if (mi != _manifests.end()) {\n        mi->second = manifest;\n      } else {\n        _manifests.insert(Manifests::value_type(macro, manifest));\n      }\n",
  "      if (mi == _manifests.end()) {\n        _manifests.insert(Manifests::value_type(macro, manifest));\n      } else if (manifest == nullptr) {\n        _manifests.erase(mi);\n      } else {\n        mi->second = manifest;\n      }\n",
  expect="R15.31|CPPPreprocessor::handle_pragma_directive|")

# ---- R02.13 (S10-C02: the kept overload set no longer receives the superset)
M("C02-collapsed-sets-lose-overloads", "C02", F_PN,
  "  erase_end->second = erase_begin->second;\n", "  if (rmi == map_sets.rbegin()) {\n    erase_end->second = erase_begin->second;\n  }\n",
  expect="R02.13|collapse_default_remaps|")

# ---- R14.10 (S10-C14: a Derivation pushed with _flags unassigned)
M("C14-unpublished-base-derivation-flags-unassigned", "C14", F_IB,
  "            InterrogateType::Derivation d;\n            d._flags = 0;\n            d._base = base_index;\n            d._upcast = 0;", "            InterrogateType::Derivation d;\n            d._base = base_index;\n            d._upcast = 0;",
  expect="R14.10|InterrogateBuilder::define_struct_type|d._flags|")

# ---- R06.17 (S10-C06: F_signed masked out of CPPSimpleType's identity)
M("C06-simple-type-identity-ignores-signed", "C06", "src/cppparser/cppSimpleType.cxx",
  "  return _type == ot->_type && _flags == ot->_flags;", "  return _type == ot->_type &&\n    (_flags & ~F_signed) == (ot->_flags & ~F_signed);",
  expect="R06.17|CPPSimpleType::is_equal|")

# ---- R11.12 (= R20.13; seed S10-C11)
M("C11-global-list-gets-the-discarded-index", "C11", F_DBX,
  "        _global_types.push_back(this_type_index);", "        _global_types.push_back(other_type_index);",
  expect="R11.12|merge_from|_global_types.push_back")

# ---- R15.32 (F-C15ac: show_line reads in front of the line)
M("C15-show-line-predecrement-without-floor", "C15", F_PP,
  "    while (last > 0 && isspace(linestr[last - 1])) {\n      --last;\n    }\n    linestr = linestr.substr(0, last);\n",
  "    while (isspace(linestr[--last])) {\n      linestr = linestr.substr(0, last);\n    }\n",
  expect="R15.32|CPPPreprocessor::show_line|")

# ---- R15.33 (F-C15ad: forcetype that does not parse)
M("C15-unparsable-forcetype-used-anyway", "C15", F_IB,
  "      cerr << \"Failure to parse forcetype \" << *ci << \"\\n\";\n      continue;\n    }\n    get_type(type, true);",
  "      cerr << \"Failure to parse forcetype \" << *ci << \"\\n\";\n    }\n    assert(type != nullptr);\n    get_type(type, true);",
  expect="R15.33|InterrogateBuilder::build|")

# ---- R02.14 (F-C02c, F-C02d: new references from _getitem_func)
F_PW = "src/interrogatedb/py_wrappers.cxx"
MUTANTS.append({"id": "C02-contains-keeps-the-fetched-element", "prop": "C02", "expect": "R02.14|Dtool_SequenceWrapper_contains|item|released", "benign": False, "edits": [
    (F_PW, "      int cmp = PyObject_RichCompareBool(item, value, Py_EQ);\n      Py_DECREF(item);\n      if (cmp > 0) {\n        return 1;", "      int cmp = PyObject_RichCompareBool(item, value, Py_EQ);\n      if (cmp > 0) {\n        return 1;")]})
M("C02-pop-keeps-the-value-when-removal-fails", "C02", F_PW,
  "    if (wrap->_setitem_func(wrap->_base._self, index, nullptr) != 0) {\n      Py_DECREF(value);\n      return nullptr;", "    if (wrap->_setitem_func(wrap->_base._self, index, nullptr) != 0) {\n      return nullptr;",
  expect="R02.14|Dtool_MutableSequenceWrapper_pop|value|released")
M("C02-benign-contains-releases-before-comparing-result", "C02", F_PW,
  "      int cmp = PyObject_RichCompareBool(item, value, Py_EQ);\n      Py_DECREF(item);\n      if (cmp > 0) {\n        return 1;", "      int cmp = PyObject_RichCompareBool(item, value, Py_EQ);\n      Py_XDECREF(item);\n      if (cmp > 0) {\n        return 1;", benign=True)

# ================================================================ round 11
# ---- R18.10 (S11-C18: the constant that places the cached power)
M("C18-cached-power-window-constant", "C18", F_PD,
  "  double dk = (-61 - e) * 0.30102999566398114 + 347;", "  double dk = (-58 - e) * 0.30102999566398114 + 347;",
  expect="R18.10|GetCachedPower|")
M("C18-benign-cached-power-alpha-minus-59", "C18", F_PD,
  "  double dk = (-61 - e) * 0.30102999566398114 + 347;", "  double dk = (-60 - e) * 0.30102999566398114 + 347;", benign=True)
# ---- R09.14 (S11-C09)
M("C09-leftover-macro-name-not-zeroed", "C09", F_PP,
  "        else if (expand_undefined && ident != \"true\" && ident != \"false\") {", "        else if (expand_undefined && mi == _manifests.end() &&\n                 ident != \"true\" && ident != \"false\") {",
  expect="R09.14|expand_manifests|")
# ---- R16.7 (S11-C16)
M("C16-nested-types-contribute-no-edges", "C16", F_IM,
  "    if (interrogate_type_has_module_name(thetype) && module_name == interrogate_type_module_name(thetype)) {\n      if (interrogate_type_has_library_name(thetype)) {\n        string library_name = interrogate_type_library_name(thetype);\n        std::set<string> &deps",
  "    if (interrogate_type_has_module_name(thetype) && module_name == interrogate_type_module_name(thetype)) {\n      if (interrogate_type_is_nested(thetype)) {\n        continue;\n      }\n      if (interrogate_type_has_library_name(thetype)) {\n        string library_name = interrogate_type_library_name(thetype);\n        std::set<string> &deps",
  expect="R16.7|write_python_table_native|")
# ---- R17.4 tightened (S11-C17)
M("C17-absolute-command-line-name-not-canonicalised", "C17", "src/cppparser/cppParser.cxx",
  "  canonical.make_canonical();\n", "  if (canonical.is_local()) {\n    canonical.make_canonical();\n  }\n",
  expect="R17.4|CPPParser::parse_file|canonical-key")
# ---- R20.14 (S11-C20)
MUTANTS.append({"id": "C20-range-length-after-the-move", "prop": "C20", "expect": "R20.14|request_module|", "benign": False, "edits": [
    (F_DBX, "  int num_indices = def->next_index - def->first_index;\n  if (num_indices > 0) {", "  if (def->next_index > def->first_index) {"),
    (F_DBX, "    _next_index += num_indices;", "    _next_index += def->next_index - def->first_index;")]})
# ---- R10.13 (S11-C10)
M("C10-final-class-never-abstract", "C10", F_ST,
  "is_abstract() const {\n  VFunctions funcs;", "is_abstract() const {\n  if (_final) {\n    return false;\n  }\n  VFunctions funcs;",
  expect="R10.13|is_abstract|")
# ---- R06.18 (S11-C06)
M("C06-template-parameter-default-compared-by-presence", "C06", "src/cppparser/cppClassTemplateParameter.cxx",
  "  if (_default_type != ot->_default_type) {\n    return _default_type < ot->_default_type;", "  if ((_default_type == nullptr) != (ot->_default_type == nullptr)) {\n    return _default_type < ot->_default_type;",
  expect="R06.18|CPPClassTemplateParameter::is_less|_default_type|")
# ---- R12.12 (S11-C12)
M("C12-alt-names-resized-then-appended", "C12", F_CO, "  _alt_names.reserve(num_alt_names);", "  _alt_names.resize(num_alt_names);",
  expect="R12.12|InterrogateComponent::input|")
# ---- R15.25 extended (S11-C15)
M("C15-shift-type-from-unknown-left-operand", "C15", F_EX,
  "    case '&':\n    case LSHIFT:\n    case RSHIFT:\n      return int_type;", "    case '&':\n      return int_type;\n\n    case LSHIFT:\n    case RSHIFT:\n      return elevate_type(t1, int_type);",
  expect="R15.25|CPPExpression::determine_type|elevate_type(#0")
# ---- R19.c (S11-C19)
MUTANTS.append({"id": "C19-function-bodies-streamed-and-state-cleared", "prop": "C19", "expect": "R19.c|", "benign": False, "edits": [
    (F_IB, "  out_code << function_bodies.str() << \"\\n\";", "  out_code << function_bodies.rdbuf();\n  out_code.clear(out_code.rdstate() & ~std::ios::failbit);\n  out_code << \"\\n\";"),
    (F_IB, "  ostringstream function_bodies;", "  std::stringstream function_bodies;")]})
# ---- R14.11 (S11-C14)
M("C14-database-filename-points-into-a-temporary", "C14", F_IB,
  "  def->library_name = library_name.c_str();", "  def->library_name = Filename(library_name).get_basename().c_str();",
  expect="R14.11|InterrogateBuilder::make_module_def|")
# ---- R05.13 (S11-C05)
M("C05-parameter-default-presence-not-ordered", "C05", F_IN,
  "    if (_initializer == nullptr || other._initializer == nullptr) {\n      return _initializer < other._initializer;\n    }\n", "",
  expect="R05.13|CPPInstance::operator<|_initializer|")
# ---- R07.18 (S11-C07)
M("C07-signed-expansion-gets-parentheses", "C07", F_PP,
  "          expand_manifests(result, expand_undefined, nested_ignores);\n\n          expr = expr.substr(0, q) + result + expr.substr(p);",
  "          expand_manifests(result, expand_undefined, nested_ignores);\n          if (!result.empty() && (result[0] == '-' || result[0] == '+')) {\n            result = \"(\" + result + \")\";\n          }\n\n          expr = expr.substr(0, q) + result + expr.substr(p);",
  expect="R07.18|expand_manifests|")
# ---- R11.13 (S11-C11)
M("C11-merge-looks-up-plain-name", "C11", F_DBX,
  "      ni = types_by_name.find(other_type.get_true_name());", "      ni = types_by_name.find(other_type.get_name());",
  expect="R11.13|merge_from|types_by_name.find")
# ---- R15.34 (F-C15ae: a namespace definition that reopens an enclosing namespace)
_NSG = """  for (CPPScope *enclosing = current_scope;
       scope != nullptr && enclosing != nullptr;
       enclosing = enclosing->get_parent_scope()) {
    if (enclosing == scope) {
      // The name leads back to a namespace we are inside of (an enclosing
      // namespace of the same name, or an alias of one).  Reopening that
      // here would make the namespace contain itself; this is a new one.
      scope = nullptr;
    }
  }
"""
M("C15-namespace-enclosing-guard-reverted", "C15", F_Y, _NSG, "",
  expect="R15.34|case418|scope|not-an-enclosing-namespace")
M("C15-namespace-guard-skips-current-scope", "C15", F_Y, _NSG,
  _NSG.replace("CPPScope *enclosing = current_scope;", "CPPScope *enclosing = current_scope->get_parent_scope();"),
  expect="R15.34|case418|scope|not-an-enclosing-namespace")
M("C15-namespace-guard-inverted", "C15", F_Y, _NSG, _NSG.replace("if (enclosing == scope) {", "if (enclosing != scope) {"),
  expect="R15.34|case418|scope|not-an-enclosing-namespace")
M("C15-namespace-guard-does-not-drop", "C15", F_Y, _NSG,
  _NSG.replace("      scope = nullptr;\n", "      yywarning(\"namespace reopens an enclosing namespace\", @1);\n"),
  expect="R15.34|case418|scope|not-an-enclosing-namespace")
M("C15-namespace-guard-stops-at-first", "C15", F_Y, _NSG,
  _NSG.replace("    if (enclosing == scope) {", "    if (enclosing != current_scope) {\n      break;\n    }\n    if (enclosing == scope) {"),
  expect="R15.34|case418|scope|not-an-enclosing-namespace")
M("C15-namespace-alias-written-by-contents", "C15", "src/cppparser/cppNamespace.cxx",
  "    if (_alias_of != nullptr) {\n      out << \"= \"", "    if (_alias_of != nullptr && indent_level == 0) {\n      out << \"= \"",
  expect="R15.34|CPPNamespace::output|descends-only-without-alias")
M("C15-benign-namespace-guard-as-while", "C15", F_Y, _NSG,
  """  CPPScope *outer = current_scope;
  while (outer != nullptr && scope != nullptr) {
    if (scope == outer) {
      scope = nullptr;
    }
    outer = outer->get_parent_scope();
  }
""", benign=True)

# ================================================================ round 12 (short round, 8 properties)
# ---- R12.13 (S12-C12)
M("C12-lookups-reset-moved-to-read_new", "C12", F_DBX,
  "    update_make_seq(other_make_seq_index).remap_indices(remap);\n  }\n\n  _lookups_fresh = 0;\n}", "    update_make_seq(other_make_seq_index).remap_indices(remap);\n  }\n}",
  expect="R12.13|InterrogateDatabase::merge_from|")
M("C12-lookups-reset-only-when-types-arrived", "C12", F_DBX,
  "    update_make_seq(other_make_seq_index).remap_indices(remap);\n  }\n\n  _lookups_fresh = 0;\n}",
  "    update_make_seq(other_make_seq_index).remap_indices(remap);\n  }\n\n  if (!other._type_map.empty()) {\n    _lookups_fresh = 0;\n  }\n}",
  expect="R12.13|InterrogateDatabase::merge_from|")
M("C12-benign-lookups-reset-first", "C12", F_DBX,
  "    update_make_seq(other_make_seq_index).remap_indices(remap);\n  }\n\n  _lookups_fresh = 0;\n}",
  "    update_make_seq(other_make_seq_index).remap_indices(remap);\n  }\n\n  // The by-name tables are stale now.\n  this->_lookups_fresh = 0;\n}",
  benign=True)
# ---- R06.19 (S12-C06)
M("C06-benign-unused-snapshot-of-the-map", "C06", "src/cppparser/cppTemplateParameterList.cxx",
  "  // Fill in the default template parameters.\n", "  // Fill in the default template parameters.\n  CPPDeclaration::SubstDecl given(subst);\n",
  expect=None, benign=True)
MUTANTS.append({"id": "C06-nontype-default-sees-only-given-arguments", "prop": "C06", "expect": "R06.19|build_subst_decl|substitute_decl", "benign": False, "edits": [
    ("src/cppparser/cppTemplateParameterList.cxx", "  // Fill in the default template parameters.\n", "  // Fill in the default template parameters.\n  CPPDeclaration::SubstDecl given(subst);\n"),
    ("src/cppparser/cppTemplateParameterList.cxx", "          inst->_initializer->substitute_decl(subst, current_scope,", "          inst->_initializer->substitute_decl(given, current_scope,")]})
# ---- R16.8 (S12-C16)
MUTANTS.append({"id": "C16-only-newly-added-libraries-discounted", "prop": "C16", "expect": "R16.8|write_python_table_native|erase-loop", "benign": False, "edits": [
    (F_IM, "  vector_string libraries;\n  while (libraries.size() < dependencies.size()) {", "  vector_string libraries;\n  size_t num_checked = 0;\n  while (libraries.size() < dependencies.size()) {"),
    (F_IM, "        for (auto li = libraries.begin(); li != libraries.end(); ++li) {\n          deps.erase(*li);", "        for (auto li = libraries.begin() + num_checked; li != libraries.end(); ++li) {\n          deps.erase(*li);"),
    (F_IM, "    if (!added_any) {\n      // Oh dear", "    num_checked = libraries.size();\n\n    if (!added_any) {\n      // Oh dear")]})
M("C16-benign-erase-loop-as-range-for", "C16", F_IM,
  "        for (auto li = libraries.begin(); li != libraries.end(); ++li) {\n          deps.erase(*li);\n        }", "        for (const std::string &added : libraries) {\n          deps.erase(added);\n        }",
  benign=True)
# ---- R10.14 (S12-C10)
M("C10-named-union-starts-private", "C10", F_Y,
  "struct_keyword optional_attributes name_no_final\n{\n  CPPVisibility starting_vis =\n  ($1 == CPPExtensionType::T_class) ? V_private : V_public;",
  "struct_keyword optional_attributes name_no_final\n{\n  CPPVisibility starting_vis =\n  ($1 == CPPExtensionType::T_struct) ? V_public : V_private;",
  expect="R10.14|$@26|starting-visibility")
M("C10-benign-starting-visibility-negated", "C10", F_Y,
  "struct_keyword optional_attributes name_no_final\n{\n  CPPVisibility starting_vis =\n  ($1 == CPPExtensionType::T_class) ? V_private : V_public;",
  "struct_keyword optional_attributes name_no_final\n{\n  CPPVisibility starting_vis =\n  ($1 != CPPExtensionType::T_class) ? V_public : V_private;",
  benign=True)
# ---- R05.14 (S12-C05)
M("C05-call-operator-exclusion-misspelled", "C05", "src/cppparser/cppInstanceIdentifier.cxx",
  "    if (_ident->get_simple_name() != std::string(\"operator ()\") &&", "    if (_ident->get_simple_name() != std::string(\"operator()\") &&",
  expect="R05.14|CPPInstanceIdentifier::add_func_modifier|")
M("C05-assignment-operator-lookup-misspelled", "C05", F_ST,
  "  fi = _scope->_functions.find(\"operator =\");", "  fi = _scope->_functions.find(\"operator=\");",
  expect="R05.14|")
M("C05-benign-operator-prefix-test-with-compare", "C05", "src/cppparser/cppInstanceIdentifier.cxx",
  "      _ident->get_simple_name().substr(0, 9) == \"operator \") {", "      _ident->get_simple_name().compare(0, 9, \"operator \") == 0) {",
  benign=True)
# ---- R07.19 (F-C07k, repaired fa4d8b5)
_HEX = "      while (isxdigit(peek())) {\n        val = (val << 4) | hex_val(get());\n      }\n"
M("C07-hex-escape-cut-after-two-digits", "C07", F_PP, _HEX, "      if (isxdigit(peek())) {\n        val = (val << 4) | hex_val(get());\n      }\n",
  expect="R07.19|scan_escape_sequence|hex_val(get())")
M("C07-hex-escape-loop-on-a-counter", "C07", F_PP, _HEX, "      for (int n = 1; n < 2; ++n) {\n        val = (val << 4) | hex_val(get());\n      }\n",
  expect="R07.19|scan_escape_sequence|hex_val(get())")
M("C07-benign-hex-escape-as-for-loop", "C07", F_PP, _HEX, "      for (; isxdigit(peek()); ) {\n        val = (val << 4) | hex_val(get());\n      }\n",
  benign=True)
