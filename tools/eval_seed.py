#!/usr/bin/env python3
"""Evaluate one seeded change.

  tools/eval_seed.py <seed-id> <property> <scratch-worktree> [--needs "..."]

1. confirms the change in the scratch worktree: it is built with the change,
   the 10 suite tests pass there, the demonstration fails there and passes on
   the unmodified /repo;
2. files it under /verif/seeded/<seed-id>/ (patch.diff, demo/, notes.md, meta.json);
3. applies the patch to /repo, runs every registered quick check, undoes the
   patch, and records which checks raised a VIOLATION (and for which rule
   instances) in meta.json.
"""
import argparse
import json
import os
import shutil
import subprocess
import sys
import time

VERIF = os.path.dirname(os.path.dirname(os.path.abspath(__file__)))


def sh(cmd, cwd=None, timeout=1800):
    r = subprocess.run(cmd, shell=True, cwd=cwd, stdout=subprocess.PIPE, stderr=subprocess.STDOUT, timeout=timeout)
    return r.returncode, r.stdout.decode(errors="replace")


def main():
    ap = argparse.ArgumentParser()
    ap.add_argument("seed_id")
    ap.add_argument("prop")
    ap.add_argument("worktree")
    ap.add_argument("--needs", default="")
    ap.add_argument("--skip-confirm", action="store_true")
    a = ap.parse_args()
    wt = a.worktree
    out = os.path.join(VERIF, "seeded", a.seed_id)
    ran = []
    # the patch is what the worktree actually contains; "-" re-evaluates a seed already filed under seeded/<id>/
    refile = wt == "-"
    if refile:
        a.skip_confirm = True
        diff = open(os.path.join(out, "patch.diff")).read()
    else:
        rc, diff = sh("git diff HEAD -- src", cwd=wt)
    if not diff.strip():
        print("no source change in", wt)
        return 2
    meta = {"seed_id": a.seed_id, "property": a.prop, "needs_to_manifest": a.needs, "confirmed": {}, "checks": {}}
    if a.skip_confirm and os.path.exists(os.path.join(out, "meta.json")):
        old = json.load(open(os.path.join(out, "meta.json")))
        meta["confirmed"] = old.get("confirmed", {})
        meta["needs_to_manifest"] = old.get("needs_to_manifest", a.needs)
        for keep in ("patch_rebased", "status", "superseded_by", "note"):
            if keep in old:
                meta[keep] = old[keep]
        ran = [l for l in old.get("what_was_run", []) if not l.startswith("git -C /repo apply")]
        if "caught_on_arrival" in old:
            meta["caught_on_arrival"] = old["caught_on_arrival"]
        elif not old.get("reevaluated") and old.get("caught_by") is not None:
            meta["caught_on_arrival"] = sorted(old["caught_by"])
        meta["reevaluated"] = True
        for k in ("superseded", "demo_on_repaired_tree_with_seed_exit"):
            if k in old:
                meta[k] = old[k]
    demo = os.path.join(wt, "OUT", "demo", "run.sh")
    if not a.skip_confirm:
        rc, o = sh("ninja -C _build 2>&1 | tail -1", cwd=wt)
        ran.append("ninja -C %s/_build -> %s" % (wt, o.strip()))
        rc_t, o = sh("ctest -j8 2>&1 | tail -3", cwd=os.path.join(wt, "_build"))
        meta["confirmed"]["suite_with_change"] = "100% tests passed" in o
        ran.append("ctest (with change) -> %s" % o.strip().split("\n")[0])
        rc_w, o_w = sh("bash %s %s" % (demo, wt))
        rc_c, o_c = sh("bash %s /repo" % demo)
        meta["confirmed"]["demo_with_change_exit"] = rc_w
        meta["confirmed"]["demo_unchanged_exit"] = rc_c
        ran.append("demo/run.sh %s -> exit %d" % (wt, rc_w))
        ran.append("demo/run.sh /repo -> exit %d" % rc_c)
        meta["confirmed"]["demo_output_with_change_tail"] = o_w[-600:]
        ok = meta["confirmed"]["suite_with_change"] and rc_w != 0 and rc_c == 0
        meta["confirmed"]["ok"] = ok
        if not ok:
            print("NOT CONFIRMED:", json.dumps(meta["confirmed"], indent=1)[:1500])
            return 1
    os.makedirs(out, exist_ok=True)
    if not refile:
        open(os.path.join(out, "patch.diff"), "w").write(diff)
        if os.path.isdir(os.path.join(out, "demo")):
            shutil.rmtree(os.path.join(out, "demo"))
        shutil.copytree(os.path.join(wt, "OUT", "demo"), os.path.join(out, "demo"))
        if os.path.exists(os.path.join(wt, "OUT", "notes.md")):
            shutil.copy(os.path.join(wt, "OUT", "notes.md"), os.path.join(out, "notes.md"))
    # run the checks against /repo with the patch applied
    rc, o = sh("git status --porcelain -- src", cwd="/repo")
    if o.strip():
        print("/repo has local changes, refusing")
        return 2
    rc, o = sh("git apply %s" % os.path.join(out, "patch.diff"), cwd="/repo")
    if rc != 0:
        print("patch does not apply to /repo:", o)
        return 2
    try:
        props = [c["property_id"] for c in json.load(open(os.path.join(VERIF, "MANIFEST.json")))["checks"]]
        caught = {}
        for p in props:
            rc, o = sh("./check %s --tier quick" % p, cwd=VERIF)
            insts = []
            for line in o.split("\n"):
                if line.startswith("VIOLATION"):
                    rp = line.split("replay=")[-1].strip()
                    try:
                        insts.append(json.load(open(rp))["instance"])
                    except Exception:
                        insts.append(line)
            meta["checks"][p] = {"exit": rc, "violations": insts[:6]}
            if rc == 1:
                caught[p] = insts[:6]
            elif rc == 2:
                meta["checks"][p]["broken"] = [l for l in o.split("\n") if "BROKEN" in l][:2]
        meta["caught_by"] = caught
        ran.append("git -C /repo apply seeded/%s/patch.diff; ./check <each> --tier quick; git -C /repo checkout -- ." % a.seed_id)
    finally:
        sh("git checkout -- .", cwd="/repo")
    meta["what_was_run"] = ran
    meta["evaluated_at"] = time.strftime("%Y-%m-%d %H:%M:%S")
    json.dump(meta, open(os.path.join(out, "meta.json"), "w"), indent=1)
    print("seed %s (%s): caught by %s" % (a.seed_id, a.prop, sorted(meta["caught_by"]) or "NOTHING"))
    for p, v in meta["caught_by"].items():
        for i in v[:3]:
            print("   ", p, i)
    br = [p for p, c in meta["checks"].items() if c["exit"] == 2]
    if br:
        print("    analysis-broken:", br)
    return 0


if __name__ == "__main__":
    sys.exit(main())
