#!/usr/bin/env python3
"""Write /tmp/prompt<N>-Cxx.txt for a round of seeded changes.

  tools/gen_seed_prompts.py <round-number> <avoid.json>

avoid.json maps property id -> one sentence naming the mechanisms earlier rounds (and repairs) already touched.  Each
sub-agent is given only the path of its prompt file; the prompt contains the property's title, statement and quantifier
and nothing from /verif."""
import json
import os
import sys

HERE = os.path.dirname(os.path.dirname(os.path.abspath(__file__)))
rnd, avoid_path = sys.argv[1], sys.argv[2]
T = open(os.path.join(HERE, "tools", "seed_prompt_template.txt")).read()
props = {}
for l in open(os.path.join(HERE, "properties.jsonl")):
    p = json.loads(l)
    props[p["id"]] = p
avoid = json.load(open(avoid_path))
for pid, h in avoid.items():
    pr = props[pid]
    text = "%s\n\n%s\n\nIt must hold for: %s" % (pr["title"], pr["statement"], pr["quantifier"]["text"])
    open("/tmp/prompt%s-%s.txt" % (rnd, pid), "w").write(T.format(dir="/tmp/seed%s-%s" % (rnd, pid), prop=text, avoid=h))
print("wrote %d prompts" % len(avoid))
