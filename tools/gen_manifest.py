#!/usr/bin/env python3
"""Regenerate /verif/MANIFEST.json from ivf/manifest_data.py."""
import json
import os
import sys

HERE = os.path.dirname(os.path.dirname(os.path.abspath(__file__)))
sys.path.insert(0, HERE)
from ivf import manifest_data as md  # noqa: E402

checks = []
for pid in sorted(md.CLAIMED):
    c = dict(md.CLAIMED[pid])
    add = getattr(md, "ADDENDA", {}).get(pid)
    if add:
        ref, text, tech = add
        c["design_ref"] = c["design_ref"] + "; added: " + ref
        if "  Not decided:" in c["text"]:
            head, tail = c["text"].split("  Not decided:", 1)
            c["text"] = head + "  Also decided: " + text + ".  Not decided:" + tail
        else:
            c["text"] = c["text"] + "  Also decided: " + text + "."
        c["technique"] = c["technique"] + "; " + tech
    add5 = getattr(md, "ADDENDA_R5", {}).get(pid)
    if add5:
        ref, text, tech = add5
        c["design_ref"] = c["design_ref"] + ", " + ref + " (sections 8, 9)"
        if "  Not decided:" in c["text"]:
            head, tail = c["text"].split("  Not decided:", 1)
            c["text"] = head + "  Round 5: " + text + ".  Not decided:" + tail
        else:
            c["text"] = c["text"] + "  Round 5: " + text + "."
        c["technique"] = c["technique"] + "; " + tech
    add6 = getattr(md, "ADDENDA_R6", {}).get(pid)
    if add6:
        ref, text, tech = add6
        c["design_ref"] = c["design_ref"] + ", " + ref
        if "  Not decided:" in c["text"]:
            head, tail = c["text"].split("  Not decided:", 1)
            c["text"] = head + "  Round 6: " + text + ".  Not decided:" + tail
        else:
            c["text"] = c["text"] + "  Round 6: " + text + "."
        c["technique"] = c["technique"] + "; " + tech
    add7 = getattr(md, "ADDENDA_R7", {}).get(pid)
    if add7:
        ref, text, tech = add7
        c["design_ref"] = c["design_ref"] + ", " + ref
        if "  Not decided:" in c["text"]:
            head, tail = c["text"].split("  Not decided:", 1)
            c["text"] = head + "  Round 7: " + text + ".  Not decided:" + tail
        else:
            c["text"] = c["text"] + "  Round 7: " + text + "."
        c["technique"] = c["technique"] + "; " + tech
    add8 = getattr(md, "ADDENDA_R8", {}).get(pid)
    if add8:
        ref, text, tech = add8
        c["design_ref"] = c["design_ref"] + ", " + ref
        if "  Not decided:" in c["text"]:
            head, tail = c["text"].split("  Not decided:", 1)
            c["text"] = head + "  Round 8: " + text + ".  Not decided:" + tail
        else:
            c["text"] = c["text"] + "  Round 8: " + text + "."
        c["technique"] = c["technique"] + "; " + tech
    add8t = getattr(md, "ADDENDA_R8T", {}).get(pid)
    if add8t:
        ref, text, tech = add8t
        c["design_ref"] = c["design_ref"] + ", " + ref
        if "  Not decided:" in c["text"]:
            head, tail = c["text"].split("  Not decided:", 1)
            c["text"] = head + "  Round-8 triage: " + text + ".  Not decided:" + tail
        else:
            c["text"] = c["text"] + "  Round-8 triage: " + text + "."
        c["technique"] = c["technique"] + "; " + tech
    add9 = getattr(md, "ADDENDA_R9", {}).get(pid)
    if add9:
        ref, text, tech = add9
        c["design_ref"] = c["design_ref"] + ", " + ref
        if "  Not decided:" in c["text"]:
            head, tail = c["text"].split("  Not decided:", 1)
            c["text"] = head + "  Round 9: " + text + ".  Not decided:" + tail
        else:
            c["text"] = c["text"] + "  Round 9: " + text + "."
        c["technique"] = c["technique"] + "; " + tech
    add10 = getattr(md, "ADDENDA_R10", {}).get(pid)
    if add10:
        ref, text, tech = add10
        c["design_ref"] = c["design_ref"] + ", " + ref
        if "  Not decided:" in c["text"]:
            head, tail = c["text"].split("  Not decided:", 1)
            c["text"] = head + "  Round 10: " + text + ".  Not decided:" + tail
        else:
            c["text"] = c["text"] + "  Round 10: " + text + "."
        c["technique"] = c["technique"] + "; " + tech
    add10t = getattr(md, "ADDENDA_R10T", {}).get(pid)
    if add10t:
        ref, text, tech = add10t
        c["design_ref"] = c["design_ref"] + ", " + ref
        if "  Not decided:" in c["text"]:
            head, tail = c["text"].split("  Not decided:", 1)
            c["text"] = head + "  Round-10 triage: " + text + ".  Not decided:" + tail
        else:
            c["text"] = c["text"] + "  Round-10 triage: " + text + "."
        c["technique"] = c["technique"] + "; " + tech
    add11 = getattr(md, "ADDENDA_R11", {}).get(pid)
    if add11:
        ref, text, tech = add11
        c["design_ref"] = c["design_ref"] + ", " + ref
        if "  Not decided:" in c["text"]:
            head, tail = c["text"].split("  Not decided:", 1)
            c["text"] = head + "  Round 11: " + text + ".  Not decided:" + tail
        else:
            c["text"] = c["text"] + "  Round 11: " + text + "."
        c["technique"] = c["technique"] + "; " + tech
    add11t = getattr(md, "ADDENDA_R11T", {}).get(pid)
    if add11t:
        ref, text, tech = add11t
        c["design_ref"] = c["design_ref"] + ", " + ref
        if "  Not decided:" in c["text"]:
            head, tail = c["text"].split("  Not decided:", 1)
            c["text"] = head + "  Round-11 triage: " + text + ".  Not decided:" + tail
        else:
            c["text"] = c["text"] + "  Round-11 triage: " + text + "."
        c["technique"] = c["technique"] + "; " + tech
    add12 = getattr(md, "ADDENDA_R12", {}).get(pid)
    if add12:
        ref, text, tech = add12
        c["design_ref"] = c["design_ref"] + ", " + ref
        if "  Not decided:" in c["text"]:
            head, tail = c["text"].split("  Not decided:", 1)
            c["text"] = head + "  Round 12: " + text + ".  Not decided:" + tail
        else:
            c["text"] = c["text"] + "  Round 12: " + text + "."
        c["technique"] = c["technique"] + "; " + tech
    add12t = getattr(md, "ADDENDA_R12T", {}).get(pid)
    if add12t:
        ref, text, tech = add12t
        c["design_ref"] = c["design_ref"] + ", " + ref
        if "  Not decided:" in c["text"]:
            head, tail = c["text"].split("  Not decided:", 1)
            c["text"] = head + "  Round-12 triage: " + text + ".  Not decided:" + tail
        else:
            c["text"] = c["text"] + "  Round-12 triage: " + text + "."
        c["technique"] = c["technique"] + "; " + tech
    checks.append({
        "property_id": pid,
        "quick_cmd": "./check %s --tier quick" % pid,
        "thorough_cmd": "./check %s --tier thorough" % pid,
        "evidence_file": "/verif/evidence/%s.json" % pid,
        "replay_cmd_template": "cat {path}; ./check %s --tier quick" % pid,
        "engine": "ivf",
        "level_claimed": {"category": c["level"], "text": c["text"], "design_ref": c["design_ref"]},
        "level_note": c["note"],
        "technique": c["technique"],
    })
man = {
    "version": 1,
    "setup_cmd": "./setup.sh",
    "hooks": {
        "guard": "PANDA3D_INTERROGATE_VERIF",
        "enable": "none needed: the analysis reads unmodified source; the guard name is reserved",
        "baseline_off_cmd": "cmake --build /repo/_build && ctest --test-dir /repo/_build -j8 --timeout 900",
        "source_commits": [],
        "add_only": True,
    },
    "engines": [{
        "name": "ivf",
        "path": "/verif/check",
        "serves_properties": sorted(md.CLAIMED),
        "kind_free_text": "static analysis: libTooling fact extractor (resolved AST + clang CFG per function, "
                          "bin/ivf-facts) over the units named in src/*/CMakeLists.txt with the real build's flags, "
                          "bison grammar reader, and repository-specific rules in Python (ivf/rules/Cxx.py)",
    }],
    "checks": checks,
    "not_applicable": [{"property_id": k, "reason": v} for k, v in sorted(md.NOT_APPLICABLE.items())],
    "notes": md.NOTES,
}
with open(os.path.join(HERE, "MANIFEST.json"), "w") as f:
    json.dump(man, f, indent=1)
    f.write("\n")
print("MANIFEST.json: %d checks, %d not applicable" % (len(checks), len(man["not_applicable"])))
