// ivf-facts: resolved-program fact extractor for the interrogate verification
// framework.  One invocation per translation unit; output is a line-oriented
// file (<kind>\t<key>\t<json>) so that the loader can de-duplicate header
// entities without parsing their JSON.
//
//   ivf-facts -o out.facts -root /repo/src -root /scratch file.cxx -- <flags>
//
// Kinds: F function definition (body tree + CFG), D function declaration,
//        R record, E enum, T typedef, G namespace-scope / static variable.
#include "clang/AST/ASTConsumer.h"
#include "clang/AST/ASTContext.h"
#include "clang/AST/DeclCXX.h"
#include "clang/AST/DeclTemplate.h"
#include "clang/AST/ExprCXX.h"
#include "clang/AST/RecursiveASTVisitor.h"
#include "clang/AST/StmtCXX.h"
#include "clang/Analysis/CFG.h"
#include "clang/Frontend/CompilerInstance.h"
#include "clang/Frontend/FrontendAction.h"
#include "clang/Tooling/CommonOptionsParser.h"
#include "clang/Tooling/Tooling.h"
#include "llvm/Support/CommandLine.h"
#include "llvm/Support/JSON.h"
#include "llvm/Support/raw_ostream.h"
#include <map>
#include <set>
#include <string>
#include <vector>

using namespace clang;
using namespace clang::tooling;
namespace json = llvm::json;

static llvm::cl::OptionCategory Cat("ivf-facts options");
static llvm::cl::opt<std::string> OutFile("o", llvm::cl::desc("output file"),
                                          llvm::cl::Required, llvm::cl::cat(Cat));
static llvm::cl::list<std::string> Roots("root", llvm::cl::desc("source root prefix"),
                                          llvm::cl::cat(Cat));

namespace {

std::string fixUtf8(llvm::StringRef S) {
  if (json::isUTF8(S)) return S.str();
  return json::fixUTF8(S);
}

// Qualified name without template arguments and inline namespaces.
std::string qname(const NamedDecl *D) {
  if (!D) return "";
  std::vector<std::string> parts;
  std::string own;
  if (const auto *CD = dyn_cast<CXXConstructorDecl>(D)) {
    own = CD->getParent()->getIdentifier() ? CD->getParent()->getName().str() : "";
  } else if (const auto *DD = dyn_cast<CXXDestructorDecl>(D)) {
    own = "~" + (DD->getParent()->getIdentifier() ? DD->getParent()->getName().str() : std::string());
  } else if (D->getDeclName().isIdentifier()) {
    own = D->getIdentifier() ? D->getName().str() : "";
  } else {
    own = D->getDeclName().getAsString();
  }
  parts.push_back(own);
  const DeclContext *DC = D->getDeclContext();
  while (DC) {
    if (const auto *NS = dyn_cast<NamespaceDecl>(DC)) {
      if (!NS->isInline() && !NS->isAnonymousNamespace())
        parts.push_back(NS->getName().str());
      else if (NS->isAnonymousNamespace())
        parts.push_back("(anon)");
    } else if (const auto *RD = dyn_cast<RecordDecl>(DC)) {
      if (RD->getIdentifier())
        parts.push_back(RD->getName().str());
      else if (const TypedefNameDecl *TD = RD->getTypedefNameForAnonDecl())
        parts.push_back(TD->getName().str());
      else
        parts.push_back("(anon)");
    } else if (const auto *ED = dyn_cast<EnumDecl>(DC)) {
      if (ED->isScoped() && ED->getIdentifier())
        parts.push_back(ED->getName().str());
    } else if (const auto *FD = dyn_cast<FunctionDecl>(DC)) {
      // local entity: stop, names of locals are not qualified
      (void)FD;
      parts.resize(1);
      break;
    }
    DC = DC->getParent();
  }
  std::string r;
  for (auto it = parts.rbegin(); it != parts.rend(); ++it) {
    if (!r.empty()) r += "::";
    r += *it;
  }
  return r;
}

struct Ctx {
  ASTContext *AC = nullptr;
  SourceManager *SM = nullptr;
  PrintingPolicy PP;
  Ctx() : PP(LangOptions()) {}
};

std::string tystr(const Ctx &C, QualType T) {
  if (T.isNull()) return "";
  return T.getAsString(C.PP);
}

std::string fileOf(const Ctx &C, SourceLocation L) {
  if (L.isInvalid()) return "";
  L = C.SM->getExpansionLoc(L);
  PresumedLoc P = C.SM->getPresumedLoc(L, /*UseLineDirectives=*/false);
  if (P.isInvalid()) return "";
  return P.getFilename();
}
unsigned lineOf(const Ctx &C, SourceLocation L) {
  if (L.isInvalid()) return 0;
  L = C.SM->getExpansionLoc(L);
  return C.SM->getExpansionLineNumber(L);
}

bool underRoots(const std::string &F) {
  for (const auto &R : Roots)
    if (F.compare(0, R.size(), R) == 0) return true;
  return false;
}

std::string funcSig(const Ctx &C, const FunctionDecl *FD) {
  return tystr(C, FD->getType());
}

std::string templArgs(const Ctx &C, const FunctionDecl *FD) {
  std::string r;
  if (const auto *TA = FD->getTemplateSpecializationArgs()) {
    llvm::raw_string_ostream OS(r);
    for (unsigned i = 0; i < TA->size(); ++i) {
      if (i) OS << ",";
      TA->get(i).print(C.PP, OS, true);
    }
  }
  if (const auto *MD = dyn_cast<CXXMethodDecl>(FD)) {
    if (const auto *SD = dyn_cast<ClassTemplateSpecializationDecl>(MD->getParent())) {
      llvm::raw_string_ostream OS(r);
      OS << "@";
      const auto &TA = SD->getTemplateArgs();
      for (unsigned i = 0; i < TA.size(); ++i) {
        if (i) OS << ",";
        TA.get(i).print(C.PP, OS, true);
      }
    }
  }
  return r;
}

// ---------------------------------------------------------------------------
// Statement serialiser.
class Ser {
public:
  Ser(Ctx &C, json::OStream &J) : C(C), J(J) {}
  std::map<const Stmt *, unsigned> ids;
  std::map<const Decl *, unsigned> declIds;
  unsigned next = 1;
  unsigned curLine = 0;

  unsigned declId(const Decl *D) {
    auto it = declIds.find(D);
    if (it != declIds.end()) return it->second;
    unsigned v = declIds.size() + 1;
    declIds[D] = v;
    return v;
  }

  // Serialise S (or null); returns the id of the emitted node (0 for null).
  unsigned stmt(const Stmt *S) {
    if (!S) { J.value(nullptr); return 0; }
    // transparent wrappers
    if (const auto *E = dyn_cast<Expr>(S)) {
      const Expr *Inner = nullptr;
      if (const auto *P = dyn_cast<ParenExpr>(E)) Inner = P->getSubExpr();
      else if (const auto *IC = dyn_cast<ImplicitCastExpr>(E)) Inner = IC->getSubExpr();
      else if (const auto *FE = dyn_cast<FullExpr>(E)) Inner = FE->getSubExpr();
      else if (const auto *MT = dyn_cast<MaterializeTemporaryExpr>(E)) Inner = MT->getSubExpr();
      else if (const auto *BT = dyn_cast<CXXBindTemporaryExpr>(E)) Inner = BT->getSubExpr();
      else if (const auto *SN = dyn_cast<SubstNonTypeTemplateParmExpr>(E)) Inner = SN->getReplacement();
      else if (const auto *IL = dyn_cast<CXXStdInitializerListExpr>(E)) Inner = IL->getSubExpr();
      else if (const auto *OV = dyn_cast<OpaqueValueExpr>(E)) { if (OV->getSourceExpr()) Inner = OV->getSourceExpr(); }
      else if (const auto *CE = dyn_cast<CXXConstructExpr>(E)) {
        if (CE->isElidable() && CE->getNumArgs() == 1 && !isa<CXXTemporaryObjectExpr>(CE))
          Inner = CE->getArg(0);
      }
      if (Inner) {
        unsigned id = stmt(Inner);
        ids[S] = id;
        return id;
      }
    }
    if (const auto *AS = dyn_cast<AttributedStmt>(S)) {
      unsigned id = stmt(AS->getSubStmt());
      ids[S] = id;
      return id;
    }
    unsigned id = next++;
    ids[S] = id;
    unsigned savedLine = curLine;
    J.objectBegin();
    J.attribute("i", id);
    unsigned ln = lineOf(C, S->getBeginLoc());
    if (ln && ln != curLine) { J.attribute("l", ln); curLine = ln; }
    body(S);
    J.objectEnd();
    curLine = savedLine;
    return id;
  }

  void kid(const char *name, const Stmt *S) {
    J.attributeBegin(name);
    stmt(S);
    J.attributeEnd();
  }
  template <class It> void kids(const char *name, It b, It e) {
    J.attributeBegin(name);
    J.arrayBegin();
    for (; b != e; ++b) stmt(*b);
    J.arrayEnd();
    J.attributeEnd();
  }

  // The callee expression of a resolved call is not part of the tree; give it
  // id 0 so that the CFG element list skips it.
  void markCallee(const Expr *E) {
    while (E) {
      ids[E] = 0;
      if (const auto *P = dyn_cast<ParenExpr>(E)) E = P->getSubExpr();
      else if (const auto *IC = dyn_cast<ImplicitCastExpr>(E)) E = IC->getSubExpr();
      else break;
    }
  }

  void callee(const FunctionDecl *FD) {
    J.attribute("f", qname(FD));
    J.attribute("s", funcSig(C, FD));
    if (const auto *MD = dyn_cast<CXXMethodDecl>(FD)) {
      J.attribute("m", 1);
      if (MD->isVirtual()) J.attribute("virt", 1);
      if (MD->isStatic()) J.attribute("static", 1);
    }
    if (FD->isNoReturn()) J.attribute("noret", 1);
  }

  void varDecl(const VarDecl *VD) {
    J.objectBegin();
    J.attribute("k", "decl");
    J.attribute("n", VD->getIdentifier() ? VD->getName().str() : "");
    J.attribute("d", declId(VD));
    J.attribute("t", tystr(C, VD->getType()));
    J.attribute("ct", tystr(C, VD->getType().getCanonicalType()));
    if (VD->isStaticLocal()) J.attribute("static", 1);
    if (VD->hasInit()) {
      J.attributeBegin("init");
      stmt(VD->getInit());
      J.attributeEnd();
    }
    J.objectEnd();
  }

  void body(const Stmt *S) {
    // ---- statements
    if (const auto *X = dyn_cast<CompoundStmt>(S)) {
      J.attribute("k", "block");
      kids("s", X->body_begin(), X->body_end());
      return;
    }
    if (const auto *X = dyn_cast<DeclStmt>(S)) {
      J.attribute("k", "decls");
      J.attributeBegin("d");
      J.arrayBegin();
      for (const Decl *D : X->decls()) {
        if (const auto *VD = dyn_cast<VarDecl>(D)) varDecl(VD);
      }
      J.arrayEnd();
      J.attributeEnd();
      return;
    }
    if (const auto *X = dyn_cast<IfStmt>(S)) {
      J.attribute("k", "if");
      if (X->getInit()) kid("init", X->getInit());
      if (X->getConditionVariableDeclStmt()) kid("cv", X->getConditionVariableDeclStmt());
      kid("c", X->getCond());
      kid("then", X->getThen());
      if (X->getElse()) kid("else", X->getElse());
      return;
    }
    if (const auto *X = dyn_cast<WhileStmt>(S)) {
      J.attribute("k", "while");
      if (X->getConditionVariableDeclStmt()) kid("cv", X->getConditionVariableDeclStmt());
      kid("c", X->getCond());
      kid("body", X->getBody());
      return;
    }
    if (const auto *X = dyn_cast<DoStmt>(S)) {
      J.attribute("k", "do");
      kid("body", X->getBody());
      kid("c", X->getCond());
      return;
    }
    if (const auto *X = dyn_cast<ForStmt>(S)) {
      J.attribute("k", "for");
      kid("init", X->getInit());
      if (X->getConditionVariableDeclStmt()) kid("cv", X->getConditionVariableDeclStmt());
      kid("c", X->getCond());
      kid("inc", X->getInc());
      kid("body", X->getBody());
      return;
    }
    if (const auto *X = dyn_cast<CXXForRangeStmt>(S)) {
      J.attribute("k", "forrange");
      kid("range", X->getRangeInit());
      if (const VarDecl *LV = X->getLoopVariable()) {
        J.attribute("var", LV->getIdentifier() ? LV->getName().str() : "");
        J.attribute("vd", declId(LV));
        J.attribute("vt", tystr(C, LV->getType()));
      }
      J.attributeBegin("hid");
      J.arrayBegin();
      stmt(X->getRangeStmt());
      stmt(X->getBeginStmt());
      stmt(X->getEndStmt());
      stmt(X->getCond());
      stmt(X->getInc());
      stmt(X->getLoopVarStmt());
      J.arrayEnd();
      J.attributeEnd();
      kid("body", X->getBody());
      return;
    }
    if (const auto *X = dyn_cast<SwitchStmt>(S)) {
      J.attribute("k", "switch");
      if (X->getInit()) kid("init", X->getInit());
      kid("c", X->getCond());
      J.attribute("ct", tystr(C, X->getCond()->IgnoreParenImpCasts()->getType()));
      kid("body", X->getBody());
      return;
    }
    if (const auto *X = dyn_cast<CaseStmt>(S)) {
      J.attribute("k", "case");
      const Expr *L = X->getLHS();
      if (L && !L->isValueDependent()) {
        Expr::EvalResult R;
        if (L->EvaluateAsInt(R, *C.AC)) J.attribute("v", R.Val.getInt().getExtValue());
      }
      kid("lhs", L);
      if (X->getRHS()) kid("rhs", X->getRHS());
      kid("sub", X->getSubStmt());
      return;
    }
    if (const auto *X = dyn_cast<DefaultStmt>(S)) {
      J.attribute("k", "default");
      kid("sub", X->getSubStmt());
      return;
    }
    if (const auto *X = dyn_cast<ReturnStmt>(S)) {
      J.attribute("k", "ret");
      if (X->getRetValue()) kid("e", X->getRetValue());
      return;
    }
    if (isa<BreakStmt>(S)) { J.attribute("k", "break"); return; }
    if (isa<ContinueStmt>(S)) { J.attribute("k", "continue"); return; }
    if (isa<NullStmt>(S)) { J.attribute("k", "null_stmt"); return; }
    if (const auto *X = dyn_cast<GotoStmt>(S)) {
      J.attribute("k", "goto");
      J.attribute("n", X->getLabel()->getName().str());
      return;
    }
    if (const auto *X = dyn_cast<LabelStmt>(S)) {
      J.attribute("k", "label");
      J.attribute("n", std::string(X->getName()));
      kid("sub", X->getSubStmt());
      return;
    }
    // ---- expressions
    if (const auto *X = dyn_cast<CXXOperatorCallExpr>(S)) {
      J.attribute("k", "call");
      J.attribute("opc", 1);
      if (const FunctionDecl *FD = X->getDirectCallee()) { callee(FD); markCallee(X->getCallee()); }
      else kid("fe", X->getCallee());
      J.attribute("t", tystr(C, X->getType()));
      kids("a", X->arg_begin(), X->arg_end());
      return;
    }
    if (const auto *X = dyn_cast<CXXMemberCallExpr>(S)) {
      J.attribute("k", "call");
      if (const CXXMethodDecl *MD = X->getMethodDecl()) { callee(MD); markCallee(X->getCallee()); }
      else kid("fe", X->getCallee());
      J.attribute("t", tystr(C, X->getType()));
      if (const Expr *Obj = X->getImplicitObjectArgument()) {
        kid("this", Obj);
        QualType OT = Obj->IgnoreParenImpCasts()->getType();
        if (!OT.isNull() && OT->isPointerType()) OT = OT->getPointeeType();
        J.attribute("ot", tystr(C, OT.getUnqualifiedType()));
      }
      if (const auto *ME = dyn_cast<MemberExpr>(X->getCallee()->IgnoreParens()))
        if (ME->hasQualifier()) J.attribute("qual", 1);  // non-virtual dispatch
      kids("a", X->arg_begin(), X->arg_end());
      return;
    }
    if (const auto *X = dyn_cast<CallExpr>(S)) {
      J.attribute("k", "call");
      if (const FunctionDecl *FD = X->getDirectCallee()) { callee(FD); markCallee(X->getCallee()); }
      else kid("fe", X->getCallee());
      J.attribute("t", tystr(C, X->getType()));
      kids("a", X->arg_begin(), X->arg_end());
      return;
    }
    if (const auto *X = dyn_cast<CXXConstructExpr>(S)) {
      J.attribute("k", "ctor");
      callee(X->getConstructor());
      J.attribute("t", tystr(C, X->getType()));
      if (isa<CXXTemporaryObjectExpr>(X)) J.attribute("temp", 1);
      kids("a", X->arg_begin(), X->arg_end());
      return;
    }
    if (const auto *X = dyn_cast<MemberExpr>(S)) {
      J.attribute("k", "mem");
      const ValueDecl *MD = X->getMemberDecl();
      J.attribute("n", qname(MD));
      J.attribute("t", tystr(C, MD->getType()));
      if (X->isArrow()) J.attribute("arrow", 1);
      if (isa<CXXMethodDecl>(MD)) J.attribute("method", 1);
      kid("b", X->getBase());
      return;
    }
    if (const auto *X = dyn_cast<DeclRefExpr>(S)) {
      J.attribute("k", "ref");
      const ValueDecl *D = X->getDecl();
      J.attribute("n", qname(D));
      if (const auto *EC = dyn_cast<EnumConstantDecl>(D)) {
        J.attribute("dk", "enumc");
        J.attribute("v", EC->getInitVal().getExtValue());
        if (const auto *ED = dyn_cast<EnumDecl>(EC->getDeclContext()))
          J.attribute("en", qname(ED));
      } else if (const auto *VD = dyn_cast<VarDecl>(D)) {
        if (isa<ParmVarDecl>(VD)) J.attribute("dk", "param");
        else if (VD->isLocalVarDecl()) J.attribute("dk", "local");
        else J.attribute("dk", "global");
        if (VD->isLocalVarDeclOrParm()) J.attribute("d", declId(VD));
        J.attribute("t", tystr(C, VD->getType()));
      } else if (const auto *FD = dyn_cast<FunctionDecl>(D)) {
        J.attribute("dk", "func");
        J.attribute("s", funcSig(C, FD));
      } else {
        J.attribute("dk", "other");
        J.attribute("t", tystr(C, D->getType()));
      }
      return;
    }
    if (isa<CXXThisExpr>(S)) {
      J.attribute("k", "this");
      J.attribute("t", tystr(C, cast<Expr>(S)->getType()));
      return;
    }
    if (const auto *X = dyn_cast<BinaryOperator>(S)) {
      J.attribute("k", "bin");
      J.attribute("op", X->getOpcodeStr().str());
      kid("x", X->getLHS());
      kid("y", X->getRHS());
      if (X->isAdditiveOp() || X->isMultiplicativeOp())
        J.attribute("t", tystr(C, X->getType()));
      return;
    }
    if (const auto *X = dyn_cast<UnaryOperator>(S)) {
      J.attribute("k", "un");
      std::string op = UnaryOperator::getOpcodeStr(X->getOpcode()).str();
      if (X->isPostfix()) op = "post" + op;
      J.attribute("op", op);
      kid("e", X->getSubExpr());
      return;
    }
    if (const auto *X = dyn_cast<IntegerLiteral>(S)) {
      J.attribute("k", "int");
      llvm::APInt V = X->getValue();
      if (V.getActiveBits() <= 63) J.attribute("v", (int64_t)V.getZExtValue());
      else J.attribute("v", llvm::toString(V, 10, false));
      J.attribute("t", tystr(C, X->getType()));
      return;
    }
    if (const auto *X = dyn_cast<CharacterLiteral>(S)) {
      J.attribute("k", "chr");
      J.attribute("v", (int64_t)X->getValue());
      return;
    }
    if (const auto *X = dyn_cast<StringLiteral>(S)) {
      J.attribute("k", "str");
      if (X->getCharByteWidth() == 1) J.attribute("v", fixUtf8(X->getBytes()));
      else J.attribute("v", "");
      J.attribute("len", (int64_t)X->getLength());
      return;
    }
    if (const auto *X = dyn_cast<FloatingLiteral>(S)) {
      J.attribute("k", "flt");
      llvm::SmallString<32> Str;
      X->getValue().toString(Str, 0, 0);
      J.attribute("v", Str.str().str());
      J.attribute("exact", X->isExact() ? 1 : 0);
      J.attribute("t", tystr(C, X->getType()));
      return;
    }
    if (const auto *X = dyn_cast<CXXBoolLiteralExpr>(S)) {
      J.attribute("k", "bool");
      J.attribute("v", X->getValue() ? 1 : 0);
      return;
    }
    if (isa<CXXNullPtrLiteralExpr>(S) || isa<GNUNullExpr>(S)) {
      J.attribute("k", "nullp");
      return;
    }
    if (const auto *X = dyn_cast<ExplicitCastExpr>(S)) {
      J.attribute("k", "cast");
      J.attribute("ty", tystr(C, X->getTypeAsWritten()));
      J.attribute("ck", X->getCastKindName());
      kid("e", X->getSubExpr());
      return;
    }
    if (const auto *X = dyn_cast<ConditionalOperator>(S)) {
      J.attribute("k", "cond");
      kid("c", X->getCond());
      kid("x", X->getTrueExpr());
      kid("y", X->getFalseExpr());
      return;
    }
    if (const auto *X = dyn_cast<ArraySubscriptExpr>(S)) {
      J.attribute("k", "idx");
      kid("b", X->getBase());
      kid("x", X->getIdx());
      J.attribute("bt", tystr(C, X->getBase()->IgnoreParenImpCasts()->getType()));
      return;
    }
    if (const auto *X = dyn_cast<CXXNewExpr>(S)) {
      J.attribute("k", "new");
      J.attribute("ty", tystr(C, X->getAllocatedType()));
      if (X->isArray() && X->getArraySize()) kid("n", *X->getArraySize());
      if (X->getInitializer()) kid("e", X->getInitializer());
      return;
    }
    if (const auto *X = dyn_cast<CXXDeleteExpr>(S)) {
      J.attribute("k", "delete");
      kid("e", X->getArgument());
      return;
    }
    if (const auto *X = dyn_cast<LambdaExpr>(S)) {
      J.attribute("k", "lambda");
      kid("body", X->getBody());
      return;
    }
    if (const auto *X = dyn_cast<UnaryExprOrTypeTraitExpr>(S)) {
      J.attribute("k", "sizeof");
      J.attribute("ty", tystr(C, X->getTypeOfArgument()));
      Expr::EvalResult R;
      if (!X->isValueDependent() && X->EvaluateAsInt(R, *C.AC))
        J.attribute("v", R.Val.getInt().getExtValue());
      return;
    }
    if (const auto *X = dyn_cast<CXXDefaultArgExpr>(S)) {
      J.attribute("k", "defarg");
      kid("e", X->getExpr());
      return;
    }
    if (const auto *X = dyn_cast<CXXDefaultInitExpr>(S)) {
      J.attribute("k", "definit");
      kid("e", X->getExpr());
      return;
    }
    if (const auto *X = dyn_cast<InitListExpr>(S)) {
      const InitListExpr *Sem = X->isSemanticForm() ? X : (X->getSemanticForm() ? X->getSemanticForm() : X);
      J.attribute("k", "init");
      J.attribute("t", tystr(C, Sem->getType()));
      J.attributeBegin("a");
      J.arrayBegin();
      for (const Expr *E : Sem->inits()) stmt(E);
      J.arrayEnd();
      J.attributeEnd();
      return;
    }
    if (isa<ImplicitValueInitExpr>(S) || isa<CXXScalarValueInitExpr>(S)) {
      J.attribute("k", "zero");
      J.attribute("t", tystr(C, cast<Expr>(S)->getType()));
      return;
    }
    if (const auto *X = dyn_cast<UnresolvedLookupExpr>(S)) {
      J.attribute("k", "unres");
      J.attribute("n", X->getName().getAsString());
      return;
    }
    if (const auto *X = dyn_cast<UnresolvedMemberExpr>(S)) {
      J.attribute("k", "unres");
      J.attribute("n", X->getMemberName().getAsString());
      if (!X->isImplicitAccess()) kid("b", X->getBase());
      return;
    }
    if (const auto *X = dyn_cast<CXXDependentScopeMemberExpr>(S)) {
      J.attribute("k", "unres");
      J.attribute("n", X->getMember().getAsString());
      if (!X->isImplicitAccess()) kid("b", X->getBase());
      return;
    }
    if (const auto *X = dyn_cast<DependentScopeDeclRefExpr>(S)) {
      J.attribute("k", "unres");
      J.attribute("n", X->getDeclName().getAsString());
      return;
    }
    if (const auto *X = dyn_cast<PredefinedExpr>(S)) {
      J.attribute("k", "str");
      J.attribute("v", X->getFunctionName() ? fixUtf8(X->getFunctionName()->getBytes()) : "");
      return;
    }
    // generic fallback
    J.attribute("k", "x");
    J.attribute("c", S->getStmtClassName());
    if (const auto *E = dyn_cast<Expr>(S)) J.attribute("t", tystr(C, E->getType()));
    J.attributeBegin("kids");
    J.arrayBegin();
    for (const Stmt *Ch : S->children()) stmt(Ch);
    J.arrayEnd();
    J.attributeEnd();
  }

private:
  Ctx &C;
  json::OStream &J;
};

// ---------------------------------------------------------------------------
class Visitor : public RecursiveASTVisitor<Visitor> {
public:
  Visitor(Ctx &C, llvm::raw_ostream &OS) : C(C), OS(OS) {}
  bool shouldVisitTemplateInstantiations() const { return true; }
  bool shouldVisitImplicitCode() const { return false; }

  std::set<std::string> seen;

  void emit(char kind, const std::string &key, const std::string &js) {
    if (!seen.insert(std::string(1, kind) + key).second) return;
    OS << kind << '\t' << key << '\t' << js << '\n';
  }

  void methodFlags(json::OStream &J, const FunctionDecl *FD) {
    if (const auto *MD = dyn_cast<CXXMethodDecl>(FD)) {
      J.attribute("rec", qname(MD->getParent()));
      if (MD->isVirtual()) J.attribute("virt", 1);
      if (MD->isPure()) J.attribute("pure", 1);
      if (MD->isStatic()) J.attribute("static", 1);
      if (MD->isConst()) J.attribute("const", 1);
      if (isa<CXXConstructorDecl>(MD)) J.attribute("kind", "ctor");
      else if (isa<CXXDestructorDecl>(MD)) J.attribute("kind", "dtor");
      else if (isa<CXXConversionDecl>(MD)) J.attribute("kind", "conv");
      else J.attribute("kind", "method");
      J.attribute("acc", (int)MD->getAccess());
      J.attributeBegin("ov");
      J.arrayBegin();
      for (const CXXMethodDecl *O : MD->overridden_methods())
        J.value(qname(O) + "|" + funcSig(C, O));
      J.arrayEnd();
      J.attributeEnd();
    } else {
      J.attribute("kind", "func");
    }
    if (FD->isDeleted()) J.attribute("deleted", 1);
    if (FD->isDefaulted()) J.attribute("defaulted", 1);
    if (FD->isExternC()) J.attribute("externC", 1);
    if (FD->isNoReturn()) J.attribute("noret", 1);
    if (FD->getStorageClass() == SC_Static || FD->isInAnonymousNamespace())
      J.attribute("internal", 1);
    if (FD->isInlined()) J.attribute("inline", 1);
  }

  bool VisitFunctionDecl(FunctionDecl *FD) {
    std::string file = fileOf(C, FD->getLocation());
    if (!underRoots(file)) return true;
    if (isa<CXXDeductionGuideDecl>(FD)) return true;
    std::string qn = qname(FD);
    std::string sig = funcSig(C, FD);
    std::string ta = templArgs(C, FD);
    bool hasBody = FD->doesThisDeclarationHaveABody() && FD->getBody();
    {
      std::string js;
      llvm::raw_string_ostream SS(js);
      json::OStream J(SS);
      J.objectBegin();
      J.attribute("n", qn);
      J.attribute("s", sig);
      J.attribute("file", file);
      J.attribute("line", lineOf(C, FD->getLocation()));
      methodFlags(J, FD);
      J.attribute("def", hasBody ? 1 : 0);
      J.objectEnd();
      SS.flush();
      emit('D', qn + "|" + sig + "|" + ta + "|" + file + ":" + std::to_string(lineOf(C, FD->getLocation())), js);
    }
    if (!hasBody) return true;
    std::string key = qn + "|" + sig + "|" + ta + "|" + file;
    if (seen.count("F" + key)) return true;

    std::string js;
    llvm::raw_string_ostream SS(js);
    json::OStream J(SS);
    Ser ser(C, J);
    J.objectBegin();
    J.attribute("n", qn);
    J.attribute("s", sig);
    if (!ta.empty()) J.attribute("targs", ta);
    J.attribute("file", file);
    J.attribute("line", lineOf(C, FD->getLocation()));
    J.attribute("endline", lineOf(C, FD->getEndLoc()));
    J.attribute("ret", tystr(C, FD->getReturnType()));
    methodFlags(J, FD);
    if (FD->isDependentContext()) J.attribute("dependent", 1);
    J.attributeBegin("params");
    J.arrayBegin();
    for (const ParmVarDecl *P : FD->parameters()) {
      J.objectBegin();
      J.attribute("n", P->getIdentifier() ? P->getName().str() : "");
      J.attribute("d", ser.declId(P));
      J.attribute("t", tystr(C, P->getType()));
      J.objectEnd();
    }
    J.arrayEnd();
    J.attributeEnd();
    if (const auto *CD = dyn_cast<CXXConstructorDecl>(FD)) {
      J.attributeBegin("inits");
      J.arrayBegin();
      for (const CXXCtorInitializer *I : CD->inits()) {
        J.objectBegin();
        if (I->isAnyMemberInitializer()) {
          J.attribute("m", qname(I->getAnyMember()));
          J.attribute("t", tystr(C, I->getAnyMember()->getType()));
        } else if (I->isBaseInitializer()) {
          J.attribute("base", tystr(C, QualType(I->getBaseClass(), 0)));
        } else if (I->isDelegatingInitializer()) {
          J.attribute("delegating", 1);
        }
        J.attribute("written", I->isWritten() ? 1 : 0);
        J.attributeBegin("e");
        ser.stmt(I->getInit());
        J.attributeEnd();
        J.objectEnd();
      }
      J.arrayEnd();
      J.attributeEnd();
    }
    J.attributeBegin("body");
    ser.stmt(FD->getBody());
    J.attributeEnd();

    // CFG
    CFG::BuildOptions BO;
    BO.setAllAlwaysAdd();
    BO.AddInitializers = true;
    BO.AddEHEdges = false;
    BO.AddImplicitDtors = false;
    BO.AddTemporaryDtors = false;
    BO.PruneTriviallyFalseEdges = true;
    std::unique_ptr<CFG> G = CFG::buildCFG(FD, FD->getBody(), C.AC, BO);
    if (G) {
      J.attributeBegin("cfg");
      J.objectBegin();
      J.attribute("entry", G->getEntry().getBlockID());
      J.attribute("exit", G->getExit().getBlockID());
      J.attributeBegin("blocks");
      J.arrayBegin();
      for (const CFGBlock *B : *G) {
        J.objectBegin();
        J.attribute("b", B->getBlockID());
        J.attributeBegin("e");
        J.arrayBegin();
        unsigned last = 0;
        for (const CFGElement &El : *B) {
          if (auto CS = El.getAs<CFGStmt>()) {
            const Stmt *S = CS->getStmt();
            auto it = ser.ids.find(S);
            if (it != ser.ids.end()) {
              if (it->second != last && it->second != 0) { J.value(it->second); last = it->second; }
            } else {
              last = ser.stmt(S);
            }
          } else if (auto CI = El.getAs<CFGInitializer>()) {
            const CXXCtorInitializer *I = CI->getInitializer();
            J.objectBegin();
            J.attribute("k", "cinit");
            if (I->isAnyMemberInitializer()) J.attribute("m", qname(I->getAnyMember()));
            else if (I->isBaseInitializer()) J.attribute("base", tystr(C, QualType(I->getBaseClass(), 0)));
            auto it = ser.ids.find(I->getInit());
            if (it != ser.ids.end()) J.attribute("e", it->second);
            J.objectEnd();
            last = 0;
          }
        }
        J.arrayEnd();
        J.attributeEnd();
        if (const Stmt *T = B->getTerminatorStmt()) {
          auto it = ser.ids.find(T);
          if (it != ser.ids.end()) J.attribute("t", it->second);
          J.attribute("tk", T->getStmtClassName());
          if (const auto *BOp = dyn_cast<BinaryOperator>(T)) J.attribute("top", BOp->getOpcodeStr().str());
        }
        if (const Stmt *Cond = B->getTerminatorCondition(false)) {
          auto it = ser.ids.find(Cond);
          if (it != ser.ids.end()) J.attribute("c", it->second);
        }
        if (const Stmt *L = B->getLabel()) {
          auto it = ser.ids.find(L);
          if (it != ser.ids.end()) J.attribute("lab", it->second);
        }
        if (B->hasNoReturnElement()) J.attribute("nr", 1);
        J.attributeBegin("s");
        J.arrayBegin();
        for (auto SI = B->succ_begin(); SI != B->succ_end(); ++SI) {
          if (const CFGBlock *R = SI->getReachableBlock()) J.value(R->getBlockID());
          else J.value(nullptr);
        }
        J.arrayEnd();
        J.attributeEnd();
        bool anyU = false;
        for (auto SI = B->succ_begin(); SI != B->succ_end(); ++SI)
          if (!SI->getReachableBlock() && SI->getPossiblyUnreachableBlock()) anyU = true;
        if (anyU) {
          J.attributeBegin("u");
          J.arrayBegin();
          for (auto SI = B->succ_begin(); SI != B->succ_end(); ++SI) {
            if (!SI->getReachableBlock() && SI->getPossiblyUnreachableBlock())
              J.value(SI->getPossiblyUnreachableBlock()->getBlockID());
            else J.value(nullptr);
          }
          J.arrayEnd();
          J.attributeEnd();
        }
        J.objectEnd();
      }
      J.arrayEnd();
      J.attributeEnd();
      J.objectEnd();
      J.attributeEnd();
    }
    J.objectEnd();
    SS.flush();
    emit('F', key, js);
    return true;
  }

  bool VisitCXXRecordDecl(CXXRecordDecl *RD) {
    if (!RD->isThisDeclarationADefinition()) return true;
    std::string file = fileOf(C, RD->getLocation());
    if (!underRoots(file)) return true;
    if (RD->isLambda()) return true;
    std::string qn = qname(RD);
    std::string js;
    llvm::raw_string_ostream SS(js);
    json::OStream J(SS);
    Ser ser(C, J);
    J.objectBegin();
    J.attribute("n", qn);
    J.attribute("file", file);
    J.attribute("line", lineOf(C, RD->getLocation()));
    J.attribute("tag", RD->getKindName().str());
    if (RD->isDependentContext()) J.attribute("dependent", 1);
    J.attributeBegin("bases");
    J.arrayBegin();
    for (const CXXBaseSpecifier &B : RD->bases()) {
      J.objectBegin();
      const CXXRecordDecl *BD = B.getType()->getAsCXXRecordDecl();
      J.attribute("n", BD ? qname(BD) : tystr(C, B.getType()));
      J.attribute("acc", (int)B.getAccessSpecifier());
      if (B.isVirtual()) J.attribute("virt", 1);
      J.objectEnd();
    }
    J.arrayEnd();
    J.attributeEnd();
    J.attributeBegin("fields");
    J.arrayBegin();
    for (const Decl *D : RD->decls()) {
      if (const auto *FD = dyn_cast<FieldDecl>(D)) {
        J.objectBegin();
        J.attribute("n", FD->getIdentifier() ? FD->getName().str() : "");
        J.attribute("t", tystr(C, FD->getType()));
        J.attribute("ct", tystr(C, FD->getType().getCanonicalType()));
        J.attribute("acc", (int)FD->getAccess());
        J.attribute("line", lineOf(C, FD->getLocation()));
        if (FD->hasInClassInitializer() && FD->getInClassInitializer()) {
          J.attributeBegin("init");
          ser.stmt(FD->getInClassInitializer());
          J.attributeEnd();
        }
        J.objectEnd();
      } else if (const auto *VD = dyn_cast<VarDecl>(D)) {
        J.objectBegin();
        J.attribute("n", VD->getIdentifier() ? VD->getName().str() : "");
        J.attribute("t", tystr(C, VD->getType()));
        J.attribute("static", 1);
        J.attribute("acc", (int)VD->getAccess());
        J.objectEnd();
      }
    }
    J.arrayEnd();
    J.attributeEnd();
    J.attributeBegin("methods");
    J.arrayBegin();
    for (const Decl *D : RD->decls()) {
      const FunctionDecl *FD = dyn_cast<FunctionDecl>(D);
      if (const auto *FT = dyn_cast<FunctionTemplateDecl>(D)) FD = FT->getTemplatedDecl();
      if (!FD || FD->isImplicit()) continue;
      J.objectBegin();
      J.attribute("n", qname(FD));
      J.attribute("s", funcSig(C, FD));
      J.attribute("line", lineOf(C, FD->getLocation()));
      methodFlags(J, FD);
      if (const auto *CD = dyn_cast<CXXConstructorDecl>(FD)) {
        if (CD->isCopyConstructor()) J.attribute("copy", 1);
        if (CD->isMoveConstructor()) J.attribute("move", 1);
        if (CD->isDefaultConstructor()) J.attribute("default_ctor", 1);
      }
      if (const auto *MD = dyn_cast<CXXMethodDecl>(FD)) {
        if (MD->isCopyAssignmentOperator()) J.attribute("copy_assign", 1);
        if (MD->isMoveAssignmentOperator()) J.attribute("move_assign", 1);
        if (MD->isUserProvided()) J.attribute("user_provided", 1);
      }
      J.objectEnd();
    }
    J.arrayEnd();
    J.attributeEnd();
    if (!RD->isDependentContext()) {
      J.attribute("udcc", RD->hasUserDeclaredCopyConstructor() ? 1 : 0);
      J.attribute("udca", RD->hasUserDeclaredCopyAssignment() ? 1 : 0);
      J.attribute("uddt", RD->hasUserDeclaredDestructor() ? 1 : 0);
    }
    J.objectEnd();
    SS.flush();
    emit('R', qn + "|" + file, js);
    return true;
  }

  bool VisitEnumDecl(EnumDecl *ED) {
    if (!ED->isThisDeclarationADefinition()) return true;
    std::string file = fileOf(C, ED->getLocation());
    if (!underRoots(file)) return true;
    std::string qn = qname(ED);
    if (!ED->getIdentifier()) qn += "(anon@" + std::to_string(lineOf(C, ED->getLocation())) + ")";
    std::string js;
    llvm::raw_string_ostream SS(js);
    json::OStream J(SS);
    J.objectBegin();
    J.attribute("n", qn);
    J.attribute("file", file);
    J.attribute("line", lineOf(C, ED->getLocation()));
    if (ED->isScoped()) J.attribute("scoped", 1);
    J.attributeBegin("consts");
    J.arrayBegin();
    for (const EnumConstantDecl *EC : ED->enumerators()) {
      J.objectBegin();
      J.attribute("n", EC->getName().str());
      J.attribute("q", qname(EC));
      J.attribute("v", EC->getInitVal().getExtValue());
      J.attribute("line", lineOf(C, EC->getLocation()));
      J.objectEnd();
    }
    J.arrayEnd();
    J.attributeEnd();
    J.objectEnd();
    SS.flush();
    emit('E', qn + "|" + file, js);
    return true;
  }

  bool VisitTypedefNameDecl(TypedefNameDecl *TD) {
    std::string file = fileOf(C, TD->getLocation());
    if (!underRoots(file)) return true;
    if (isa<FunctionDecl>(TD->getDeclContext())) return true;
    std::string qn = qname(TD);
    std::string js;
    llvm::raw_string_ostream SS(js);
    json::OStream J(SS);
    J.objectBegin();
    J.attribute("n", qn);
    J.attribute("file", file);
    J.attribute("line", lineOf(C, TD->getLocation()));
    J.attribute("t", tystr(C, TD->getUnderlyingType()));
    J.attribute("ct", tystr(C, TD->getUnderlyingType().getCanonicalType()));
    J.objectEnd();
    SS.flush();
    emit('T', qn + "|" + file, js);
    return true;
  }

  bool VisitVarDecl(VarDecl *VD) {
    if (VD->isLocalVarDeclOrParm()) return true;
    if (isa<ParmVarDecl>(VD)) return true;
    std::string file = fileOf(C, VD->getLocation());
    if (!underRoots(file)) return true;
    if (!VD->isThisDeclarationADefinition() && !VD->hasInit()) return true;
    std::string qn = qname(VD);
    std::string js;
    llvm::raw_string_ostream SS(js);
    json::OStream J(SS);
    Ser ser(C, J);
    J.objectBegin();
    J.attribute("n", qn);
    J.attribute("file", file);
    J.attribute("line", lineOf(C, VD->getLocation()));
    J.attribute("t", tystr(C, VD->getType()));
    J.attribute("ct", tystr(C, VD->getType().getCanonicalType()));
    if (VD->getStorageClass() == SC_Static) J.attribute("internal", 1);
    if (VD->hasInit() && !VD->getInit()->isValueDependent()) {
      J.attributeBegin("init");
      ser.stmt(VD->getInit());
      J.attributeEnd();
    }
    J.objectEnd();
    SS.flush();
    emit('G', qn + "|" + file, js);
    return true;
  }

private:
  Ctx &C;
  llvm::raw_ostream &OS;
};

class Consumer : public ASTConsumer {
public:
  void HandleTranslationUnit(ASTContext &AC) override {
    if (AC.getDiagnostics().hasErrorOccurred()) {
      llvm::errs() << "ivf-facts: errors in unit, no facts written\n";
      return;
    }
    std::error_code EC;
    llvm::raw_fd_ostream OS(OutFile, EC);
    if (EC) { llvm::errs() << "ivf-facts: cannot open " << OutFile << "\n"; return; }
    Ctx C;
    C.AC = &AC;
    C.SM = &AC.getSourceManager();
    C.PP = PrintingPolicy(AC.getLangOpts());
    C.PP.SuppressTagKeyword = true;
    C.PP.Bool = true;
    C.PP.SuppressInlineNamespace = true;
    C.PP.SuppressUnwrittenScope = true;
    Visitor V(C, OS);
    V.TraverseDecl(AC.getTranslationUnitDecl());
    OS << "Z\tend\t{}\n";
  }
};

class Action : public ASTFrontendAction {
public:
  std::unique_ptr<ASTConsumer> CreateASTConsumer(CompilerInstance &, llvm::StringRef) override {
    return std::make_unique<Consumer>();
  }
};

} // namespace

int main(int argc, const char **argv) {
  auto Exp = CommonOptionsParser::create(argc, argv, Cat);
  if (!Exp) { llvm::errs() << Exp.takeError(); return 2; }
  ClangTool Tool(Exp->getCompilations(), Exp->getSourcePathList());
  int rc = Tool.run(newFrontendActionFactory<Action>().get());
  return rc ? 2 : 0;
}
