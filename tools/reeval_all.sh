#!/bin/bash
# Re-evaluate every filed seed: apply it to /repo, run all quick checks, undo it.  About 1.75 h for 170 seeds; nothing else
# may touch /repo meanwhile.  Result: one line per seed in $1 (default /var/tmp/reeval_all.txt).
cd /verif
OUT=${1:-/var/tmp/reeval_all.txt}; : > $OUT
for d in seeded/S*-C*/; do
  s=$(basename $d); p=${s#*-}
  if ! git -C /repo apply --check /verif/$d/patch.diff 2>/dev/null; then echo "$s NOAPPLY" >> $OUT; continue; fi
  python3 tools/eval_seed.py $s $p - > /var/tmp/re-all-$s.log 2>&1
  echo "$s $(python3 -c "import json;m=json.load(open('seeded/$s/meta.json'));print(sorted(m.get('caught_by') or []))")" >> $OUT
done
git -C /repo checkout -- . 2>/dev/null
echo DONE >> $OUT
