"""Fact database: functions (body tree + CFG), records, enums, typedefs,
globals, declarations — and the tree / CFG algorithms the rules share."""
import re
from collections import defaultdict

from . import prep

CHILD_KEYS = ("s", "d", "init", "cv", "c", "then", "else", "body", "inc", "range",
              "hid", "lhs", "rhs", "sub", "e", "fe", "this", "a", "b", "x", "y",
              "n_", "kids")


def children(node):
    """Direct child nodes (dicts with 'k') of a node, in source order."""
    out = []
    for key, v in node.items():
        if key in ("i", "l", "k", "t", "ct", "f", "v"):
            continue
        if isinstance(v, dict):
            if "k" in v:
                out.append(v)
        elif isinstance(v, list):
            for x in v:
                if isinstance(x, dict) and "k" in x:
                    out.append(x)
    return out


def walk(node):
    """Pre-order walk of a subtree (the node itself first)."""
    stack = [node]
    while stack:
        n = stack.pop()
        yield n
        ch = children(n)
        stack.extend(reversed(ch))


def peel(n):
    """See through copy/conversion constructors of std iterators and similar
    value-preserving wrappers, casts to the same thing, and default-arg nodes."""
    while n is not None:
        k = n.get("k")
        if k == "ctor" and len(n.get("a", [])) == 1 and not n.get("temp"):
            f = n.get("f", "")
            if f.startswith("std::_") or f.startswith("__gnu_cxx::") or "iterator" in f:
                n = n["a"][0]
                continue
            # copy construction T(const T&)
            t = n.get("t", "")
            a = n["a"][0]
            if a.get("k") in ("ref", "mem") and a.get("t", "").replace("const ", "").rstrip(" &") == t.replace("const ", ""):
                n = a
                continue
            return n
        if k in ("defarg", "definit"):
            n = n["e"]
            continue
        return n
    return n


def strip_casts(n):
    n = peel(n)
    while n is not None and n.get("k") == "cast":
        n = peel(n["e"])
    return n


_BINPREC = {"*": 5, "/": 5, "%": 5, "+": 6, "-": 6, "<<": 7, ">>": 7, "<": 9, ">": 9,
            "<=": 9, ">=": 9, "==": 10, "!=": 10, "&": 11, "^": 12, "|": 13, "&&": 14,
            "||": 15, "=": 16}


def show(n, depth=0):
    """Compact C-like rendering of a node, for reports."""
    if n is None:
        return ""
    if depth > 12:
        return "…"
    k = n.get("k")
    d = depth + 1
    if k == "call":
        f = n.get("f") or ("(*%s)" % show(n.get("fe"), d))
        args = n.get("a", [])
        short = f.split("::")[-1]
        if n.get("opc") and short.startswith("operator") and len(args) == 2 and short not in ("operator()", "operator[]"):
            return "%s %s %s" % (show(args[0], d), short[8:], show(args[1], d))
        if n.get("opc") and short == "operator[]" and len(args) == 2:
            return "%s[%s]" % (show(args[0], d), show(args[1], d))
        if n.get("opc") and len(args) == 1:
            return "%s%s" % (short[8:], show(args[0], d))
        if "this" in n:
            th = show(n["this"], d)
            pre = "" if th == "this" else th + ("->" if n["this"].get("t", "").endswith("*") else ".")
            return "%s%s(%s)" % (pre, short, ", ".join(show(a, d) for a in args))
        return "%s(%s)" % (f, ", ".join(show(a, d) for a in args))
    if k == "ctor":
        a = n.get("a", [])
        if len(a) == 1:
            return show(a[0], d)
        return "%s(%s)" % (n.get("t", "?"), ", ".join(show(x, d) for x in a))
    if k == "mem":
        b = n.get("b")
        name = n["n"].split("::")[-1]
        if b is None or b.get("k") == "this":
            return name
        return "%s%s%s" % (show(b, d), "->" if n.get("arrow") else ".", name)
    if k == "ref":
        return n["n"]
    if k == "this":
        return "this"
    if k == "bin":
        return "%s %s %s" % (show(n["x"], d), n["op"], show(n["y"], d))
    if k == "un":
        op = n["op"]
        if op.startswith("post"):
            return show(n["e"], d) + op[4:]
        return op + show(n["e"], d)
    if k in ("int", "chr", "bool"):
        return str(n.get("v"))
    if k == "flt":
        return str(n.get("v"))
    if k == "str":
        return '"%s"' % n.get("v", "").replace("\n", "\\n")
    if k == "nullp":
        return "nullptr"
    if k == "cast":
        return "(%s)%s" % (n.get("ty"), show(n["e"], d))
    if k == "cond":
        return "%s ? %s : %s" % (show(n["c"], d), show(n["x"], d), show(n["y"], d))
    if k == "idx":
        return "%s[%s]" % (show(n["b"], d), show(n["x"], d))
    if k == "ret":
        return "return %s" % show(n.get("e"), d)
    if k == "decls":
        return "; ".join("%s %s%s" % (x["t"], x["n"], (" = " + show(x["init"], d)) if "init" in x else "") for x in n["d"])
    if k == "decl":
        return "%s %s" % (n["t"], n["n"])
    if k in ("defarg", "definit"):
        return show(n["e"], d)
    if k == "new":
        return "new %s(%s)" % (n.get("ty"), show(n.get("e"), d))
    if k == "delete":
        return "delete " + show(n["e"], d)
    if k == "if":
        return "if (%s) …" % show(n["c"], d)
    if k == "init":
        return "{%s}" % ", ".join(show(a, d) for a in n.get("a", []))
    if k == "sizeof":
        return "sizeof(%s)" % n.get("ty")
    return "<%s>" % k


class Block:
    __slots__ = ("id", "elems", "term", "tk", "top", "cond", "cond_full", "joined", "succs", "unreach", "label", "noret", "preds")

    def __init__(self, d):
        self.id = d["b"]
        self.elems = d.get("e", [])
        self.term = d.get("t")
        self.tk = d.get("tk")
        self.top = d.get("top")
        self.cond = d.get("c")
        self.cond_full = self.cond
        self.joined = False
        self.succs = d.get("s", [])
        self.unreach = d.get("u")
        self.label = d.get("lab")
        self.noret = bool(d.get("nr"))
        self.preds = []


class Function:
    def __init__(self, key, d):
        self.key = key
        self.d = d
        self.name = d["n"]
        self.sig = d["s"]
        self.file = d["file"]
        self.line = d["line"]
        self.rec = d.get("rec")
        self.kind = d.get("kind")
        self.body = d.get("body")
        self.params = d.get("params", [])
        self._nodes = None
        self._parent = None
        self._cfg = None
        self._line = None

    def __repr__(self):
        return "<Function %s %s>" % (self.name, self.loc())

    def loc(self, node=None):
        if node is None:
            return "%s:%d" % (self.relfile(), self.line)
        return "%s:%d" % (self.relfile(), self.line_of(node))

    def relfile(self):
        f = self.file
        for pre in (prep.SRC + "/", "/repo/src/"):
            if f.startswith(pre):
                return "src/" + f[len(pre):]
        return f

    # ---- node index
    def _index(self):
        nodes, parent, line = {}, {}, {}
        roots = []
        if self.body:
            roots.append(self.body)
        for ini in self.d.get("inits", []):
            if ini.get("e"):
                roots.append(ini["e"])
        cfg = self.d.get("cfg")
        if cfg:
            for b in cfg["blocks"]:
                for e in b.get("e", []):
                    if isinstance(e, dict) and "i" in e:
                        roots.append(e)
        for r in roots:
            stack = [(r, None, self.line)]
            while stack:
                n, p, ln = stack.pop()
                if "i" in n:
                    if n["i"] in nodes and nodes[n["i"]] is not n:
                        pass
                    nodes[n["i"]] = n
                    if p is not None:
                        parent[n["i"]] = p
                    ln = n.get("l", ln)
                    line[n["i"]] = ln
                    pid = n["i"]
                else:
                    pid = p  # 'decl' entries have no id of their own
                for c in children(n):
                    stack.append((c, pid, ln))
        self._nodes, self._parent, self._line = nodes, parent, line

    @property
    def nodes(self):
        if self._nodes is None:
            self._index()
        return self._nodes

    @property
    def parent(self):
        if self._parent is None:
            self._index()
        return self._parent

    def line_of(self, node):
        if self._line is None:
            self._index()
        if isinstance(node, int):
            return self._line.get(node, self.line)
        if "i" in node:
            return self._line.get(node["i"], self.line)
        return node.get("l", self.line)

    def walk(self):
        if self.body:
            for n in walk(self.body):
                yield n
        for ini in self.d.get("inits", []):
            if ini.get("e"):
                for n in walk(ini["e"]):
                    yield n

    def calls(self, name=None):
        for n in self.walk():
            if n.get("k") in ("call", "ctor"):
                if name is None or n.get("f") == name:
                    yield n

    def ancestors(self, node):
        i = node["i"] if isinstance(node, dict) else node
        par = self.parent
        while i in par:
            i = par[i]
            yield self.nodes[i]

    def is_descendant(self, node_id, anc_id):
        par = self.parent
        i = node_id
        while i in par:
            i = par[i]
            if i == anc_id:
                return True
        return False

    # ---- CFG
    @property
    def cfg(self):
        if self._cfg is None:
            self._cfg = CFG(self)
        return self._cfg


class CFG:
    def __init__(self, fn):
        self.fn = fn
        c = fn.d.get("cfg")
        if not c:
            raise prep.AnalysisBroken("no CFG for " + fn.name)
        self.entry = c["entry"]
        self.exit = c["exit"]
        self.blocks = {}
        for bd in c["blocks"]:
            b = Block(bd)
            # inline (non-tree) elements: replace by their id
            el = []
            for e in b.elems:
                if isinstance(e, dict):
                    if "i" in e:
                        el.append(e["i"])
                    elif e.get("k") == "cinit" and "e" in e:
                        el.append(e["e"])
                else:
                    el.append(e)
            b.elems = el
            # A two-way block whose terminator condition is a short-circuit tree
            # either is *wired* (clang split the tree over blocks; this block
            # evaluates only the right-most leaf) or *joined* (the tree was
            # evaluated as a value, e.g. under an ExprWithCleanups, and this
            # block branches on the joined result).  Decided below, once all
            # blocks are known.
            b.cond_full = b.cond
            self.blocks[b.id] = b
        for b in self.blocks.values():
            for s in b.succs:
                if s is not None:
                    self.blocks[s].preds.append(b.id)
        self._block_of = None
        self._dom = None
        for b in self.blocks.values():
            b.joined = False
            if b.cond is None or len(b.succs) != 2:
                continue
            c = fn.nodes.get(b.cond)
            c = peel(c) if c is not None else None
            leaf = c
            while leaf is not None and leaf.get("k") == "bin" and leaf.get("op") in ("&&", "||"):
                leaf = peel(leaf["y"])
            if leaf is None or leaf is c or "i" not in leaf:
                continue
            where = self.block_of.get(leaf["i"])
            if where is not None and where[0] == b.id:
                b.cond = leaf["i"]          # wired
            else:
                b.joined = True             # keep the full condition

    def edge_facts(self):
        """Yield (block, succ index, atom, truth): taking that edge implies
        `atom` evaluates to `truth`.  Negations are folded; for joined
        short-circuit conditions the true edge implies every conjunct and the
        false edge refutes every disjunct."""
        fn = self.fn
        for bid, b in self.blocks.items():
            if b.cond is None or len(b.succs) != 2:
                continue
            c = fn.nodes.get(b.cond)
            if c is None:
                continue
            for idx, truth in ((0, True), (1, False)):
                for atom, t in implied(c, truth):
                    yield bid, idx, atom, t

    # element id -> block id (first occurrence)
    @property
    def block_of(self):
        if self._block_of is None:
            m = {}
            for b in self.blocks.values():
                for pos, e in enumerate(b.elems):
                    m.setdefault(e, (b.id, pos))
            self._block_of = m
        return self._block_of

    def locate(self, node):
        """(block id, position) of the CFG element for node, or of its nearest
        enclosing element."""
        if isinstance(node, dict) and "i" not in node:
            return None         # a declarator record inside a `decls` node: not an element of its own
        i = node["i"] if isinstance(node, dict) else node
        bo = self.block_of
        par = self.fn.parent
        while True:
            if i in bo:
                return bo[i]
            if i not in par:
                return None
            i = par[i]

    def edges(self):
        for b in self.blocks.values():
            for idx, s in enumerate(b.succs):
                if s is not None:
                    yield (b.id, idx, s)

    def edge_label(self, bid, idx):
        """'T'/'F' for two-way branches; ('case', values…) / 'default' for switch."""
        b = self.blocks[bid]
        if b.tk == "SwitchStmt":
            s = b.succs[idx]
            if s is None:
                return None
            lab = self.blocks[s].label
            if lab is None:
                return "default"  # falls out of the switch (no default label)
            ln = self.fn.nodes.get(lab)
            if ln is None:
                return "?"
            if ln["k"] == "default":
                return "default"
            vals = []
            # consecutive case labels nest: case A: case B: stmt
            cur = ln
            while cur is not None and cur.get("k") in ("case", "default"):
                if cur["k"] == "case":
                    vals.append(cur.get("v"))
                else:
                    vals.append("default")
                cur = cur.get("sub")
            return ("case",) + tuple(vals)
        if len(b.succs) == 2 and b.cond is not None:
            return "T" if idx == 0 else "F"
        return None

    def reachable(self, start=None, cut_edges=(), cut_blocks=()):
        """Blocks reachable from start without traversing cut edges
        ((block, succ-index) pairs) or entering cut blocks."""
        if start is None:
            start = self.entry
        cut_edges = set(cut_edges)
        cut_blocks = set(cut_blocks)
        seen = set()
        stack = [start]
        while stack:
            b = stack.pop()
            if b in seen or b in cut_blocks:
                continue
            seen.add(b)
            if self.blocks[b].noret:
                continue        # abort()/exit(): control does not continue to the exit block
            for idx, s in enumerate(self.blocks[b].succs):
                if s is None or (b, idx) in cut_edges:
                    continue
                stack.append(s)
        return seen

    def dominators(self):
        if self._dom is not None:
            return self._dom
        ids = list(self.blocks)
        reach = self.reachable()
        dom = {b: set(reach) for b in reach}
        dom[self.entry] = {self.entry}
        changed = True
        order = sorted(reach, reverse=True)
        while changed:
            changed = False
            for b in order:
                if b == self.entry:
                    continue
                ps = [p for p in self.blocks[b].preds if p in reach]
                if not ps:
                    continue
                new = set.intersection(*(dom[p] for p in ps)) | {b}
                if new != dom[b]:
                    dom[b] = new
                    changed = True
        self._dom = dom
        return dom

    def roots(self, bid):
        """Element ids of block that are not sub-expressions of a later element
        of the same block (top-level evaluation units, in order)."""
        b = self.blocks[bid]
        fn = self.fn
        elems = b.elems
        covered = set()
        out = []
        eset = set(elems)
        for e in reversed(elems):
            if e in covered:
                continue
            out.append(e)
            n = fn.nodes.get(e)
            if n is not None:
                for sub in walk(n):
                    if "i" in sub and sub["i"] in eset:
                        covered.add(sub["i"])
        out.reverse()
        return out


def implied(node, truth):
    """Leaf facts implied by `node == truth`: [(atom, truth)]."""
    n = peel(node)
    if n is None:
        return []
    if n.get("k") == "un" and n.get("op") == "!":
        return implied(n["e"], not truth)
    if n.get("k") == "call" and n.get("opc") and n.get("f", "").endswith("operator!") and len(n.get("a", [])) == 1:
        return implied(n["a"][0], not truth)
    if n.get("k") == "bin" and n.get("op") == "&&":
        return (implied(n["x"], True) + implied(n["y"], True)) if truth else []
    if n.get("k") == "bin" and n.get("op") == "||":
        return (implied(n["x"], False) + implied(n["y"], False)) if not truth else []
    return [(n, truth)]


def cond_atom(fn, node):
    """Strip logical negations from a branch condition.
    Returns (atom, positive) — `positive` False means the condition is !atom."""
    pos = True
    n = peel(node)
    while n is not None and n.get("k") == "un" and n.get("op") == "!":
        pos = not pos
        n = peel(n["e"])
    if n is not None and n.get("k") == "call" and n.get("opc") and n.get("f", "").endswith("operator!") and len(n.get("a", [])) == 1:
        pos = not pos
        n = peel(n["a"][0])
    return n, pos


class DB:
    def __init__(self, raw):
        self.raw = raw
        self.meta = raw["meta"]
        self.functions = [Function(k, d) for k, d in raw["F"].items()]
        self.by_name = defaultdict(list)
        for f in self.functions:
            self.by_name[f.name].append(f)
        self.records = {}
        for k, d in raw["R"].items():
            # prefer non-dependent / first definition
            self.records.setdefault(d["n"], d)
        self.enums = {}
        for k, d in raw["E"].items():
            self.enums.setdefault(d["n"], d)
        self.typedefs = {}
        for k, d in raw["T"].items():
            self.typedefs.setdefault(d["n"], d)
        self.globals = {}
        for k, d in raw["G"].items():
            self.globals.setdefault(d["n"], d)
        self.decls = defaultdict(list)
        for k, d in raw["D"].items():
            self.decls[d["n"]].append(d)
        self._overriders = None
        self._callgraph = None

    # ---- lookup helpers
    def fn(self, name, sig_contains=None, file_contains=None):
        """The unique function definition with this qualified name (optionally
        narrowed); AnalysisBroken if the anchor is gone or ambiguous."""
        c = self.by_name.get(name, [])
        if sig_contains is not None:
            c = [f for f in c if sig_contains in f.sig]
        if file_contains is not None:
            c = [f for f in c if file_contains in f.file]
        if not c:
            raise prep.AnalysisBroken("anchor function not found: %s%s" % (
                name, (" [%s]" % sig_contains) if sig_contains else ""))
        if len(c) > 1:
            raise prep.AnalysisBroken("anchor function ambiguous: %s (%s)" % (
                name, ", ".join(f.sig for f in c)))
        return c[0]

    def fns(self, name):
        return list(self.by_name.get(name, []))

    def record(self, name):
        r = self.records.get(name)
        if r is None:
            raise prep.AnalysisBroken("anchor record not found: " + name)
        return r

    def enum(self, name):
        e = self.enums.get(name)
        if e is None:
            raise prep.AnalysisBroken("anchor enum not found: " + name)
        return e

    def methods_of(self, rec):
        return [f for f in self.functions if f.rec == rec]

    def functions_in(self, file_suffixes):
        out = []
        for f in self.functions:
            if any(f.file.endswith(s) for s in file_suffixes):
                out.append(f)
        return out

    # ---- virtual dispatch
    @property
    def overriders(self):
        """method key 'qname|sig' -> set of keys overriding it (transitively)."""
        if self._overriders is None:
            direct = defaultdict(set)
            for d in self.raw["D"].values():
                for o in d.get("ov", []):
                    direct[o].add(d["n"] + "|" + d["s"])
            clos = {}

            def close(k, seen):
                out = set()
                for x in direct.get(k, ()):
                    if x in seen:
                        continue
                    seen.add(x)
                    out.add(x)
                    out |= close(x, seen)
                return out
            for k in list(direct):
                clos[k] = close(k, set())
            self._overriders = clos
        return self._overriders

    # ---- call graph over function definitions
    @property
    def callgraph(self):
        """Function key -> set of callee keys (direct + virtual overriders +
        functions whose address is taken)."""
        if self._callgraph is None:
            by_ns = defaultdict(list)
            for f in self.functions:
                by_ns[f.name + "|" + f.sig].append(f.key)
            g = {}
            for f in self.functions:
                out = set()
                for n in f.walk():
                    k = n.get("k")
                    if k in ("call", "ctor") and "f" in n:
                        ks = n["f"] + "|" + n.get("s", "")
                        out.update(by_ns.get(ks, ()))
                        if n.get("virt") and not n.get("qual"):
                            for o in self.overriders.get(ks, ()):
                                out.update(by_ns.get(o, ()))
                    elif k == "ref" and n.get("dk") == "func":
                        out.update(by_ns.get(n["n"] + "|" + n.get("s", ""), ()))
                    elif k == "mem" and n.get("method"):
                        pass
                    elif k == "new":
                        pass
                g[f.key] = out
            # destructors: `delete x` / scope exit are not modelled (no rule needs them)
            self._callgraph = g
        return self._callgraph

    def closure(self, roots, stop=()):
        """Keys of functions reachable from the root Functions."""
        g = self.callgraph
        seen = set()
        stack = [r.key for r in roots]
        stop = set(stop)
        while stack:
            k = stack.pop()
            if k in seen or k in stop:
                continue
            seen.add(k)
            stack.extend(g.get(k, ()))
        return seen

    def by_key(self):
        return {f.key: f for f in self.functions}


_DB = None


def load(src=None, use_cache=True):
    global _DB
    if _DB is None or src is not None:
        raw = prep.load_raw(src or prep.SRC, use_cache=use_cache)
        db = DB(raw)
        if src is not None:
            return db
        _DB = db
    return _DB
