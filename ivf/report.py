"""Check protocol: obligations, known findings, evidence, exit codes.

exit 0  every obligation discharged (known findings excepted)
exit 1  VIOLATION property=<id> replay=<path>   (an obligation failed that
        known_findings.txt does not list)
exit 2  ANALYSIS-BROKEN (anchor gone / extractor failed / instance floor not met)
"""
import json
import os
import re
import sys
import time

from . import prep

VERIF = prep.VERIF
KNOWN = os.path.join(VERIF, "known_findings.txt")


def load_known():
    """known: property=<id> key=<rule|function|instance> <text>
       fixed: property=<id> <commit> <text>         (suppresses nothing)"""
    known = {}
    if not os.path.exists(KNOWN):
        return known
    with open(KNOWN) as f:
        for line in f:
            line = line.strip()
            if not line.startswith("known:"):
                continue
            m = re.match(r"known:\s+property=(\S+)\s+key=(\S+)\s+(.*)$", line)
            if m:
                known[(m.group(1), m.group(2))] = m.group(3)
    return known


class Ctx:
    def __init__(self, prop, tier, db, seed=0):
        self.prop = prop
        self.tier = tier
        self.db = db
        self.seed = seed
        self.obligations = []   # dicts: rule, key, ok, site, detail
        self.floors = []        # (rule, what, count, minimum)
        self.infos = []
        self.rules = {}         # rule id -> one-line statement
        self.t0 = time.time()
        self.extra = {}

    def rule(self, rid, text):
        self.rules[rid] = text

    def ob(self, rule, instance, ok, site="", detail=""):
        """Record one obligation.  `instance` is the stable identity
        (function + role; no line numbers); `site` is file:line for humans."""
        key = "%s|%s" % (rule, instance)
        key = re.sub(r"\s+", "_", key)
        self.obligations.append({"rule": rule, "key": key, "ok": bool(ok),
                                 "site": site, "detail": detail})
        return bool(ok)

    def floor(self, rule, what, count, minimum):
        self.floors.append((rule, what, count, minimum))

    def info(self, text):
        self.infos.append(text)

    def broken(self, why):
        raise prep.AnalysisBroken(why)


def finish(ctx, level, explanation, trusted_base, assumptions, checker_cmd):
    prop = ctx.prop
    known = load_known()
    out_lines = []
    # floors: a rule that matched too few sites must not pass vacuously
    floor_fail = ["%s: %s = %d, below the confirmed floor %d" % (rule, what, count, minimum)
                  for rule, what, count, minimum in ctx.floors if count < minimum]
    failed = [o for o in ctx.obligations if not o["ok"]]
    # de-duplicate identical keys (same instance reported twice)
    seen = set()
    uniq = []
    for o in failed:
        if o["key"] in seen:
            continue
        seen.add(o["key"])
        uniq.append(o)
    failed = uniq
    viols, knowns = [], []
    for o in failed:
        if (prop, o["key"]) in known:
            knowns.append(o)
        else:
            viols.append(o)
    if floor_fail and not viols:
        # nothing concrete to report, and the rule saw fewer sites than confirmed by hand
        raise prep.AnalysisBroken("; ".join(floor_fail))
    for ff in floor_fail:
        out_lines.append("note: " + ff)
    for o in knowns:
        out_lines.append("KNOWN-FINDING: property=%s %s at %s: %s" % (prop, o["key"], o["site"], o["detail"]))
    stale = [k for (p, k) in known if p == prop and k not in {o["key"] for o in failed}]
    for k in stale:
        out_lines.append("note: known finding no longer reported (fixed or moved?): %s" % k)
    replay_dir = os.path.join(VERIF, "replay")
    os.makedirs(replay_dir, exist_ok=True)
    for n, o in enumerate(viols):
        rp = os.path.join(replay_dir, "%s-%d.json" % (prop, n))
        with open(rp, "w") as f:
            json.dump({"property": prop, "rule": o["rule"], "rule_text": ctx.rules.get(o["rule"], ""),
                       "instance": o["key"], "site": o["site"], "detail": o["detail"],
                       "rerun": "./check %s --tier %s" % (prop, ctx.tier)}, f, indent=1)
        out_lines.append("  %s  %s  %s" % (o["rule"], o["site"], o["detail"]))
        out_lines.append("VIOLATION property=%s replay=%s" % (prop, rp))

    n_ob = len(ctx.obligations)
    n_ok = sum(1 for o in ctx.obligations if o["ok"])
    wall = round(time.time() - ctx.t0, 3)
    samples = []
    per_rule = {}
    for o in ctx.obligations:
        r = per_rule.setdefault(o["rule"], {"obligations": 0, "discharged": 0})
        r["obligations"] += 1
        r["discharged"] += 1 if o["ok"] else 0
    shown = set()
    for o in ctx.obligations:
        if o["rule"] in shown and o["ok"]:
            continue
        if len(samples) >= 40:
            break
        shown.add(o["rule"])
        samples.append({"rule": o["rule"], "instance": o["key"], "site": o["site"],
                        "ok": o["ok"], "detail": o["detail"][:300]})
    distinct = len({o["key"] for o in ctx.obligations})
    cov = {
        "evaluations": n_ob,
        "distinct_nontrivial": distinct,
        "rule": "one evaluation = one obligation (rule x instance) decided on the resolved AST/CFG of /repo's working tree; "
                "distinct = distinct (rule, instance) keys; every obligation names a concrete site, so all are non-trivial",
        "samples": samples,
        "obligations": n_ob,
        "discharged": n_ok,
        "known_findings": [o["key"] for o in knowns],
        "checker_cmd": checker_cmd,
        "trusted_base": trusted_base,
        "explanation": explanation,
        "exhaustive": True,
        "per_rule": per_rule,
        "rules": ctx.rules,
        "floors": [{"rule": r, "what": w, "count": c, "minimum": m} for r, w, c, m in ctx.floors],
        "analysed": {
            "units": len(ctx.db.meta["units"]),
            "functions_with_bodies": len(ctx.db.functions),
            "records": len(ctx.db.records),
            "cache": ctx.db.meta.get("cache"),
            "units_extracted_this_run": ctx.db.meta.get("units_extracted"),
        },
        "notes": ctx.infos[:60],
    }
    cov.update(ctx.extra)
    ev = {
        "property_id": prop,
        "tier": ctx.tier,
        "seed": ctx.seed,
        "level": level if not knowns or level != "proof" else "other",
        "coverage": cov,
        "assumptions": assumptions,
        "wall_s": wall,
        "violations": len(viols),
    }
    os.makedirs(os.path.join(VERIF, "evidence"), exist_ok=True)
    with open(os.path.join(VERIF, "evidence", prop + ".json"), "w") as f:
        json.dump(ev, f, indent=1, sort_keys=True)
    print("%s tier=%s obligations=%d discharged=%d known=%d violations=%d wall=%.1fs" % (
        prop, ctx.tier, n_ob, n_ok, len(knowns), len(viols), wall))
    for rid in sorted(per_rule):
        print("  %-7s %3d/%-3d  %s" % (rid, per_rule[rid]["discharged"], per_rule[rid]["obligations"], ctx.rules.get(rid, "")[:110]))
    for l in out_lines:
        print(l)
    return 1 if viols else 0
