"""prep: derive the analysed program from /repo's *current working tree*.

  units   <- the *_SOURCES lists in src/*/CMakeLists.txt (parsed, not globbed)
  flags   <- ivf/flags.json (the real build's -std/-D/-I)
  bison   <- cppBison.cxx/.h regenerated from cppBison.yxx into scratch
  facts   <- bin/ivf-facts on every unit, 16 in parallel, one file per unit
  cache   <- /verif/.cache/<sha256 of every input>.pkl

Any failure here is "analysis broken" (exit 2), never a pass or a violation.
"""
import hashlib
import json
import os
import pickle
import re
import shutil
import subprocess
import sys
import tempfile
import time
from concurrent.futures import ThreadPoolExecutor

VERIF = os.path.dirname(os.path.dirname(os.path.abspath(__file__)))
REPO = os.environ.get("IVF_REPO", "/repo")
SRC = os.path.join(REPO, "src")
TOOL = os.path.join(VERIF, "bin", "ivf-facts")
CACHE = os.path.join(VERIF, ".cache")
BISON_TAG = "<bison>"


class AnalysisBroken(Exception):
    pass


def _read(p):
    with open(p, "rb") as f:
        return f.read()


def load_flags():
    with open(os.path.join(VERIF, "ivf", "flags.json")) as f:
        return json.load(f)


def cmake_list(text, var):
    m = re.search(r"set\(\s*" + re.escape(var) + r"\b(.*?)\)", text, re.S)
    if not m:
        raise AnalysisBroken("CMake list %s not found" % var)
    body = re.sub(r"#[^\n]*", "", m.group(1))
    return body.split()


def unit_list(flags, src=SRC):
    """[(dir, path-or-@bison)] in build order."""
    units = []
    for d, lists in flags["source_lists"].items():
        cm = os.path.join(src, d, "CMakeLists.txt")
        if not os.path.exists(cm):
            raise AnalysisBroken("missing " + cm)
        text = _read(cm).decode()
        for var in lists:
            for item in cmake_list(text, var):
                if item.startswith("${CMAKE_CURRENT_BINARY_DIR}/"):
                    if item.endswith("cppBison.cxx"):
                        units.append((d, "@bison"))
                        continue
                    raise AnalysisBroken("unknown generated source " + item)
                p = os.path.join(src, d, item)
                if not os.path.exists(p):
                    raise AnalysisBroken("listed source missing: " + p)
                units.append((d, p))
        for extra in flags.get("extra_units", {}).get(d, []):
            p = os.path.join(src, d, extra)
            if not os.path.exists(p):
                raise AnalysisBroken("listed source missing: " + p)
            # confirm the CMake file still builds it
            if extra not in text:
                raise AnalysisBroken("%s no longer named in %s" % (extra, cm))
            units.append((d, p))
    # unit groups that are not build targets (sources pasted into generated code): own flag set, sources of another directory
    for d, extras in flags.get("extra_units", {}).items():
        if d in flags["source_lists"]:
            continue
        cfg = flags["dirs"][d]
        cm = os.path.join(src, cfg["listed_in"], "CMakeLists.txt")
        text = _read(cm).decode() if os.path.exists(cm) else ""
        for extra in extras:
            p = os.path.join(src, cfg["src_dir"], extra)
            if not os.path.exists(p):
                raise AnalysisBroken("listed source missing: " + p)
            if extra not in text:
                raise AnalysisBroken("%s no longer named in %s" % (extra, cm))
            units.append((d, p))
    return units


def _python_include():
    r = subprocess.run(["python3", "-c", "import sysconfig; print(sysconfig.get_paths()['include'])"], stdout=subprocess.PIPE, stderr=subprocess.PIPE)
    inc = r.stdout.decode().strip()
    if r.returncode != 0 or not os.path.exists(os.path.join(inc, "Python.h")):
        raise AnalysisBroken("Python.h not found (needed to analyse the py_*.cxx runtime sources)")
    return inc


def tree_hash(src=SRC):
    h = hashlib.sha256()
    for root, dirs, files in os.walk(src):
        dirs.sort()
        for fn in sorted(files):
            if fn.endswith((".prebuilt", ".pyi", ".md", ".tau", ".mm")):
                continue
            p = os.path.join(root, fn)
            h.update(p.encode())
            h.update(b"\0")
            h.update(_read(p))
            h.update(b"\0")
    for extra in (TOOL, os.path.join(VERIF, "ivf", "flags.json"),
                  os.path.join(VERIF, "ivf", "prep.py")):
        if os.path.exists(extra):
            h.update(_read(extra))
    return h.hexdigest()


def scratch_dir():
    base = os.environ.get("TMPDIR") or "/var/tmp"
    return tempfile.mkdtemp(prefix="ivf.", dir=base)


def run_bison(flags, scratch, src=SRC):
    yxx = os.path.join(src, "cppparser", "cppBison.yxx")
    if not os.path.exists(yxx):
        raise AnalysisBroken("missing " + yxx)
    r = subprocess.run(flags["bison_cmd"] + [yxx], cwd=scratch,
                       stdout=subprocess.PIPE, stderr=subprocess.PIPE)
    if r.returncode != 0 or not os.path.exists(os.path.join(scratch, "cppBison.cxx")):
        raise AnalysisBroken("bison failed: " + r.stderr.decode()[-2000:])


def unit_cmd(flags, d, path, scratch, out, src=SRC):
    cfg = flags["dirs"][d]
    args = [TOOL, "-o", out, "-root", src, "-root", scratch, path, "--"]
    args += flags["common"] + cfg["defs"]
    for inc in cfg["inc"]:
        if inc == "@stubs":
            args.append("-I" + os.path.join(VERIF, "ivf", "stubs", "panda3d_runtime"))
        else:
            args.append("-I" + (scratch if inc == "@bison" else os.path.join(src, inc)))
    for inc in cfg.get("isystem", []):
        args += ["-isystem", _python_include() if inc == "@python" else inc]
    args += ["-resource-dir", flags["resource_dir"]]
    return args


def _headers_hash(src, scratch):
    h = hashlib.sha256()
    for root, dirs, files in os.walk(src):
        dirs.sort()
        for fn in sorted(files):
            if fn.endswith((".h", ".I", ".yxx", ".T")):
                p = os.path.join(root, fn)
                h.update(os.path.relpath(p, src).encode())
                h.update(b"\0")
                h.update(_read(p))
                h.update(b"\0")
    h.update(_read(os.path.join(scratch, "cppBison.h")))
    for extra in (TOOL, os.path.join(VERIF, "ivf", "flags.json")):
        h.update(_read(extra))
    h.update(b"v3")
    return h.hexdigest()


NORM_SRC = "/repo/src"


def _parse_unit(out, src, scratch):
    """Parse one unit's fact file into {kind: {key: obj}} with normalised paths."""
    tbl = {"F": {}, "D": {}, "R": {}, "E": {}, "T": {}, "G": {}}
    with open(out, "r", encoding="utf-8", errors="replace") as f:
        for line in f:
            if scratch in line:
                line = line.replace(scratch, BISON_TAG)
            if src != NORM_SRC and src in line:
                line = line.replace(src, NORM_SRC)
            kind, key, js = line.rstrip("\n").split("\t", 2)
            if kind == "Z":
                continue
            tbl[kind][key] = js
    return tbl


def extract(src=SRC, verbose=False):
    """Run the extractor over every unit (per-unit cache); returns merged facts."""
    flags = load_flags()
    if not os.path.exists(TOOL):
        raise AnalysisBroken("extractor not built (run ./setup.sh)")
    src = os.path.realpath(src)
    units = unit_list(flags, src)
    scratch = scratch_dir()
    ucache = os.path.join(CACHE, "units")
    os.makedirs(ucache, exist_ok=True)
    t0 = time.time()
    try:
        run_bison(flags, scratch, src)
        hh = _headers_hash(src, scratch)
        jobs = []
        for n, (d, p) in enumerate(units):
            path = os.path.join(scratch, "cppBison.cxx") if p == "@bison" else p
            rel = "@bison" if p == "@bison" else os.path.relpath(p, src)
            uk = hashlib.sha256((hh + "|" + d + "|" + rel + "|").encode() + _read(path)).hexdigest()
            out = os.path.join(scratch, "u%03d.facts" % n)
            jobs.append({"dir": d, "path": path, "rel": rel, "out": out, "key": uk,
                         "cmd": unit_cmd(flags, d, path, scratch, out, src),
                         "pkl": os.path.join(ucache, uk + ".pkl")})
        todo = [j for j in jobs if not os.path.exists(j["pkl"])]

        def run(job):
            r = subprocess.run(job["cmd"], stdout=subprocess.PIPE, stderr=subprocess.PIPE)
            ok = r.returncode == 0 and os.path.exists(job["out"])
            if ok:
                with open(job["out"], "rb") as f:
                    f.seek(max(0, os.path.getsize(job["out"]) - 16))
                    ok = f.read().endswith(b"Z\tend\t{}\n")
            if not ok:
                return job, r.stderr.decode(errors="replace")[-1500:] or "no output"
            tbl = _parse_unit(job["out"], src, scratch)
            tmp = job["pkl"] + ".tmp.%d" % os.getpid()
            with open(tmp, "wb") as f:
                pickle.dump(tbl, f, protocol=pickle.HIGHEST_PROTOCOL)
            os.replace(tmp, job["pkl"])
            os.remove(job["out"])
            return job, None

        failed = []
        with ThreadPoolExecutor(max_workers=int(os.environ.get("IVF_JOBS", "16"))) as ex:
            for job, err in ex.map(run, todo):
                if err:
                    failed.append((job["rel"], err))
        if failed:
            raise AnalysisBroken("extractor failed on %d unit(s): %s" % (
                len(failed), "; ".join("%s: %s" % f for f in failed[:3])))

        raw = {"F": {}, "D": {}, "R": {}, "E": {}, "T": {}, "G": {}}
        for j in jobs:
            try:
                with open(j["pkl"], "rb") as f:
                    tbl = pickle.load(f)
            except (FileNotFoundError, EOFError):
                # evicted or still being written by a concurrent run: extract this unit again
                _, err = run(j)
                if err:
                    raise AnalysisBroken("extractor failed on %s: %s" % (j["rel"], err))
                with open(j["pkl"], "rb") as f:
                    tbl = pickle.load(f)
            os.utime(j["pkl"])
            for kind, t in tbl.items():
                dst = raw[kind]
                for key, js in t.items():
                    if key not in dst:
                        dst[key] = js
        for kind in raw:
            tbl = raw[kind]
            for key in tbl:
                tbl[key] = json.loads(tbl[key])
        meta = {
            "units": [(j["dir"], j["rel"]) for j in jobs],
            "units_extracted": len(todo),
            "grammar": _read(os.path.join(src, "cppparser", "cppBison.yxx")).decode(errors="replace"),
            # bison's own numbering of the actions: `case N: /* lhs: rhs  */` in the generated parser
            "bison_cases": {int(m.group(1)): (m.group(2), m.group(3).strip()) for m in re.finditer(
                r"^\s*case (\d+): /\* ([A-Za-z_0-9$@]+): (.*?)\*/\s*$",
                _read(os.path.join(scratch, "cppBison.cxx")).decode(errors="replace"), flags=re.M)},
            "extract_wall_s": round(time.time() - t0, 2),
            "src": src,
        }
        raw["meta"] = meta
        # bound the per-unit cache
        ents = []
        for e in os.listdir(ucache):
            if not e.endswith(".pkl"):
                continue
            try:
                ents.append((os.path.getmtime(os.path.join(ucache, e)), e))
            except OSError:
                pass
        ents.sort()
        for _, e in ents[:-1200]:
            try:
                os.remove(os.path.join(ucache, e))
            except OSError:
                pass
        return raw
    finally:
        shutil.rmtree(scratch, ignore_errors=True)


def load_raw(src=SRC, use_cache=True):
    if os.path.realpath(src) != os.path.realpath(SRC):
        raw = extract(src)          # scratch trees: per-unit cache only
        raw["meta"]["cache"] = "scratch"
        return raw
    key = tree_hash(src)
    os.makedirs(CACHE, exist_ok=True)
    path = os.path.join(CACHE, key + ".pkl")
    if use_cache and os.path.exists(path):
        try:
            with open(path, "rb") as f:
                raw = pickle.load(f)
            raw["meta"]["cache"] = "hit"
            return raw
        except Exception:
            pass
    # serialise concurrent extractions of the same tree (16 checks at once)
    lock = path + ".lock"
    import fcntl
    with open(lock, "w") as lf:
        fcntl.flock(lf, fcntl.LOCK_EX)
        if use_cache and os.path.exists(path):
            with open(path, "rb") as f:
                raw = pickle.load(f)
            raw["meta"]["cache"] = "hit"
            return raw
        raw = extract(src)
        raw["meta"]["cache"] = "miss"
        raw["meta"]["tree_hash"] = key
        tmp = path + ".tmp.%d" % os.getpid()
        with open(tmp, "wb") as f:
            pickle.dump(raw, f, protocol=pickle.HIGHEST_PROTOCOL)
        os.replace(tmp, path)
        # keep the cache small
        ents = sorted((os.path.getmtime(os.path.join(CACHE, e)), e)
                      for e in os.listdir(CACHE) if e.endswith(".pkl"))
        for _, e in ents[:-4]:
            try:
                os.remove(os.path.join(CACHE, e))
                os.remove(os.path.join(CACHE, e + ".lock"))
            except OSError:
                pass
    return raw


if __name__ == "__main__":
    t = time.time()
    try:
        raw = load_raw(use_cache="--no-cache" not in sys.argv)
    except AnalysisBroken as e:
        print("ANALYSIS-BROKEN:", e)
        sys.exit(2)
    print("units=%d functions=%d decls=%d records=%d enums=%d typedefs=%d globals=%d cache=%s wall=%.1fs" % (
        len(raw["meta"]["units"]), len(raw["F"]), len(raw["D"]), len(raw["R"]),
        len(raw["E"]), len(raw["T"]), len(raw["G"]), raw["meta"]["cache"], time.time() - t))
