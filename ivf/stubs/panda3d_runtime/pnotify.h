#ifndef STUB_PNOTIFY_H
#define STUB_PNOTIFY_H
#include "dtoolbase.h"
#include <assert.h>
#include <iostream>
#include <string>
#define nout (std::cerr)
class Notify {
public:
  static Notify *ptr() { static Notify n; return &n; }
  bool has_assert_failed() const { return _failed; }
  const std::string &get_assert_error_message() const { return _msg; }
  void clear_assert_failed() { _failed = false; _msg.clear(); }
  static std::ostream &out() { return std::cerr; }
  bool _failed = false;
  std::string _msg;
};
#define nassertr(c, r) { if (!(c)) { Notify::ptr()->_failed = true; Notify::ptr()->_msg = #c; return r; } }
#define nassertv(c) { if (!(c)) { Notify::ptr()->_failed = true; Notify::ptr()->_msg = #c; return; } }
#define nassertd(c) if (!(c))
#define nassertr_always(c, r) nassertr(c, r)
#define nassertv_always(c) nassertv(c)
#define nassert_raise(m) { Notify::ptr()->_failed = true; Notify::ptr()->_msg = m; }
#define nassert_static(c) static_assert(c, #c)
#endif
