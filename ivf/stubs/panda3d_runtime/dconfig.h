#ifndef STUB_DCONFIG_H
#define STUB_DCONFIG_H
#include "dtoolbase.h"
#define Configure(name) 
#define ConfigureDef(name) 
#define ConfigureDecl(name, a, b)
#define ConfigureFn(name) static void name##_unused_config_fn()
#endif
