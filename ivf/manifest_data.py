"""Per-property manifest entries (source of MANIFEST.json; see tools/gen_manifest.py)."""

NOTES = ("Static analysis only: every verdict is computed from /repo's current source (clang 14 resolved AST + CFG, "
         "bison grammar) without running interrogate or its output.  Exit 0 held / 1 VIOLATION / 2 analysis broken "
         "(anchor gone, extractor failure, instance floor not met).  Partially claimed properties state in "
         "level_claimed.text which clause is decided; the behavioural remainder is not.")

PENDING = "check not built yet in this round (see DESIGN.md section 3 for the planned rules); not claimed until it is"

CLAIMED = {
    "C12": {
        "level": "proof",
        "design_ref": "DESIGN.md section 3, C12 (R12.1-R12.4)",
        "technique": "AST/CFG rules: writer-reader I/O event mirror, copy-completeness, version-gate layout, error-flag reachability",
        "text": ("Decides the structural clauses of C12 for every record class and every path of the readers: "
                 "output()/input() mirror each other field-for-field in order and encoding (incl. the file header and the six "
                 "record sections); every serialised field survives the copies read_new makes; minor-version gates appear "
                 "only in readers, nested and increasing up to the current minor, gating exactly the tail of the writer's scalar "
                 "run with zero defaults; every failure branch of load_latest sets the error flag, read() is not attempted on a "
                 "version mismatch and merge_from is unreachable after a failed read_new or a range mismatch.  Not decided: "
                 "byte-level behaviour of idf_input_string on arbitrary bytes, byte identity of re-serialisation."),
        "note": "Trusted: clang 14 AST/CFG, libstdc++ iostream semantics, equivalence of per-file units with the unity build, NDEBUG as shipped.",
    },
    "C11": {
        # "other", not "proof": one obligation (R11.8, the next_index emitted before renumbering) is a recorded known finding
        "level": "other",
        "design_ref": "DESIGN.md section 3, C11 (R11.1, R11.2, R11.4)",
        "technique": "AST rules: index-field coverage of every remap_indices, renumbering order, header/entry accessor agreement",
        "text": ("Decides the closure clauses of C11 that are visible in the code's shape: every index-typed field (found by its "
                 "typedef sugar, so a newly added one is included) of every record, of the database and of the builder state read "
                 "after renumbering is rewritten from map_from(<same lvalue>); wrappers are renumbered first, one step per entry, from "
                 "the literal 1; InterfaceMakerC::write_function_header and FunctionRemap::make_wrapper_entry take name, return type "
                 "(same void test) and every parameter type from the same accessors.  Not decided: correctness of the indices the "
                 "builder stored before renumbering, distinctness of unique names (run-time hash values)."),
        "note": "Trusted: clang 14 AST/CFG; typedef sugar identifies index fields; std::map iteration order.  The rules are exhaustive over their instances (every index field, every reader loop ...), but the level is `other` because one obligation is a known finding (F-C11c) rather than discharged.",
    },
    "C20": {
        "level": "proof",
        "design_ref": "DESIGN.md section 3, C20 (R20.1-R20.6)",
        "technique": "CFG gated reachability (bounds / found-edge domination), abstract range-progress check, interface call-closure",
        "text": ("Decides totality of the query interface structurally: every subscript indexed by a parameter is reachable only "
                 "through n >= 0 and n < size() of the same container and out-of-range paths return a neutral value; index lookups "
                 "dereference the find() result only when found and otherwise return a static default-constructed record whose scalar "
                 "fields the constructor initialises; both bisection recursions shrink their range on every call; string positions in "
                 "interrogatedb are size-guarded; each of the 164 extern \"C\" functions is defined and composed only of get_ptr(), "
                 "total database members, record accessors and c_str() on non-temporaries; each count function counts the container "
                 "its accessor subscripts.  Not decided: exactness of by-name lookups on particular contents (std::map trusted)."),
        "note": "Trusted: clang 14 AST/CFG, std::map/vector semantics, valid C strings from callers, NDEBUG.",
    },
    "C13": {
        "level": "proof",
        "design_ref": "DESIGN.md section 3, C13 (R13.1-R13.4)",
        "technique": "CFG dominance (check_latest before table reads), post-dominance of cache reset, table/bit/freshen agreement, merge-loop coverage",
        "text": ("Decides the freshness and coverage clauses of C13: in every query member of InterrogateDatabase check_latest() dominates "
                 "every read of a primary table or by-name cache (so a query issued after a later load request sees the new file); merge_from "
                 "resets the cache-freshness word after its last mutation, lookup() refreshes exactly the stale table and sets its bit, each "
                 "lookup_* passes matching table/bit/freshen and each freshen_* rebuilds its table from the right map and key; merge_from copies "
                 "and renumbers every record of all six kinds (shared types renumbered before merge_with, global-ness is the union); "
                 "request_module gives each module its own contiguous range and read() rejects a mismatching range.  Not decided: order "
                 "independence and which definition wins in merge_with (histories of run-time contents)."),
        "note": "Trusted: clang 14 AST/CFG, std::map semantics; single-threaded use of the singleton.",
    },
    "C19": {
        "level": "proof",
        "design_ref": "DESIGN.md section 3, C19 (R19.1 o1-o3)",
        "technique": "typestate dataflow over the CFG of both main()s (stream phase may-analysis + exit-status must-analysis)",
        "text": ("Decides C19 over all paths of interrogate's and interrogate_module's main (hence every fault point): each reachable output "
                 "stream's open is tested; after the last write on every path to a possibly-zero exit the stream is closed/flushed and then "
                 "tested (a test before the flush does not count); every failure edge reaches only non-zero exits (exit(k!=0), non-zero "
                 "constant, or a status variable assigned non-zero on all paths and not reset); the dead output_include stream stays "
                 "unreachable.  Not decided: that libstdc++ reports every write(2)/close(2) failure through the stream state."),
        "note": "Trusted: clang 14 CFG, iostream error reporting, Filename::open_write result.",
    },
    "C04": {
        "level": "proof",
        "design_ref": "DESIGN.md section 3, C04 (R04.1-R04.5)",
        "technique": "gated reachability on the CFG (sound short-circuit edge facts + bool-flag propagation), sibling-switch completeness, who-may-write",
        "text": ("Decides the gate clause of C04 on all paths of the scan_*/define_* functions: every export sink (get_function, "
                 "get_type(_, true), add_manifest, add_element, member/nested-type export) is unreachable once the edges establishing "
                 "`file is S_local`, `_vis <= min_vis`, not deleted/static, !involves_protected/!in_ignoreinvolved/!involves_rvalue_reference/"
                 "!in_ignoremember are removed (documented bypasses: forcetype, class members gated by their class, force_publish only for "
                 "the two public cases); the involves_* predicates recurse through const/reference/pointer/typedef/function wrappers; min_vis "
                 "is written only as V_published / V_public under -promiscuous and S_local is stored only for command-line files, the cwd "
                 "probe and explicit files; each ignore*/forcetype command feeds the set its predicate reads.  Not decided: the parser's "
                 "stamping of _vis (grammar behaviour) and the 'only when an exported signature refers to them' recursion - so this is the "
                 "gate half of the iff, not the iff."),
        "note": "Trusted: clang 14 AST/CFG; _vis and CPPFile::_source are set correctly upstream of the gates.",
    },
    "C16": {
        "level": "other",
        "design_ref": "DESIGN.md section 3, C16 (R16.1, R16.2)",
        "technique": "CFG post-dominance / gated reachability on interrogate_module.cxx, call-graph closure to the lazy loader",
        "text": ("Decides two necessary conditions of C16: (1) in interrogate_module's main the interrogate_error_flag() test is passed on every "
                 "path from any call that can trigger a (lazy) database load to a possibly-zero exit, and its true edge unlinks the file "
                 "that was opened and reaches only non-zero exits; (2) in write_python_table_native a library is appended only when its "
                 "own remaining-dependency set is empty and it is not yet listed, dependencies are erased only for emitted libraries or "
                 "on the reported-cycle branch, and all emission loops walk the same vector ascending.  Not decided: that the resulting "
                 "order is topological for every graph and that cycle breaking terminates (run-time graphs)."),
        "note": "Trusted: clang 14 AST/CFG, call graph of direct calls; loads happen only through check_latest (checked under C13).",
    },
    "C17": {
        "level": "other",
        "design_ref": "DESIGN.md section 3, C17 (R17.1, R17.2, R17.4; R17.3 = R04.4 under C04)",
        "technique": "probe-sequence extraction from find_include's CFG vs reference sequence; option plumbing and canonicalisation-point rules",
        "text": ("Decides the lookup-order and ownership clauses of C17 structurally: the successful returns of find_include are, in order, cwd "
                 "(S_local), includer's directory (S_alternate), -S path for <> (S_system), -I/-S path ascending with the recorded kind, each "
                 "later probe reached only after the earlier failed, no cwd/includer probe in angle mode; <> is angle mode iff !_noangles; a "
                 "miss only warns; -I/-S append (never prepend) with one kind entry per directory; names are canonicalised before they key "
                 "_parsed_files/_explicit_files and both sides of _explicit_files use the same normaliser; CPPFile orders on _filename only.  "
                 "Not decided: idempotence/denotation-preservation of Filename::standardize/make_canonical (string algorithms)."),
        "note": "Trusted: clang 14 AST/CFG; Filename::exists/resolve_filename/make_canonical; DSearchPath keeps insertion order.",
    },
    "C05": {
        "level": "other",
        "design_ref": "DESIGN.md section 3, C05 (R05.1-R05.3)",
        "technique": "table agreement over resolved enumerators/members: accessor-flag, builder flag translation, text-dump labels",
        "text": ("Decides only the role-flag plumbing of C05: every flag accessor tests the enumerator it is named after (and the flag words "
                 "have distinct single bits); every builder statement that translates a C++ fact into a stored flag pairs same-role "
                 "enumerators (constructor/destructor/virtual/operator-typecast/unary-op/class/struct/union/...) or the member named in "
                 "ivf/spec/roles.json (this on front(), optional, named, has-return with the right polarity, caller-manages, extension); "
                 "every text-dump label is the flag's role name.  Not decided: scoped names, parameter lists and types, comment "
                 "attachment, property/sequence resolution - these depend on run-time data."),
        "note": "Trusted: clang 14 AST; the repo's naming convention (enumerator names carry the role); hand-written roles.json.",
    },
    "C10": {
        "level": "other",
        "design_ref": "DESIGN.md section 3, C10 (R10.1, R10.2)",
        "technique": "feature matrix of sibling predicates on the CFG vs a spec transcribed from the C++ standard; gated reachability of synthesis sinks",
        "text": ("Decides the rule skeleton of C10: each of CPPStructType's is_{default,copy,move}_constructible / is_{copy,move}_assignable / "
                 "is_destructible (CPPVisibility) returns false on exactly the dependencies its C++ rule names (user-declared member "
                 "inaccessible or deleted, abstract class, other constructors declared, user-declared move operations, destructor for copy "
                 "construction, every base with V_protected, every non-static member), and the builder synthesises the implicit default/"
                 "copy constructor and destructor only behind `none declared` and the matching predicate and never registers a constructor "
                 "of an abstract class.  Not decided: agreement with the compiler on every hierarchy, is_abstract's virtual-function logic."),
        "note": "Trusted: clang 14 AST/CFG; ivf/spec/special_members.json; the get_*() lookups of user-declared members.",
    },
    "C07": {
        "level": "other",
        "design_ref": "DESIGN.md section 3, C07 (R07.1-R07.6)",
        "technique": "bison grammar reader + clang facts: production/constructor agreement, precedence table vs ISO C++, evaluator-arm table, switch exhaustiveness, division guards",
        "text": ("Decides the operator-table clauses of C07: every expression production of the three expression non-terminals builds the node "
                 "of its own operator with operands in source order (and the non-terminals agree); %left/%right order and associate the "
                 "operators as ISO C++ does, unary above binary; each arm of evaluate()'s operator switch computes the C++ operator of its "
                 "label on (r1, r2) in order with as_integer / as_real in the right branches, logical operators yield 0/1, unevaluable "
                 "operators yield the error result; every operator constant that can be constructed (grammar actions cross-checked against "
                 "clang's view of cppyyparse, plus C++ sites) has a case in evaluate/determine_type/output; integer / and % are guarded "
                 "against 0 and INT_MIN/-1; the builder stores as_integer() only of results known to be integers and increments the implicit "
                 "enumerator once per element.  Not decided: literal scanning (get_number, character escapes), int overflow."),
        "note": "Trusted: clang 14 AST/CFG; ivf/grammar.py's reading of the .yxx; spec tables cxx_precedence.json / evaluator.json.",
    },
    "C15": {
        "level": "other",
        "design_ref": "DESIGN.md section 3, C15 (R15.1-R15.4, R15.6, R15.7)",
        "technique": "switch exhaustiveness vs constructible values, who-may-call abort/exit, gated reachability for size/zero guards, exit-status must-analysis",
        "text": ("Decides a family of necessary conditions for front-end totality, each naming the crash it excludes: every switch whose default "
                 "reaches abort() has a case for each constructible value (expression types, operators, type traits, declarator modifiers); "
                 "abort/exit outside main() only at two frozen, reasoned sites and _error_abort is never set; std::string positions of the shapes "
                 "literal k / size()-k / size()-size() and subscripts X[X.size()-k] are dominated by a size test (a throwing string member is "
                 "abort() under -fno-exceptions); integer divisions with a computed divisor are guarded; parse_file returns "
                 "get_error_count() == 0, every error() counts, a failed parse exits non-zero and no output file is opened before the parse "
                 "loop completed; macro expansion inserts the macro into the ignore set before recursing.  One known finding (F-C15d: function-"
                 "like macros are not suppressed while their own expansion is rescanned) is reported as KNOWN-FINDING.  Not decided: general "
                 "memory safety and termination of the hand-written scanners and of bison error recovery over all byte strings."),
        "note": "Trusted: clang 14 AST/CFG/call graph; grammar reader; positions that are loop indices or find() results are enumerated, not judged.",
    },
    "C06": {
        "level": "other",
        "design_ref": "DESIGN.md section 3, C06 (R06.1, R06.2; R06.3 dropped, see DESIGN section 4)",
        "technique": "constructor-parameter data flow vs field reads of is_less/is_equal; per-variant arms of a tagged union",
        "text": ("Decides one necessary condition of C06: the type/expression uniquifier cannot identify two distinct declarations.  For every "
                 "class of the CPPDeclaration hierarchy with a structural comparison, each field initialised from a (non-copy) constructor "
                 "parameter is read by is_less() and is_equal(); for every CPPExpression variant, each union member its constructor/factory "
                 "fills from a parameter is read in that variant's arm of both functions (new_type() merges what is_less cannot tell apart, "
                 "and the merged object is what is printed).  Not decided: acceptance of valid C++, declarator unrolling, name lookup, "
                 "printing, template substitution."),
        "note": "Trusted: clang 14 AST; classes that compare by pointer identity are never merged.",
    },
    "C09": {
        "level": "other",
        "design_ref": "DESIGN.md section 3, C09 (R09.1, R09.2)",
        "technique": "if-chain table extraction + gated reachability, compared with the [cpp.cond] automaton; effect whitelist of the skipper",
        "text": ("Decides the directive-automaton clause of C09: process_directive dispatches #if/#ifdef/#ifndef to their handlers, all four "
                 "alternatives of a taken group to skip_false_if_block(false), #endif to nothing; #ifdef/#ifndef skip (considering "
                 "alternatives) on opposite outcomes of is_manifest_defined, #if skips exactly when the evaluated value is zero or "
                 "unevaluable; while skipping, the three openers only nest, the four alternatives act only at level 0 when alternatives are "
                 "considered (re-testing through the opener's own handler), #endif returns at level 0 and otherwise un-nests once; the "
                 "skipper calls nothing but scanner primitives, writes no state and restores comment saving on every exit.  Not decided: "
                 "the value of the controlling expression (C07/C15 rules), defined()/__has_include rewriting, '#' recognition."),
        "note": "Trusted: clang 14 AST/CFG; ivf/spec/cpp_conditional.json.",
    },
    "C14": {
        "level": "other",
        "design_ref": "DESIGN.md section 3, C14 (R14.1-R14.5)",
        "technique": "effect analysis over the call-graph closure of the three main()s; classification of every traversal of an address-ordered container",
        "text": ("Decides which sources of run-to-run variation can reach the output: in the ~1400 functions reachable from the three mains the "
                 "only clock/random/pid call is time() in interrogate's main, reached only when SOURCE_DATE_EPOCH is unset/empty and flowing "
                 "only into the one module def passed to both writers; getenv only with that literal name; no locale is ever installed; no "
                 "pointer is printed except in a frozen diagnostic printer; no pointer-keyed unordered container is iterated; every "
                 "traversal of a std::set<T*>/std::map<T*,...> with the default comparator is classified order-insensitive (flags, "
                 "partitions, set inclusion, single element, re-sorted by a total address-free comparator, redistributed by the callee) or "
                 "order-reaching-output.  Eight order-reaching sites in write_module_class are known findings (F-C14b, replayed under "
                 "MALLOC_MMAP_THRESHOLD_=0); the non-total sort (F-C14a) is fixed.  Not decided: byte identity itself."),
        "note": "Trusted: clang 14 AST/CFG/call graph; libc getopt's own environment lookup is outside the analysed source.",
    },
    "C18": {
        "level": "other",
        "design_ref": "DESIGN.md section 3, C18 (R18.1-R18.3)",
        "technique": "who-may-call route rules for real-number I/O; exact rational check of Grisu2 tables read from initialisers; inexact-accumulation lint",
        "text": ("Decides the routing and table clauses of C18: in cppparser/interrogate real literals are parsed only through pstrtod and "
                 "written into generated text only through pdtoa (into a buffer of at least 25 bytes), with no strtod/atof/scanf(%f)/iostream "
                 "double I/O outside two frozen diagnostic printers; all 87 cached powers of Grisu2 equal the correctly rounded 64-bit "
                 "significand of 10^(-348+8i) (exact arithmetic on the initialisers), kPow10, cDigitsLut and the DiyFp constants are the "
                 "defined values; a lint reports that pstrtod's result flows through a loop-carried product with 0.1 and through pow() - "
                 "three known findings (F-C18a: 0.3 -> 0.30000000000000007, 1e23, 5e-324).  Not decided: correct rounding of pdtoa's digit "
                 "generation and of pstrtod on all inputs (numerical theorems, not shape properties)."),
        "note": "Trusted: clang 14 AST (literal values, FloatingLiteral::isExact); Python exact rational arithmetic.",
    },
    "C02": {
        "level": "other",
        "design_ref": "DESIGN.md section 3, C02 (R02.1, R02.2)",
        "technique": "table agreement: aggregate initialisers and an if-chain of the generator vs reference tables of the Python data model",
        "text": ("Decides only the naming/slot clause of C02 ('operators as dunder methods ... keywords prefixed with _'): every dunder name and "
                 "every C++ operator renamed by methodRenameDictionary is assigned by get_slotted_function_def the type slot CPython's slotdefs "
                 "give that dunder, with matching unary/binary/in-place arity, no two operators share a numeric slot, in-place rows carry the "
                 "in-place flag; pythonKeywords contains every hard keyword of Python 3 and method names pass through checkKeyword.  Not "
                 "decided: overload dispatch, argument conversion, ownership, exceptions, absence of crashes or leaks in generated modules "
                 "and in the embedded runtime (py_panda.cxx etc. are not compiled by this build)."),
        "note": "Trusted: clang 14 AST; ivf/spec/python_slots.json and python_keywords.json (transcribed from CPython / the language reference).",
    },
}

NOT_APPLICABLE = {
    "C01": "run-time equality of generated wrappers with direct C++ calls over all argument values: decided only by compiling and executing generated programs, which is not static analysis of /repo",
    "C03": "compilability/linkability of emitted text and uniqueness under 24-bit hash collisions: a property of the generator's output language and of run-time hash values, no sound shape rule in reach",
    "C08": "token-sequence equality with a conforming preprocessor over all macro programs: string-level run-time behaviour; its one shape-visible obligation (self-reference suppression) is checked under C15",
}
for _p in ["C02", "C04", "C05", "C06", "C07", "C09", "C10", "C11", "C13", "C14", "C15", "C16", "C17", "C18", "C19", "C20"]:
    if _p not in CLAIMED:
        NOT_APPLICABLE[_p] = PENDING


# Clauses added after the texts above were written (rules prompted by the seeded changes, DESIGN.md section 8).
# tools/gen_manifest.py inserts "Also decided: ..." before "Not decided:" and extends design_ref / technique.
ADDENDA = {
    "C02": ("R02.3-R02.6; section 8",
            "every site that marks or counts a coercion constructor is behind `not explicit`; the two constness predicates that "
            "decide const_ok judge a pointer and a reference by is_const(target) and look through const/typedef wrappers; the true-divide mirror slots take the wrapper kind (plain / in-place) of the slot they mirror; bool ranks below every numeric type in the overload order and the integer rank excludes bool",
            "gated reachability; switch-arm canonical forms"),
    "C04": ("R04.6-R04.9; section 8",
            "access labels install their own visibility on the current scope and __begin_publish/__end_publish save from and restore "
            "into the current scope; a type rebuilt by resolve_type()/substitute_decl() keeps every attribute (copy from *this, or "
            "every member carried); every in_ignorefile() site passes the spelling as referenced; const/pointer/reference/typedef arms of involves_protected/unpublished are pure recursion",
            "grammar-action rules; rebuild completeness over record fields"),
    "C05": ("R05.4, R05.5, R05.6, R05.7; section 8",
            "base-class derivations are recorded only for accessible bases with upcast/downcast roles, flags and the virtual-base "
            "exclusion in place, wrapper parameters take their names from the loop's own element; every call recording a member of "
            "the class is dominated by the virtual-function inference that sets SC_virtual on keyword-less overrides; an unspecified base access defaults from the deriving class's own class-key (found F-C05a); the builder's by-name tables are keyed by globally scoped names",
            "role pairing; call-graph must-pass-through"),
    "C06": ("R06.4-R06.7, printer-field clause of R06.1; section 8",
            "keyword tokens round-trip grammar -> enumerator -> printer; rebuilt types/parameter lists keep every member (found F-C06b); "
            "the change-accumulator flags of substitute_decl()/resolve_type() are monotone; every field a printer reads is compared by the uniquifier (found F-C06c); template-argument terminator tests hold for a negative paren counter",
            "CFG reachability between assignments"),
    "C07": ("R07.6-R07.12, conditional clause of R07.2; sections 8, 9",
            "an unevaluable enumerator / array bound is not stored as a number; the conditional alternative's rule precedence lets the "
            "else-branch extend right over every binary operator and a further `?`; a plain character literal's value is the sign-extended byte (evaluated from the cast chain; prefixed literals: known finding F-C07e); digit strings, digit separators, implicit enumerator successors, cast widths and the conditional's condition follow the language rules (found and fixed F-C07c/g/h/i, F-C06d; literal narrowing F-C07f known)",
            "bison precedence resolution (rule level vs look-ahead token)"),
    "C10": ("R10.3-R10.5, corrected X clause of R10.1; sections 8, 9",
            "the finders behind the predicates select members by C++'s criterion: default constructor = no parameters or the first "
            "defaulted; copy/move finders behind their flag; check_for_constructor sets the flags on the right value-category / "
            "member-kind edge and not only for one-parameter members (found F-C10a); match_virtual_override ignores override/final on both sides (evaluated on all flag pairs); abstractness is judged for complete objects only, const members without initializer delete the implicit default constructor, the builder leaves parsed declarations intact (found and fixed F-C10b/c/d)",
            "gated reachability over the finders and the classifier"),
    "C11": ("R11.5, R11.6, on-every-path clause of R11.1; section 8",
            "every map_from rewrite runs on every path through its remap_indices; on every returning path of hash_function_signature the "
            "stored hash is the registered one; the names make_wrapper_entry copies into the record are not rewritten afterwards",
            "post-dominance; must-assignment analysis"),
    "C09": ("R09.3, R09.4; sections 8, 9",
            "a new manifest is registered under its own parsed name (#define and both tools' -D); numbers in an #if expression are stepped over whole when macros are expanded (found F-C09a: `#if 0x10 == 16` was skipped)",
            "key-role check; scanner-branch structure"),
    "C12": ("R12.5, R12.6; section 8",
            "the count-controlled byte-copy loops of idf_input_string have no branch depending on the byte read; a string read back always replaces its destination (also for length 0)",
            "loop-condition data dependence"),
    "C13": ("ordering clauses of R13.3; section 8",
            "the `was not global` test is evaluated before merge_with merges the flags",
            "CFG ordering"),
    "C14": ("R14.6, non-injective-key clause of R14.5c/d; section 8",
            "a comparator that ends in a known non-injective key (unscoped name, a count) is not total; every scalar member is definitely assigned by every constructor",
            "comparator key deny-list"),
    "C15": ("R15.6-R15.14, resize in R15.2, INT_MIN / -1 in R15.3; sections 8, 9",
            "resize(size()-k) needs the dominating size test like substr/erase; signed / and % are guarded against INT_MIN / -1; scanner and token loops cannot cycle at end of input; string cursors are not used past size() after an untested increment (found F-C15f/g); _infile is dereferenced only behind a null test (found F-C15h; F-C15i by the token-loop rule); nothing reports through current_lexer after its restore; the parser's construction statics are stacked (found F-C15j); predicates recursing over member types need a cycle guard (found F-C15k, repaired)",
            "gated reachability"),
    "C16": ("R16.3, cycle-edge clause of R16.2; section 8",
            "on the cycle branch only an edge cycle[i] -> cycle[i+1] of the reported cycle may be given up; every contributing library becomes a key of the dependency map",
            "operand-role check on the erase site"),
    "C17": ("R17.5, located-path clause of R17.1; section 8",
            "the includer's directory is the dirname of the located path (CPPFile::_filename), not of its spelling in the #include; command-line files are registered before any of them is parsed",
            "field-resolved probe classification"),
    "C18": ("R18.4, R18.5; section 8",
            "the boundary and decode formulas of DiyFp, evaluated from their expression trees at sample points, equal Grisu2's definitions; the exponent sign test accepts both + and -",
            "expression-tree evaluation against a reference formula"),
    "C19": ("R19.b, close/bad distinction of o2; section 8",
            "bad() counts as the failure test only after flush(), not after close(); the status variable is never reset to zero by a later success; nothing writes on a stream buffer directly (failures there do not set badbit)",
            "typestate over stream phases"),
    "C20": ("R20.7, R20.8, local indices in R20.1; section 8",
            "subscripts indexed by a local (e.g. the out-parameter of find_module) are bounded like those indexed by a parameter; "
            "by-name lookup tables are rebuilt after every load (= R13.2); the unique-name bisection hits only on whole-string equality",
            "gated reachability"),
}



# Round 5 and the triage of its authors' observations (DESIGN.md sections 8 and 9).  Appended to ADDENDA by gen_manifest.
ADDENDA_R5 = {
    "C02": ("R02.7, R02.8",
            "verify_const = false is emitted only after the _NonConst `this` extractor; a Python allocation with a run-time size is tested for NULL before use (found F-C02b: MAKE_SEQ with a negative length crashed the interpreter)",
            "emission-order lint over the generator's string literals"),
    "C04": ("R04.10, R04.11, visibility gate of R04.2 for properties/sequences",
            "__make_property/__make_seq declarations pass the visibility test like every other member, their accessors must be accessible (found F-C04b); the command-file reader does not drop an unterminated last line (found F-C04a)",
            "sibling agreement over the arms of the member loop"),
    "C05": ("R05.8, R05.9",
            "each base_specification alternative records the access and virtual-ness its own keywords say, all combinations exist (found F-C06f); an accessor is synthesised only if neither the scanned functions nor the declaring scope hold its name (found F-C05b)",
            "grammar reader cross-checked with the compiled parser"),
    "C06": ("R06.8-R06.11",
            "lookups on a base class's scope do not recurse outwards; the literal operator recorded in a user-defined literal is not a known-null local (found F-C06g); every member a CPPExpression factory fills is printed by output() (found F-C06h); a sign is not joined to an operand text that begins with the same sign (found F-C06i)",
            "contradiction rule (definitely-null argument); per-variant printer completeness"),
    "C07": ("R07.13, cast clause of R07.3",
            "operands are not evaluated in another signedness or width than C++'s; every type-trait production hands its own keyword and all its operands to type_trait() (found F-C07j: __is_base_of was __is_class)",
            "grammar table agreement"),
    "C09": ("R09.5-R09.7",
            "the rescan of a replacement list keeps the #if mode; directive scanners do not cross the end of the line (found F-C09b: the null directive); the skipper steps over string and character literals (found F-C09c)",
            "loop-condition structure of hand-written scanners"),
    "C10": ("R10.4 corrected, R10.6, R10.7",
            "override matching ignores exactly what C++ ignores (override, final, noexcept, trailing-return spelling) and compares cv-/ref-qualification; type equivalence unwraps a typedef on either side; top-level const of a parameter is dropped on both sides (found F-C10e/f/g)",
            "expression-tree evaluation of the flag test over all flag pairs"),
    "C11": ("R11.7, R11.8",
            "no index that can be 0 is appended to a type's lists untested (found F-C11b); the next_index written into generated code is not taken before the renumbering (F-C11c, known)",
            "call graph with virtual overriders; producer discovery from `return 0`"),
    "C12": ("identifier clause of R12.4",
            "read() is unreachable from the file-identifier mismatch edge as well (found F-C12b: the file was merged after the report)",
            "edge-cut reachability"),
    "C13": ("R13.5",
            "in merge_from the type mapping is complete before any record is translated; merge_with keeps the fully defined side and, of two, the global one",
            "CFG ordering between add_mapping and remap_indices"),
    "C14": ("R14.7",
            "the evaluator never turns the address of a parser object into a value (Result(void *) only from nullptr / as_pointer())",
            "constructor-argument provenance"),
    "C15": ("R15.15-R15.20",
            "no throwing standard conversion; nullable pointer members (_initializer, array _bounds, _cpptype of a looked-up type) are dereferenced only behind a null test or a checked premise; expression-carrying tokens are built with an expression; a class is never listed in its own scope (found and fixed F-C15l-p)",
            "nullable-field dereference analysis with premise obligations"),
    "C16": ("R16.4",
            "the dependency-cycle search expands every library at most once (found F-C16b: exponential time)",
            "visited-set discipline of a recursive DFS"),
    "C17": ("R17.6, R17.7",
            "realpath() is applied to the whole name; find_include's own probes cannot be satisfied by a directory (found F-C17b)",
            "probe classification"),
    "C18": ("R18.6",
            "GrisuRound's weeding condition agrees with Grisu2's on a grid",
            "expression-tree evaluation on a grid"),
    "C19": ("phase G of o2",
            "a file stream that was flushed and tested but never closed is not finished",
            "typestate over stream phases"),
    "C20": ("R20.9",
            "the fptr table is read only by get_fptr(); the unique-name lookup does not depend on it",
            "who-may-read"),
}


# Round 6 (DESIGN.md sections 8 and 9).
ADDENDA_R6 = {
    "C02": ("R02.9", "key/keyword comparisons in the argument extractors of the pasted Python runtime (py_support.cxx, analysed as an extra unit) mean `equal` under their CPython function's convention", "API-convention table over resolved callees"),
    "C04": ("ignoremember gate of R04.2", "ignoremember also filters data members (found F-C04c)", "gated reachability"),
    "C05": ("R05.10", "every grammar action that assigns a semantic value assigns it on every path unless $1 is the rule's own nonterminal (found F-C05c)", "path coverage over action text"),
    "C06": ("R06.12", "const and typedef layers are peeled in one joint loop in both find_scope overloads", "loop-structure sibling agreement"),
    "C07": ("R07.14", "the arms of the short-circuit operators use the second operand's value only after testing that it was evaluated", "reachability from the arm entry"),
    "C09": ("R09.8, R09.9", "a literal header name is never macro-expanded (#include and __has_include); the directive-argument collector keeps string and character literals intact (found F-C08b: `#define URL \"http://x\"`)", "guard-shape check"),
    "C10": ("R10.8, R10.9", "an inherited virtual is erased only together with marking its overrider virtual; is_convertible_to answers yes only on a positive nested answer (found F-C10h)", "must-pass-through within the scan loop"),
    "C11": ("R11.9", "the counter of a finished loop is not used as a position", "position-aware dirty propagation"),
    "C12": ("R12.8, R12.9", "the C-string reader terminates its buffer; record objects filled in reader loops are made per iteration", "must-pass-through; declaration-scope check"),
    "C13": ("R13.6", "merge_from's local table of loaded types is keyed and looked up by true name", "key-role agreement"),
    "C15": ("R15.21", "CPPScope::get_struct_type() is dereferenced only behind a null test (found F-C15q, valid C++)", "nullable call-result analysis"),
    "C18": ("R18.7", "DiyFp::operator* computes the rounded upper half of the 128-bit product (statement interpreter over the tree, branch of the real compiler)", "abstract execution of a function body on samples"),
    "C19": ("ostreambuf_iterator clause of R19.b", "no write through a stream-buffer iterator (indent() included)", "who-may-call"),
    "C20": ("R20.10", "every parameterless int/bool accessor of a record class yields 0 on the default-constructed placeholder (found F-C20c)", "expression evaluation on constructor defaults"),
}


# Round 7 (DESIGN.md section 8).
ADDENDA_R7 = {
    "C02": ("R02.10", "the constness-blind argument extractor is emitted only where const_ok holds", "gated reachability of emitting literals"),
    "C06": ("R06.13, R06.14", "every member comparison in is_equal/is_less pairs this with the same member of the other object; a deep ordering is guarded by a deep inequality", "operand-role analysis of comparisons"),
    "C09": ("R09.10", "the comment scanner reads exactly one character per trip round its loop", "path enumeration over a loop's CFG region"),
    "C10": ("further-parameters clause of R10.3", "a constructor is a copy/move constructor only if its parameter [1] (hence every further one) has a default", "subscript-constant check in the gating condition"),
    "C11": ("R11.10", "update_<kind>() is never reached with an index the function itself treats as possibly 0", "contradiction rule (tested-for-zero vs used)"),
    "C12": ("R12.10", "flag enumerator values are part of the .in format and keep their released values", "frozen format table"),
    "C14": ("R14.8", "every output of the tools is opened truncating", "default-argument resolution at call sites"),
    "C15": ("inherits-outer-set clause of R15.7", "the ignore set of a nested macro expansion starts from the caller's set", "initialiser provenance"),
    "C16": ("range-for emission loops in R16.2", "every per-library emission loop, iterator style or range-for, walks `libraries`", "loop-container resolution"),
    "C17": ("R17.8", "Filename::standardize pops a component only if the list is not empty and its last element is not `..`", "gated reachability"),
    "C18": ("R18.8", "WriteExponent writes the decimal text of every possible exponent (interpreter with pointers into the output buffer and the digit table)", "abstract execution of a function body, exhaustive over the exponent range"),
}


# Round 8, and for C15 the repairs of F-C15k and F-C15u made just before it (DESIGN.md section 8).
ADDENDA_R8 = {
    "C02": ("R02.11", "an overload written under a run-time `if (` never marks the remaining overloads dead", "gated reachability keyed on the flag that selects the emitted opener"),
    "C04": ("not-a-member gate of R04.1", "a function whose scope is a class never reaches the free-function export", "gated reachability"),
    "C05": ("R05.11", "a method/destructor is folded into the base class's record only for a sole, public, non-virtual base", "four edge facts on both sinks"),
    "C06": ("R06.15", "function scopes made by the grammar hang under the declarator's scope", "contradiction rule over the generated parser"),
    "C07": ("R07.15", "every multi-operand arm of CPPExpression::output prints its own parentheses unconditionally (types are keyed by printed name)", "emission-sequence analysis of switch arms"),
    "C09": ("R09.11", "__has_include and #include ask find_include with the same angle flag", "sibling agreement on a computed argument"),
    "C10": ("R10.10", "own members enter the virtual-function list on SC_virtual alone", "flag-test extraction from the gating condition"),
    "C11": ("R11.11", "no renumbering (or any update) is applied to a by-value range-for copy", "lost-update lint over all range-for loops, with a built-in positive example"),
    "C14": ("R14.9", "every arm of pdtoa/Prettify terminates the text it writes into the caller's uninitialised buffer", "per-arm store analysis"),
    "C16": ("R16.5", "the path given to find_dependency_cycle is fresh for every start library", "declaration placement / must-pass-through clear()"),
    "C17": ("R17.9", "search directories are made absolute before main() changes directory", "element-granular must-pass-through reachability"),
    "C20": ("R20.11", "merge_from's local table is asked with the name it is keyed by (a merged-away type cannot be found by its own name)", "key-accessor agreement"),
    "C15": ("R15.14 (guard-object form), R15.24", "the recursion guard of the class-trait predicates may be a scoped guard object over a function-static set, whose class is itself judged (registers, answers, unregisters); the class hierarchy is acyclic by construction: only frozen writers touch _derivation, every base comes from a class_derivation_name action, and those assign a looked-up type only where the cycle predicate answered false (found F-C15u)", "who-may-write table, gated reachability in the generated parser's action cases (bison's case numbering), structural obligations on the predicate"),
}


# Triage of the round-8 side observations (DESIGN.md section 9, round 8).
ADDENDA_R8T = {
    "C04": ("R04.13", "the access a member class was declared with travels to its out-of-line definition (found F-C04d)", "assignment provenance in two cooperating functions"),
    "C12": ("R12.11", "a count read from the stream is used only after the stream was tested (found F-C12c)", "must-pass-through of a fail() test between extraction and use"),
    "C15": ("R15.25-R15.27", "lookup results and base-class struct types are nullable, also through a callee that dereferences its parameter (found F-C15v, w, y); a loop bounded by one container subscripts another only with a stated size relation (found F-C15x); CPPInstance::substitute_decl registers itself before descending (found F-C15z)", "nullable-result rule with callee summaries; size-relation evidence; must-pass-through"),
    "C17": ("corrected reference of R17.1", "the <> form walks the -S directories itself, as given only for non-local names; nothing is left to DSearchPath (found F-C17c - the old reference had accepted the defective form)", "probe-sequence table"),
    "C20": ("R20.12", "a string is built from a module definition's `const char *` field only behind a test of the same field (found F-C20d)", "same-expression null test"),
}


# Round 9 (DESIGN.md section 8).
ADDENDA_R9 = {
    "C02": ("R02.12", "a dispatch written on a packed temporary argument tuple is asked to release it before every return", "emission-order analysis within a block plus flag-argument inspection"),
    "C05": ("R05.12", "the signature key that identifies overloads unwraps only const references", "gated reachability on a predicate of the same argument"),
    "C06": ("R06.16", "a member that is_less tests against null is also ordered at pointer level (else T[] and T[N] are one interned type)", "sibling agreement between is_equal and is_less on nullable members"),
    "C07": ("R07.16", "the octal digits share one arm of the escape switch; the simple escapes return the standard's values", "switch-arm grouping and a frozen table"),
    "C09": ("R09.12", "#ifdef, #ifndef and defined() all decide through is_manifest_defined()", "single-judge rule (who may search the macro table)"),
    "C10": ("R10.11", "each base class contributes its virtual functions through a list of its own", "declaration placement of the argument of the recursive call"),
    "C13": ("R13.7", "the global flag survives losing the merge", "provenance of a saved value across an assignment of *this"),
    "C15": ("R15.28-R15.30", "lookups that follow using-directives carry a visited set (found F-C15aa, repaired); a CPPManifest the push_macro stack may share is never freed; a constant is evaluated through its initializer only while it is not already being evaluated (found F-C15ab, repaired)", "must-pass-through of `<set>.insert(x).second`; who-may-delete"),
    "C16": ("R16.6", "whether an inter-library edge is recorded does not depend on the state of the map under construction", "condition-read analysis"),
    "C17": ("chdir clause of R17.9", "no make_absolute() can run after main() changed directory", "reachability from the chdir() call"),
    "C18": ("R18.9", "the digit generator's interval width is taken after both boundaries were pulled inwards", "must-pass-through"),
    "C19": ("R19.r", "no output is moved into place by a call whose result is ignored", "discarded-result rule on delivery calls, with a built-in positive example"),
    "C20": ("R20.13", "on a merge, the database's lists receive the surviving index, never the discarded one", "value provenance behind a gate"),
}


# Round 10 (DESIGN.md section 8).
ADDENDA_R10 = {
    "C02": ("R02.13", "collapsing the per-argument-count overload sets copies the superset into the kept entry before the others are erased", "must-pass-through"),
    "C04": ("tightened R04.3", "a wrapper-peeling predicate recurses into its own type-taking overload with the wrapped type itself", "callee-signature and argument-shape check"),
    "C06": ("R06.17", "identity functions compare members whole (no mask, shift, division)", "operand-shape lint with a built-in positive example"),
    "C07": ("R07.17", "the keyword table maps the alternative operator tokens as the standard does and every keyword to its own token", "frozen table against the initialiser of the lexer's map"),
    "C09": ("R09.13", "a backward trim loop tests the character it is about to drop", "cursor-style inference from the later substr length"),
    "C10": ("R10.12", "= 0 / = default / = delete are recorded as written, independent of the storage class so far", "condition-read analysis"),
    "C11": ("R11.12", "no list of the database receives an index that a merge discarded (R20.13 claimed from the closure side)", "value provenance behind a gate"),
    "C13": ("R13.8", "the module search includes a module's first index in that module", "relation extracted from the gating edge of each recursive call"),
    "C14": ("R14.10", "constructor-less serialised records are filled field by field on every path before they are stored", "per-field must-pass-through"),
    "C15": ("R15.31", "nothing null is stored into the macro table", "nullable-value rule on the table's writers"),
    "C17": ("R17.10", "a file named on the command line is the user's own whatever the lookup said", "condition analysis of the override"),
    "C20": ("character-read clause of R20.12", "no character of a module-definition string is read without a null test of that pointer", "same-expression null test"),
}


# Triage of the round-10 side observations (DESIGN.md section 9, round 10).
ADDENDA_R10T = {
    "C02": ("R02.14", "in the runtime's property wrappers a new reference fetched through _getitem_func is returned, stolen or released on every non-null path (found F-C02c, F-C02d)", "reference-ownership typestate over the CFG (cut edges: the null tests; cut blocks: the disposals)"),
    "C15": ("R15.32, R15.33", "a pre-decremented unsigned subscript has a floor (found F-C15ac, which round 1 had dismissed); a pointer the code itself found null is not used afterwards without a new test (found F-C15ad)", "index-floor evidence; contradiction rule with callee summaries"),
}


# Round 11 (DESIGN.md section 8).
ADDENDA_R11 = {
    "C05": ("R05.13", "parameter instances with and without a default value are ordered (CPPInstance::operator<)", "nullable-member ordering rule"),
    "C06": ("R06.18", "a pointer member of a type's identity is compared by value, not only by presence", "comparison placement relative to nullness branches"),
    "C07": ("R07.18", "macro expansions are spliced into constant expressions unchanged", "single-assignment provenance of the spliced text"),
    "C09": ("R09.14", "an identifier left after expansion counts as 0 whether or not the macro table knows it", "condition-read analysis"),
    "C10": ("R10.13", "abstractness is decided by the collected pure virtual functions alone", "must-pass-through"),
    "C11": ("R11.13", "merge_from's name table is asked with the name it is keyed by (R13.6 claimed from the closure side)", "key-accessor agreement"),
    "C12": ("R12.12", "no vector is resized to a count and then appended to in a loop over that count", "lint with a built-in positive example"),
    "C14": ("R14.11", "no pointer into a temporary string is kept", "lint with a built-in positive example"),
    "C15": ("extension of R15.25", "determine_type() results are nullable, also in locals initialised with nullptr", "nullable-result rule with callee summaries"),
    "C16": ("R16.7", "every global type of the module contributes its edges", "loop-skip and condition analysis"),
    "C17": ("tightened R17.4", "a command-line name is canonicalised on every path before it keys the parsed-file table", "must-pass-through"),
    "C18": ("R18.10", "the cached power chosen for every binary exponent puts the product in Grisu's window", "evaluation of the index formula from the source over all 2098 exponents"),
    "C19": ("R19.c", "no stream error state is cleared and no stream buffer is inserted wholesale", "lint with a built-in positive example"),
    "C20": ("R20.14", "a module's range length is taken before its first index is moved", "reachability from the overwriting assignment"),
}


# Triage after round 11 (DESIGN.md section 9).
ADDENDA_R11T = {
    "C15": ("R15.34", "a namespace definition never reopens a scope the parser is inside of (found F-C15ae: `namespace A { namespace A { int q; } }`, valid C++, never stopped writing)", "structural rule over the grammar action: walker start, step, comparison, drop, loop exits; gate on _alias_of in CPPNamespace::output"),
}


# Round 12 (a short round over the eight properties with the lowest arrival rates; DESIGN.md section 8).
ADDENDA_R12 = {
    "C05": ("R05.14", "every operator-name literal that is compared with a function name is a spelling the grammar's function_operator actions produce (or a prefix of one)", "literal-versus-producer table agreement, the table read from the generated parser"),
    "C06": ("R06.19", "default template arguments are substituted with the map the filled-in arguments are inserted into, never a snapshot of it", "argument-identity rule over build_subst_decl"),
    "C10": ("R10.14", "a class body starts private for `class` only: each grammar conditional that picks a visibility from the class key is evaluated for the three keys", "evaluation of the conditional over the finite enum"),
    "C12": ("R12.13", "merge_from leaves through an unconditional reset of this database's by-name lookup tables", "must-pass-through"),
    "C16": ("R16.8", "the loop discounting emitted libraries from a pending dependency set runs over the whole list", "loop-bound rule"),
}


# Triage after round 12 (DESIGN.md section 8, round 12).
ADDENDA_R12T = {
    "C09": ("R09.15", "a comment in front of a directive does not hide it (found F-C09c, a known finding: `/* c */ #else` in a skipped group is missed)", "structural rule with a premise obligation on get(): the comment skipper restores the start-of-line flag"),
    "C07": ("R07.19", "a hexadecimal escape is read to its last hex digit (found F-C07k: '\\x041' recorded as 4; repaired fa4d8b5)", "structural rule: the digit-extension step sits in a loop conditioned on isxdigit()"),
}
