"""C12 — database files round-trip; older 3.x files readable.

Decided (static, all paths of the named functions):
  R12.1 writer/reader mirror: for every record class the sequence of I/O events
        of output() equals that of input() — same fields, order, encoding.
  R12.2 copy completeness: every serialised field survives the copies the
        reader makes (user-written copy ctor / operator=).
  R12.3 version gates: only in input(); nested, increasing, last = current
        minor; gated fields are the tail of the writer's scalar run and are
        zero-initialised by the constructor.
  R12.4 reader failures reach the error flag; no merge after a failed read.
Not decided: byte-level behaviour of idf_input_string on arbitrary bytes.
"""
from ..facts import peel, strip_casts, show, walk, cond_atom
from . import gates as G
from .common import (stream_chain, callee_short, field_of, base_of, deref, local_ref,
                     assigned_target, const_int, refs_local, is_method_call)

LEVEL = "proof"
EXPLANATION = ("Writer/reader mirror, copy completeness, version-gate layout and error-flag protocol of the "
               "interrogatedb serialisers, decided on the resolved AST/CFG of every output()/input() pair; "
               "exhaustive over the record classes and their fields.")
TRUSTED = ["clang 14 AST/CFG", "libstdc++ iostream extraction semantics (operator>> leaves the target unchanged or zero on failure)",
           "per-file units equal the unity build"]
ASSUMPTIONS = ["idf_input_string/idf_input_vector are the byte-level inverse of idf_output_string/idf_output_vector (their pairing is checked, their loops are not)",
               "NDEBUG build: assert() is not a guard"]

PAIRS = [
    "InterrogateComponent", "InterrogateType", "InterrogateType::Derivation",
    "InterrogateType::EnumValue", "InterrogateFunction", "InterrogateFunctionWrapper",
    "InterrogateFunctionWrapper::Parameter", "InterrogateElement",
    "InterrogateManifest", "InterrogateMakeSeq",
]


# --------------------------------------------------------------------------
# Event extraction.
class Ev:
    def __init__(self, kind, what=None, sub=None, node=None, **kw):
        self.kind = kind      # base scalar string vector count loop if gate record key check call
        self.what = what
        self.sub = sub or []
        self.node = node
        self.kw = kw

    def norm(self):
        if self.kind in ("loop", "if", "gate"):
            return (self.kind, self.what, tuple(e.norm() for e in self.sub if e.kind not in ("check", "sep")))
        if self.kind == "scalar":
            return ("scalar", self.what, bool(self.kw.get("cast")))
        return (self.kind, self.what)

    def __repr__(self):
        if self.sub:
            return "%s(%s)[%s]" % (self.kind, self.what, ", ".join(map(repr, self.sub)))
        c = "~cast" if self.kw.get("cast") else ""
        return "%s:%s%s" % (self.kind, self.what, c)


def _operand_name(n, side):
    """Name a written/read operand: field (short), local, size() of container."""
    raw = peel(n)
    cast = False
    if raw is not None and raw.get("k") == "cast":
        cast = True
    n = strip_casts(raw)
    if n is None:
        return ("expr", "?", cast, None)
    k = n.get("k")
    if k in ("str", "chr"):
        return ("sep", n.get("v"), False, None)
    if k == "mem":
        b = peel(n.get("b"))
        short = n["n"].split("::")[-1]
        if b is None or b.get("k") == "this":
            return ("scalar", short, cast, None)
        if short in ("first",):
            return ("key", None, cast, None)
        if short in ("second",):
            return ("record", None, cast, None)
        if b.get("k") == "ref":
            return ("scalar", b["n"] + "." + short, cast, None)
        return ("scalar", show(n), cast, None)
    if k == "ref":
        if n.get("dk") in ("local", "param"):
            return ("local", n["n"], cast, n.get("d"))
        return ("scalar", n["n"].split("::")[-1], cast, None)
    if k == "call" and "this" in n and callee_short(n) in ("size", "length"):
        f = field_of(n["this"])
        if f:
            return ("count", f.split("::")[-1], cast, None)
        return ("count", show(n["this"]), cast, None)
    if k in ("un", "call"):
        d = deref(n)
        if d is not None and d is not n:
            kind, what, c2, did = _operand_name(d, side)
            if kind == "local":
                return ("local*", what, cast, did)
            if kind in ("record", "key", "scalar"):
                return (kind, what, cast, did)
    return ("expr", show(n), cast, None)


def _record_type(n):
    """For the repo's own operator<< / >> on record types: the record name."""
    t = (n.get("s") or "")
    # "std::ostream &(std::ostream &, const InterrogateType &)"
    import re
    m = re.search(r",\s*(?:const\s+)?([A-Za-z_:]+)\s*&\)", t)
    return m.group(1) if m else None


class Extractor:
    def __init__(self, fn, side):
        self.fn = fn
        self.side = side  # 'o' or 'i'
        self.locals = {}  # decl id -> decl dict

    def stmts(self, node):
        out = []
        if node is None:
            return out
        k = node.get("k")
        if k == "block":
            for s in node["s"]:
                out += self.stmts(s)
            return out
        if k == "decls":
            for d in node["d"]:
                self.locals[d["d"]] = d
                if "init" in d:
                    out += self.expr(d["init"])
            return out
        if k == "if":
            atom, pos = cond_atom(self.fn, node["c"])
            then_ev = self.stmts(node.get("then"))
            else_ev = self.stmts(node.get("else")) if node.get("else") else []
            # failure test
            if atom is not None and atom.get("k") == "call" and callee_short(atom) in ("fail", "bad", "eof", "operator bool", "good"):
                out.append(Ev("check", show(node["c"]), node=node, then=node.get("then")))
                out += else_ev
                # events inside the failure branch (delete/return) are not I/O
                return out
            gate = self.version_gate(atom)
            if gate is not None:
                out.append(Ev("gate", gate, then_ev, node=node))
                if else_ev:
                    out.append(Ev("gate-else", gate, else_ev, node=node))
                return out
            cond_ev = self.expr(node["c"])
            out += cond_ev
            if then_ev or else_ev:
                out.append(Ev("if", show(node["c"]), then_ev, node=node))
                if else_ev:
                    out.append(Ev("else", show(node["c"]), else_ev, node=node))
            return out
        if k in ("for", "while", "do", "forrange"):
            body = self.stmts(node.get("body"))
            pre = []
            if k == "for":
                pre = self.stmts(node.get("init")) if node.get("init") else []
            if k == "forrange":
                what = show(node["range"])
            else:
                what = show(node.get("c")) if node.get("c") else ""
            out += pre
            if body:
                out.append(Ev("loop", what, body, node=node))
            return out
        if k == "ret":
            return self.expr(node.get("e")) if node.get("e") else []
        if k in ("break", "continue", "null_stmt", "goto"):
            return []
        if k in ("switch", "case", "default", "label"):
            for c in (node.get("body"), node.get("sub")):
                if c:
                    out += self.stmts(c)
            return out
        return self.expr(node)

    def version_gate(self, atom):
        if atom is None or atom.get("k") != "bin" or atom.get("op") not in (">=", ">", "<", "<="):
            return None
        x, y = peel(atom["x"]), peel(atom["y"])
        if x is not None and x.get("k") == "call" and x.get("f", "").endswith("get_file_minor_version"):
            c = const_int(y)
            if c is not None:
                return (atom["op"], c)
        return None

    def expr(self, n):
        """I/O events of an expression in evaluation order."""
        n = peel(n)
        if n is None:
            return []
        op = "<<" if self.side == "o" else ">>"
        ch = stream_chain(n, op)
        if ch is not None:
            stream, items = ch
            out = []
            # walk the chain again to recover, per item, the call node (for record ops)
            calls = []
            m = n
            while m is not None and m.get("k") == "call" and m.get("opc") and callee_short(m) == "operator" + op and len(m["a"]) == 2:
                calls.append(m)
                m = peel(m["a"][0])
            calls.reverse()
            for call, item in zip(calls, items):
                kind, what, cast, did = _operand_name(item, self.side)
                f = call.get("f", "")
                if not f.startswith("std::") and _record_type(call):
                    rt = _record_type(call)
                    out.append(Ev("record", rt, node=call, local=did))
                    continue
                if kind == "sep":
                    continue
                if kind in ("local", "local*"):
                    out.append(Ev("local", what, node=call, decl=did, cast=cast))
                elif kind == "scalar":
                    out.append(Ev("scalar", what, node=call, cast=cast))
                elif kind == "count":
                    out.append(Ev("count", what, node=call))
                elif kind == "key":
                    out.append(Ev("key", None, node=call))
                else:
                    out.append(Ev("expr", what, node=call))
            return out
        k = n.get("k")
        if k == "call":
            f = n.get("f", "")
            short = callee_short(n)
            if short in ("idf_output_string", "idf_input_string") and len(n["a"]) >= 2:
                kind, what, cast, did = _operand_name(n["a"][1], self.side)
                if kind in ("local", "local*"):
                    return [Ev("string-local", what, node=n, decl=did)]
                return [Ev("string", what, node=n)]
            if short in ("idf_output_vector", "idf_input_vector") and len(n["a"]) >= 2:
                kind, what, cast, did = _operand_name(n["a"][1], self.side)
                return [Ev("vector", what, node=n)]
            if short in ("output", "input") and "this" in n and n.get("qual"):
                return [Ev("base", f.rsplit("::", 1)[0], node=n)]
            out = []
            if "this" in n:
                out += self.expr(n["this"])
            for a in n.get("a", []):
                out += self.expr(a)
            out.append(Ev("call", f, node=n))
            return out
        out = []
        from ..facts import children
        for c in children(n):
            out += self.expr(c)
        if k == "bin" and n.get("op") == "=":
            out.append(Ev("assign", None, node=n))
        return out


def io_events(fn, side):
    ex = Extractor(fn, side)
    evs = ex.stmts(fn.body)
    return evs, ex


def resolve_input(evs, fn):
    """Turn reader-side locals into the fields they end up in.
       in >> token; _atomic_token = (AtomicToken)token   -> scalar _atomic_token ~cast
       in >> n; reserve(n); for (i<n) {idf_input_string(in, s); v.push_back(s);} -> count v, loop[string elem]"""
    out = []
    i = 0
    # collect assignments field = f(local)
    assigns = {}   # decl id -> (field short, cast)
    pushes = {}    # decl id -> container field
    for n in fn.walk():
        t = assigned_target(n)
        if t:
            lhs, rhs = t
            fl = field_of(lhs)
            r0 = peel(rhs)
            r = strip_casts(rhs)
            if fl and r is not None and r.get("k") == "ref" and r.get("d"):
                assigns[r["d"]] = (fl.split("::")[-1], r0 is not None and r0.get("k") == "cast")
        if n.get("k") == "call" and callee_short(n) == "push_back" and "this" in n and n.get("a"):
            a = strip_casts(n["a"][0])
            cf = field_of(n["this"])
            if a is not None and a.get("k") == "ref" and a.get("d") and cf:
                pushes[a["d"]] = cf.split("::")[-1]
    for e in evs:
        if e.kind == "local":
            d = e.kw.get("decl")
            if d in assigns:
                out.append(Ev("scalar", assigns[d][0], node=e.node, cast=True))
                continue
            out.append(Ev("count-local", e.what, node=e.node, decl=d))
            continue
        if e.kind == "string-local":
            d = e.kw.get("decl")
            if d in pushes:
                out.append(Ev("string", "elem:" + pushes[d], node=e.node))
                continue
            out.append(e)
            continue
        if e.kind in ("loop", "if", "gate", "else", "gate-else"):
            out.append(Ev(e.kind, e.what, resolve_input(e.sub, fn), node=e.node))
            continue
        out.append(e)
    # count-local followed by loop over it pushing into container X -> count X, loop X
    res = []
    pend = None
    for e in out:
        if e.kind == "count-local":
            pend = e
            continue
        if e.kind == "loop" and pend is not None and pend.what in e.what:
            cont = None
            for s in e.sub:
                if s.kind == "string" and str(s.what).startswith("elem:"):
                    cont = s.what[5:]
            if cont:
                res.append(Ev("count", cont, node=pend.node))
                res.append(Ev("loop", cont, [Ev("string", "elem", node=s.node) for s in e.sub if s.kind == "string"], node=e.node))
                pend = None
                continue
        if e.kind in ("call", "assign"):
            continue  # reserve(), push_back(), …
        if e.kind == "check" and pend is not None:
            res.append(e)   # `if (in.fail()) return;` between reading a count and using it does not separate the two
            continue
        if pend is not None:
            res.append(pend)
            pend = None
        res.append(e)
    if pend is not None:
        res.append(pend)
    return res


def normalise_output(evs):
    res = []
    for e in evs:
        if e.kind in ("call", "assign", "sep"):
            continue
        if e.kind == "loop":
            sub = normalise_output(e.sub)
            # loop over this->container writing *iter
            cont = None
            n = e.node
            for x in walk(n.get("c") or n.get("range") or n):
                if x.get("k") == "mem":
                    cont = x["n"].split("::")[-1]
                    break
            sub2 = []
            for s in sub:
                if s.kind == "string-local":
                    sub2.append(Ev("string", "elem", node=s.node))
                else:
                    sub2.append(s)
            res.append(Ev("loop", cont or e.what, sub2, node=e.node))
            continue
        if e.kind in ("if",):
            res.append(Ev("if", e.what, normalise_output(e.sub), node=e.node))
            continue
        res.append(e)
    return res


def flat(evs):
    return [e.norm() for e in evs if e.kind not in ("check",)]


def strip_gates(evs):
    """Reader view with all version gates open (what today's writer must match)."""
    out = []
    for e in evs:
        if e.kind == "gate":
            out += strip_gates(e.sub)
        elif e.kind in ("loop", "if"):
            out.append(Ev(e.kind, e.what, strip_gates(e.sub), node=e.node))
        else:
            out.append(e)
    return out


def run(ctx):
    db = ctx.db
    ctx.rule("R12.1", "output() and input() of each record perform the same I/O events on the same fields in the same order and encoding")
    ctx.rule("R12.2", "every field output() serialises is copied by the class's user-written copy constructor and operator=")
    ctx.rule("R12.3", "minor-version gates occur only in readers, nested with increasing constants up to the current minor; gated fields are the tail of the writer's scalar run, zero-initialised")
    ctx.rule("R12.4", "every reader failure sets the error flag; read() is not attempted on a version mismatch; merge_from only after read_new succeeded and the index range was accepted")

    serialised = {}   # class -> set(field short names)
    n_events = 0
    for cls in PAIRS:
        fo = db.fn(cls + "::output")
        fi = db.fn(cls + "::input")
        eo, _ = io_events(fo, "o")
        ei, _ = io_events(fi, "i")
        no = normalise_output(eo)
        ni = resolve_input(ei, fi)
        a = flat(no)
        b = flat(strip_gates(ni))
        n_events += len(a)
        fields = set()
        for t in a:
            _collect_fields(t, fields)
        serialised[cls] = fields
        # position-wise comparison, naming the first divergence
        ok = True
        for idx in range(max(len(a), len(b))):
            ea = a[idx] if idx < len(a) else None
            eb = b[idx] if idx < len(b) else None
            good = ea == eb
            inst = "%s|event%d|%s" % (cls, idx, _ev_name(ea or eb))
            site = fo.loc(no[idx].node) if idx < len(no) else fi.loc()
            ctx.ob("R12.1", inst, good, site,
                   "writer %s vs reader %s" % (_fmt(ea), _fmt(eb)) if not good else "writer and reader agree on %s" % _fmt(ea))
            if not good:
                ok = False
        # no gates on the writer side
        for e in _all(eo):
            if e.kind == "gate":
                ctx.ob("R12.3", "%s::output|no-gate" % cls, False, fo.loc(e.node), "writer output depends on the *file* minor version")
    ctx.floor("R12.1", "serialised field events", n_events, 60)

    # the stream operators delegate to output()/input() of the same class
    n_ops = 0
    for f in db.functions:
        if f.name in ("operator<<", "operator>>") and f.file.endswith(".I") and "interrogatedb" in f.file:
            want = "output" if f.name == "operator<<" else "input"
            calls = [c for c in f.calls() if callee_short(c) in ("output", "input", "write")]
            rec = None
            if len(f.params) == 2:
                rec = f.params[1]["t"].replace("const ", "").replace("&", "").strip()
            if rec not in PAIRS:
                continue
            n_ops += 1
            good = len(calls) == 1 and calls[0]["f"] == rec + "::" + want
            ctx.ob("R12.1", "%s(%s)|delegates-to-%s" % (f.name, rec, want), good, f.loc(),
                   "calls %s" % [c["f"] for c in calls])
    ctx.floor("R12.1", "stream operators of record classes", n_ops, 18)

    _top_level(ctx)
    _byte_copy(ctx)
    _copy_completeness(ctx, serialised)
    _version_gates(ctx)
    _error_protocol(ctx)
    _fresh_record_per_iteration(ctx)
    _flag_values_are_format(ctx)
    _counts_are_tested_before_use(ctx)
    _presized_vectors_are_not_appended_to(ctx)
    _merging_invalidates_the_name_lookups(ctx)


def _byte_copy(ctx):
    """R12.5: the readers of length-prefixed strings copy exactly `length`
    bytes whatever their value (every byte 0x00-0xff must round-trip): in the
    count-controlled loop no branch depends on the byte read and every byte read
    is stored."""
    db = ctx.db
    ctx.rule("R12.5", "idf_input_string copies exactly `length` bytes: the copy loop has no exit or branch that depends on the value of the byte read, and idf_output_string writes the whole string")
    n = 0
    for f in db.fns("idf_input_string"):
        loops = [x for x in f.walk() if x.get("k") in ("while", "for", "do")]
        for lp in loops:
            gets = [c for c in walk(lp["body"]) if c.get("k") == "call" and callee_short(c) in ("get", "read", "getline", "peek")]
            if not gets:
                continue
            n += 1
            # locals holding a byte that was read
            byte_vars = set()
            for x in walk(lp["body"]):
                if x.get("k") == "decls":
                    for d in x["d"]:
                        if "init" in d and any(c in list(walk(d["init"])) for c in gets):
                            byte_vars.add(d["d"])
                t = assigned_target(x)
                if t and local_ref(t[0]) is not None and any(c in list(walk(t[1])) for c in gets):
                    byte_vars.add(local_ref(t[0])["d"])
            bad = None
            for x in walk(lp["body"]):
                if x.get("k") in ("if", "cond", "switch", "while"):
                    c = x.get("c")
                    dep = any((y.get("k") == "ref" and y.get("d") in byte_vars) or (y.get("k") == "call" and callee_short(y) in ("get", "peek")) for y in walk(c)) if c else False
                    if dep:
                        bad = x
            ctx.ob("R12.5", "idf_input_string(%s)|loop-not-data-dependent" % f.params[1]["t"].replace(" ", ""), bad is None, f.loc(bad) if bad else f.loc(lp),
                   "the byte-copy loop %s" % ("branches on the byte it read (%s): some byte value cannot round-trip" % show(bad) if bad else "copies every byte unconditionally"))
            cond = lp.get("c")
            ok = cond is not None and not any(y.get("k") == "call" and callee_short(y) in ("get", "peek", "eof", "good") for y in walk(cond))
            ctx.ob("R12.5", "idf_input_string(%s)|count-controlled" % f.params[1]["t"].replace(" ", ""), ok, f.loc(lp), "the loop is controlled by the length read from the file: %s" % show(cond))
    # a reader may also take the bytes in one block (istream::read(buf, length)): nothing data-dependent to judge there
    n_block = 0
    for f in db.fns("idf_input_string"):
        loops = [x for x in f.walk() if x.get("k") in ("while", "for", "do")]
        in_loop = {id(c) for lp in loops for c in walk(lp.get("body") or {})}
        for c in f.walk():
            if c.get("k") == "call" and callee_short(c) == "read" and id(c) not in in_loop:
                n_block += 1
                ctx.ob("R12.5", "idf_input_string(%s)|block-read" % f.params[1]["t"].replace(" ", ""), True, f.loc(c), "reads the payload with one read(buf, length)")
    ctx.floor("R12.5", "byte-copy loops / block reads in idf_input_string", n + n_block, 2)
    # R12.8: the C-string reader hands out a NUL-terminated buffer
    ctx.rule("R12.8", "idf_input_string(istream&, const char *&) stores '\\0' into the buffer it allocated (new char[length + 1]) on every path before the buffer is handed to the caller")
    n8 = 0
    for f in db.fns("idf_input_string"):
        if "char" not in f.params[1]["t"] or "basic_string" in f.sig:
            continue
        dest = f.params[1]["d"]
        bufs = {}
        for x in f.walk():
            if x.get("k") == "decls":
                for d in x["d"]:
                    init = strip_casts(peel(d.get("init"))) if d.get("init") is not None else None
                    if init is not None and init.get("k") == "new":
                        bufs[d["d"]] = d["n"]
        for x in f.walk():
            t = assigned_target(x)
            if not t or (local_ref(t[0]) or {}).get("d") != dest:
                continue
            src = local_ref(t[1])
            if src is None or src.get("d") not in bufs:
                continue
            n8 += 1
            b = src["d"]
            terms = []
            for y in f.walk():
                ty = assigned_target(y)
                if ty and const_int(ty[1]) == 0:
                    lhs = strip_casts(peel(ty[0]))
                    if lhs is not None and lhs.get("k") == "idx" and any((z.get("d") == b) for z in walk(lhs) if z.get("k") == "ref"):
                        terms.append(y)
                    elif lhs is not None and lhs.get("k") == "un" and lhs.get("op") == "*" and any((z.get("d") == b) for z in walk(lhs) if z.get("k") == "ref"):
                        terms.append(y)
            tb = [f.cfg.locate(y)[0] for y in terms if f.cfg.locate(y)]
            lx = f.cfg.locate(x)
            ok = bool(tb) and lx is not None and (lx[0] in tb or lx[0] not in f.cfg.reachable(cut_blocks=tb))
            ctx.ob("R12.8", "idf_input_string(constchar*&)|buffer-terminated-before-handed-out", ok, f.loc(x),
                   "`%s = %s` is %spreceded on every path by `%s[...] = '\\0'`: the module/library names read from a .in file are used as C strings" % (show(t[0]), bufs[b], "" if ok else "NOT ", bufs[b]))
    ctx.floor("R12.8", "C-string readers", n8, 1)
    for f in db.fns("idf_output_string"):
        if "basic_string" not in f.sig and "std::string" not in f.sig:
            continue
        # out << str.length() … out << str   (whole string, not c_str())
        wrote_len = any(c.get("k") == "call" and callee_short(c) in ("length", "size") for c in f.walk())
        # a NUL-terminated view handed to operator<< stops at the first NUL byte; write(data(), size()) does not
        cstr = []
        for c in f.walk():
            if c.get("k") == "call" and callee_short(c) in ("c_str", "data"):
                par = next(f.ancestors(c), None)
                while par is not None and par.get("k") == "cast":
                    par = next(f.ancestors(par), None)
                if par is not None and par.get("k") == "call" and callee_short(par) in ("write", "sputn") and any(y.get("k") == "call" and callee_short(y) in ("size", "length") for y in walk(par)):
                    continue
                cstr.append(c)
        ctx.ob("R12.5", "idf_output_string(std::string)|writes-whole-string", wrote_len and not cstr, f.loc(),
               "writes the length and the std::string itself (a c_str() would stop at the first NUL byte)")
    # R12.6: a std::string read back replaces whatever the destination held (readers reuse one element object for a
    # whole vector, and records are read into objects that were used before): after the length was read successfully,
    # every path assigns the destination - also for length 0
    ctx.rule("R12.6", "idf_input_string(istream&, std::string&) assigns its destination on every path after the length has been read successfully (an empty string read back must clear the destination)")
    n6 = 0
    for f in db.fns("idf_input_string"):
        if "basic_string" not in f.sig and "std::string" not in f.sig:
            continue
        n6 += 1
        dest = f.params[1]["d"]
        cfg = f.cfg

        def read_ok(atom, truth):
            return atom.get("k") == "call" and callee_short(atom) in ("fail", "bad") and not truth
        ok_edges = G.edges_where(f, read_ok)
        writes = []
        for x in f.walk():
            t = assigned_target(x)
            tgt = t[0] if t else None
            if tgt is None and x.get("k") == "call" and callee_short(x) in ("operator=", "assign", "clear", "resize", "swap") and (x.get("a") or "this" in x):
                tgt = x["a"][0] if x.get("opc") else x.get("this")
            if tgt is not None and (local_ref(tgt) or {}).get("d") == dest:
                loc = cfg.locate(x)
                if loc:
                    writes.append(loc[0])
        bad = False
        if not ok_edges or not writes:
            bad = True
        for (b, i) in ok_edges:
            s0 = cfg.blocks[b].succs[i]
            if s0 is not None and s0 not in writes and cfg.exit in cfg.reachable(s0, cut_blocks=writes):
                bad = True
        ctx.ob("R12.6", "idf_input_string(std::string&)|destination-always-assigned", not bad, f.loc(),
               "after a successful length read the destination string is %sassigned on every path" % ("" if not bad else "NOT "))
    ctx.floor("R12.6", "std::string readers", n6, 1)


def _all(evs):
    for e in evs:
        yield e
        for s in _all(e.sub):
            yield s


def _collect_fields(t, acc):
    if t[0] in ("scalar", "string", "vector", "count"):
        acc.add(t[1])
    elif t[0] in ("loop", "if", "gate"):
        if t[0] == "loop" and isinstance(t[1], str):
            acc.add(t[1])
        for s in t[2]:
            _collect_fields(s, acc)


def _ev_name(t):
    if t is None:
        return "end"
    if t[0] in ("loop", "if", "gate"):
        return "%s:%s" % (t[0], t[1])
    return "%s:%s" % (t[0], t[1])


def _fmt(t):
    if t is None:
        return "<nothing>"
    if t[0] in ("loop", "if", "gate"):
        return "%s(%s)[%s]" % (t[0], t[1], ", ".join(_fmt(s) for s in t[2]))
    if t[0] == "scalar":
        return "scalar %s%s" % (t[1], " (via int cast)" if t[2] else "")
    return "%s %s" % (t[0], t[1])


# --------------------------------------------------------------------------
def _top_level(ctx):
    """InterrogateDatabase::write  vs  header read in load_latest + read_new."""
    db = ctx.db
    fw = db.fn("InterrogateDatabase::write")
    fl = db.fn("InterrogateDatabase::load_latest")
    fr = db.fn("InterrogateDatabase::read_new")
    ew, _ = io_events(fw, "o")
    el, _ = io_events(fl, "i")
    er, _ = io_events(fr, "i")

    def kinds_w(evs):
        out = []
        for e in evs:
            if e.kind in ("call", "assign", "sep"):
                continue
            if e.kind == "loop":
                cont = None
                for x in walk(e.node.get("c") or e.node):
                    if x.get("k") == "mem":
                        cont = x["n"].split("::")[-1]
                        break
                out.append(("loop", cont, tuple(k for k in kinds_w(e.sub))))
            elif e.kind == "scalar":
                out.append(("scalar", e.what))
            elif e.kind == "count":
                out.append(("count", e.what))
            else:
                out.append((e.kind, e.what))
        return out

    # map add_X -> the map member it stores into
    def add_target(call):
        cands = db.fns(call.get("f"))
        for f in cands:
            for n in f.walk():
                if n.get("k") == "call" and n.get("opc") and callee_short(n) == "operator[]":
                    fl_ = field_of(n["a"][0])
                    if fl_ and fl_.endswith("_map"):
                        return fl_.split("::")[-1]
                if n.get("k") == "call" and callee_short(n) == "insert" and "this" in n:
                    fl_ = field_of(n["this"])
                    if fl_ and fl_.endswith("_map"):
                        return fl_.split("::")[-1]
        return None

    def kinds_r(evs):
        out = []
        pend = None
        for e in evs:
            if e.kind in ("assign", "sep", "check"):
                continue
            if e.kind == "local":
                pend = e
                continue
            if e.kind == "loop":
                # body: local index, record R, [check], call add_X
                sub = []
                target = None
                for s in e.sub:
                    if s.kind == "local":
                        sub.append(("key", None))
                    elif s.kind == "record":
                        sub.append(("record", s.what))
                    elif s.kind == "call" and callee_short(s.node).startswith("add_"):
                        target = add_target(s.node)
                if pend is not None and pend.what in e.what:
                    out.append(("count", target))
                    pend = None
                out.append(("loop", target, tuple(sub)))
                continue
            if e.kind == "call":
                continue
            if pend is not None:
                out.append(("local", pend.what))
                pend = None
            if e.kind == "scalar":
                out.append(("scalar", e.what))
            else:
                out.append((e.kind, e.what))
        if pend is not None:
            out.append(("local", pend.what))
        return out

    w = kinds_w(ew)
    header = [e for e in _linear_all(el) if e.kind in ("local", "scalar", "string", "record", "vector")]
    r = kinds_r(header) + kinds_r(er)
    # role map for the header: writer names -> reader names
    role = {"def.file_identifier": ("local", "file_identifier"),
            "_current_major_version": ("scalar", "_file_major_version"),
            "_current_minor_version": ("scalar", "_file_minor_version")}
    w2 = []
    for t in w:
        if t[0] == "scalar" and t[1] in role:
            w2.append(role[t[1]])
        else:
            w2.append(t)
    for idx in range(max(len(w2), len(r))):
        a = w2[idx] if idx < len(w2) else None
        b = r[idx] if idx < len(r) else None
        ctx.ob("R12.1", "InterrogateDatabase::write|event%d|%s" % (idx, (a or b)[0] + ":" + str((a or b)[1])),
               a == b, fw.loc(), "writer %s vs reader %s" % (a, b))
    ctx.floor("R12.1", "top-level file events", len(w2), 18)


# --------------------------------------------------------------------------
def _copy_completeness(ctx, serialised):
    db = ctx.db
    n = 0
    for cls in PAIRS:
        rec = db.record(cls)
        user_copy = [m for m in rec["methods"] if (m.get("copy") or m.get("copy_assign")) and not m.get("defaulted") and not m.get("deleted")]
        fields = [f["n"] for f in rec["fields"] if not f.get("static")]
        ser = [f for f in fields if f in serialised[cls]]
        if not user_copy:
            ctx.ob("R12.2", "%s|implicit-copy" % cls, True, "%s:%d" % (rec["file"].replace("/repo/", ""), rec["line"]),
                   "class uses the implicit copy operations (member-wise)")
            n += 1
            continue
        for m in user_copy:
            which = "copy-ctor" if m.get("copy") else "operator="
            fns = [f for f in db.fns(m["n"]) if f.sig == m["s"]]
            if not fns:
                ctx.broken("body of %s %s not found" % (m["n"], m["s"]))
            f = fns[0]
            copied = set()
            delegates = False
            for ini in f.d.get("inits", []):
                if ini.get("m") and ini.get("written"):
                    copied.add(ini["m"].split("::")[-1])
            for x in f.walk():
                t = assigned_target(x)
                if t:
                    fl = field_of(t[0])
                    b = base_of(t[0])
                    if fl and (b is None or b.get("k") == "this"):
                        copied.add(fl.split("::")[-1])
                    # (*this) = copy
                    l = deref(t[0])
                    if l is not None and l.get("k") == "this":
                        delegates = True
            if delegates:
                ctx.ob("R12.2", "%s|%s|delegates" % (cls, which), True, f.loc(), "delegates to operator=")
                n += 1
                continue
            for fld in ser:
                n += 1
                ctx.ob("R12.2", "%s|%s|%s" % (cls, which, fld), fld in copied, f.loc(),
                       "serialised field %s is %scopied by %s" % (fld, "" if fld in copied else "NOT ", which))
    ctx.floor("R12.2", "copy obligations", n, 30)


# --------------------------------------------------------------------------
def _version_gates(ctx):
    db = ctx.db
    # (a) gates only in input functions of interrogatedb
    gate_fns = {}
    for f in db.functions:
        if "/interrogatedb/" not in f.file:
            continue
        for c in f.calls():
            if c.get("f", "").endswith("InterrogateDatabase::get_file_minor_version"):
                gate_fns.setdefault(f.name, f)
    for name, f in gate_fns.items():
        ok = name.endswith("::input") or name == "interrogate_get_file_minor_version" or name.endswith("get_file_minor_version")
        ctx.ob("R12.3", "%s|gate-only-in-reader" % name, ok, f.loc(), "file minor version consulted in %s" % name)
    ctx.floor("R12.3", "functions consulting the file minor version", len(gate_fns), 1)

    # current minor version
    cur = None
    g = db.globals.get("InterrogateDatabase::_current_minor_version")
    if g and "init" in g:
        cur = const_int(g["init"])
    if cur is None:
        rec = db.record("InterrogateDatabase")
        ctx.broken("initialiser of InterrogateDatabase::_current_minor_version not found")

    for cls in PAIRS:
        fi = db.fn(cls + "::input")
        fo = db.fn(cls + "::output")
        ei, _ = io_events(fi, "i")
        ni = resolve_input(ei, fi)
        gates = [e for e in ni if e.kind == "gate"]
        if not gates:
            continue
        eo, _ = io_events(fo, "o")
        no = flat(normalise_output(eo))
        # nesting chain
        chain = []
        gated_fields = []
        ungated_after = False
        e = gates[0]
        ctx.ob("R12.3", "%s::input|single-gate-chain" % cls, len(gates) == 1, fi.loc(gates[0].node),
               "%d top-level gates" % len(gates))
        level = e
        while level is not None:
            chain.append(level.what)
            nxt = None
            seen_gate = False
            for s in level.sub:
                if s.kind == "gate":
                    nxt = s
                    seen_gate = True
                elif s.kind == "scalar":
                    if seen_gate:
                        ungated_after = True
                    gated_fields.append((s.what, level.what[1]))
                elif s.kind not in ("check",):
                    ctx.ob("R12.3", "%s::input|gated-%s-%s" % (cls, s.kind, s.what), False, fi.loc(s.node),
                           "only scalar fields may be version-gated (a gated string/vector cannot be skipped by an old reader)")
            level = nxt
        consts = [c for (_, c) in chain]
        ops = [o for (o, _) in chain]
        ctx.ob("R12.3", "%s::input|gates-increasing" % cls,
               all(o == ">=" for o in ops) and consts == sorted(set(consts)) and consts[0] >= 1,
               fi.loc(gates[0].node), "gate chain %s" % chain)
        ctx.ob("R12.3", "%s::input|last-gate-is-current-minor" % cls, consts[-1] == cur, fi.loc(gates[0].node),
               "innermost gate %d, _current_minor_version %d" % (consts[-1], cur))
        ctx.ob("R12.3", "%s::input|no-field-after-inner-gate" % cls, not ungated_after, fi.loc(gates[0].node),
               "a field read after a nested gate at the same level would be read at the wrong position")
        # the gated fields are exactly the tail of the scalar run that precedes the gate position in the writer
        pos = ni.index(gates[0])
        before = [x.norm() for x in ni[:pos] if x.kind != "check"]
        w_before = no[:len(before)]
        ctx.ob("R12.3", "%s::input|prefix-before-gate" % cls, before == w_before, fi.loc(gates[0].node),
               "ungated prefix reader %s vs writer %s" % (before[-3:], w_before[-3:]))
        w_tail = no[len(before):len(before) + len(gated_fields)]
        want = [("scalar", f, False) for (f, _) in gated_fields]
        ctx.ob("R12.3", "%s::input|gated-fields-are-writer-tail" % cls, w_tail == want, fi.loc(gates[0].node),
               "gated %s vs writer %s" % ([f for f, _ in gated_fields], [t[1] for t in w_tail]))
        # zero defaults in the constructor taking the module def
        ctors = [f for f in db.fns(cls + "::" + cls.split("::")[-1]) if "InterrogateModuleDef" in f.sig]
        if not ctors:
            ctx.broken("constructor %s(InterrogateModuleDef*) not found" % cls)
        zero = set()
        for x in ctors[0].walk():
            t = assigned_target(x)
            if t and field_of(t[0]) and const_int(t[1]) == 0:
                zero.add(field_of(t[0]).split("::")[-1])
        for ini in ctors[0].d.get("inits", []):
            if ini.get("m") and ini.get("e") is not None and const_int(ini["e"]) == 0:
                zero.add(ini["m"].split("::")[-1])
        for f, lvl in gated_fields:
            ctx.ob("R12.3", "%s|default-zero|%s" % (cls, f), f in zero, ctors[0].loc(),
                   "field added in 3.%d %s the documented default 0 when the file lacks it" % (lvl, "has" if f in zero else "does NOT get"))
        # historical layouts: what a reader sees of a file of minor version k
        import json, os
        hist = json.load(open(os.path.join(os.path.dirname(os.path.dirname(__file__)), "spec", "idb_format_history.json")))
        if cls in hist:
            for k, want_k in sorted(hist[cls].items()):
                k = int(k)
                seen_k = [x.what for x in ni[:pos] if x.kind == "scalar"] + [f for (f, lvl) in gated_fields if lvl <= k]
                ctx.ob("R12.3", "%s::input|layout-of-3.%d" % (cls, k), seen_k == want_k, fi.loc(gates[0].node),
                       "scalar fields read from a 3.%d file: %s; released format: %s" % (k, seen_k, want_k))
        ctx.floor("R12.3", "gated fields in %s" % cls, len(gated_fields), 6 if cls == "InterrogateElement" else 1)


# --------------------------------------------------------------------------
def _error_protocol(ctx):
    db = ctx.db
    fl = db.fn("InterrogateDatabase::load_latest")
    cfg = fl.cfg
    # every block printing a diagnostic to cerr must also call set_error_flag(true)
    n = 0
    for bid, b in cfg.blocks.items():
        roots = [fl.nodes[r] for r in cfg.roots(bid) if r in fl.nodes]
        prints = False
        flag = False
        for r in roots:
            for x in walk(r):
                if x.get("k") == "ref" and x.get("n") == "std::cerr":
                    prints = True
                if x.get("k") == "call" and x.get("f", "").endswith("set_error_flag"):
                    a = x.get("a", [])
                    if a and const_int(a[0]) == 1:
                        flag = True
        if prints:
            n += 1
            site = fl.loc(roots[0]) if roots else fl.loc()
            msg = ""
            for r in roots:
                for x in walk(r):
                    if x.get("k") == "str" and len(x.get("v", "")) > 6:
                        msg = x["v"].strip()
                        break
                if msg:
                    break
            ctx.ob("R12.4", "load_latest|diagnostic-sets-flag|%s" % msg[:40], flag, site,
                   "failure branch %r %s set_error_flag(true)" % (msg[:40], "calls" if flag else "does NOT call"))
    ctx.floor("R12.4", "failure branches in load_latest", n, 5)

    # read() is unreachable on the version-mismatch edge
    read_calls = [c for c in fl.calls("InterrogateDatabase::read")]
    if len(read_calls) != 1:
        ctx.broken("expected one call of read() in load_latest, found %d" % len(read_calls))
    rb = cfg.locate(read_calls[0])[0]
    ver_blocks = []
    for bid, b in cfg.blocks.items():
        if b.cond is None:
            continue
        c = fl.nodes.get(b.cond)
        if c is None:
            continue
        names = {x["n"].split("::")[-1] for x in walk(c) if x.get("k") in ("mem", "ref") and "n" in x}
        atom, pos = cond_atom(fl, c)
        if atom is not None and atom.get("k") == "bin":
            if {"_file_major_version", "_current_major_version"} <= names and atom["op"] in ("!=", "=="):
                # mismatch edge: T for !=, F for ==
                ver_blocks.append((bid, 0 if (atom["op"] == "!=") == pos else 1, "major"))
            if {"_file_minor_version", "_current_minor_version"} <= names and atom["op"] in (">", "<="):
                ver_blocks.append((bid, 0 if (atom["op"] == ">") == pos else 1, "minor"))
            # the file's identifier against the compiled-in one (a local and a member of the same name)
            kinds = {x.get("k") for x in walk(atom) if x.get("k") in ("mem", "ref") and (x.get("n") or "").split("::")[-1] == "file_identifier"}
            if kinds == {"mem", "ref"} and atom["op"] in ("!=", "=="):
                ver_blocks.append((bid, 0 if (atom["op"] == "!=") == pos else 1, "identifier"))
    ctx.floor("R12.4", "version / identifier comparison branches", len(ver_blocks), 3)
    for bid, idx, which in ver_blocks:
        # cut the OK edge: read must be unreachable
        ok_idx = 1 - idx
        reach = cfg.reachable(cfg.blocks[bid].succs[idx]) if cfg.blocks[bid].succs[idx] is not None else set()
        # paths that leave via the mismatch edge and do not come back through this test
        reach2 = cfg.reachable(cfg.blocks[bid].succs[idx], cut_blocks=_loop_heads(cfg)) if cfg.blocks[bid].succs[idx] is not None else set()
        ctx.ob("R12.4", "load_latest|no-read-on-%s-mismatch" % which, rb not in reach2, fl.loc(read_calls[0]),
               "read() %s reachable from the %s mismatch edge within one request" % ("is" if rb in reach2 else "is not", which))

    # the false result of read() sets the flag
    b = cfg.blocks[rb]
    ok = False
    if b.cond is not None:
        atom, pos = cond_atom(fl, fl.nodes[b.cond])
        if atom is not None and atom.get("f", "").endswith("::read"):
            fail_idx = 0 if not pos else 1
            tgt = b.succs[fail_idx]
            if tgt is not None:
                for r in cfg.roots(tgt):
                    for x in walk(fl.nodes[r]):
                        if x.get("k") == "call" and x.get("f", "").endswith("set_error_flag"):
                            ok = True
    ctx.ob("R12.4", "load_latest|read-failure-sets-flag", ok, fl.loc(read_calls[0]), "if (!read(...)) branch sets the error flag")

    # read(): merge_from only after read_new() true and range accepted
    fr = db.fn("InterrogateDatabase::read")
    c2 = fr.cfg
    merges = list(fr.calls("InterrogateDatabase::merge_from"))
    news = list(fr.calls("InterrogateDatabase::read_new"))
    if len(merges) != 1 or len(news) != 1:
        ctx.broken("read(): expected one merge_from and one read_new call")
    mb = c2.locate(merges[0])[0]
    nb = c2.locate(news[0])[0]
    bnew = c2.blocks[nb]
    good = False
    if bnew.cond is not None:
        atom, pos = cond_atom(fr, fr.nodes[bnew.cond])
        if atom is not None and atom.get("f", "").endswith("read_new"):
            fail_idx = 0 if not pos else 1
            reach = c2.reachable(bnew.succs[fail_idx]) if bnew.succs[fail_idx] is not None else set()
            good = mb not in reach
    ctx.ob("R12.4", "read|no-merge-after-failed-read_new", good, fr.loc(merges[0]),
           "merge_from is %sreachable from the failure edge of read_new" % ("un" if good else ""))
    # range check: the `next != def->next_index` true edge must not reach merge_from
    good = False
    found = False
    for bid, b in c2.blocks.items():
        if b.cond is None:
            continue
        cnode = fr.nodes.get(b.cond)
        atom, pos = cond_atom(fr, cnode)
        if atom is not None and atom.get("k") == "bin" and atom["op"] in ("!=", "==") and any(
                x.get("k") == "mem" and x["n"].endswith("next_index") for x in walk(atom)) and any(
                (strip_casts(atom[side]) or {}).get("k") in ("ref", "call") for side in ("x", "y")):
            found = True
            bad_idx = 0 if (atom["op"] == "!=") == pos else 1
            s = b.succs[bad_idx]
            good = s is None or mb not in c2.reachable(s)
    if not found:
        ctx.broken("read(): index-range comparison with def->next_index not found")
    ctx.ob("R12.4", "read|no-merge-after-range-mismatch", good, fr.loc(merges[0]),
           "merge_from is %sreachable after the module's index range was found out of date" % ("un" if good else ""))

    # read_new: every count / record extraction is followed by an in.fail() test returning false
    fn = db.fn("InterrogateDatabase::read_new")
    ev, _ = io_events(fn, "i")
    seq = list(_linear(ev))
    n_checks = 0
    pending = None
    for e in seq:
        if e.kind in ("local", "record"):
            pending = pending or e
        elif e.kind == "check":
            # failure branch returns false
            th = e.kw.get("then")
            ret_false = th is not None and any(x.get("k") == "ret" and const_int(x.get("e")) == 0 for x in walk(th))
            if pending is not None:
                n_checks += 1
                ctx.ob("R12.4", "read_new|check-after|%s:%s#%d" % (pending.kind, pending.what, n_checks), ret_false,
                       fn.loc(e.node), "extraction of %s is followed by a stream-failure test that returns false" % pending.what)
            pending = None
        elif e.kind == "call" and callee_short(e.node).startswith("add_"):
            if pending is not None:
                ctx.ob("R12.4", "read_new|%s-before-check" % callee_short(e.node), False, fn.loc(e.node),
                       "record stored before the stream was tested for failure")
    ctx.floor("R12.4", "failure tests in read_new", n_checks, 12)


def _linear_all(evs):
    for e in evs:
        if e.sub:
            for s in _linear_all(e.sub):
                yield s
        else:
            yield e


def _linear(evs):
    for e in evs:
        if e.kind in ("loop", "if", "gate"):
            for s in _linear(e.sub):
                yield s
        else:
            yield e


def _loop_heads(cfg):
    """Blocks that are targets of back edges (used to confine a path to one loop iteration)."""
    heads = set()
    # a back edge goes to a block that dominates its source
    dom = cfg.dominators()
    for b, idx, s in cfg.edges():
        if b in dom and s in dom.get(b, ()):
            heads.add(s)
    return heads


def _fresh_record_per_iteration(ctx):
    """R12.9: the readers of a record (InterrogateType::input & co.) fill only what the file holds: alternative names are
    APPENDED, _array_size is read only when the array flag is set, fields of later minor versions keep what the object
    held.  A record object that is reused for the next record of a list therefore leaks the previous record's data into
    it - and the file re-serialises differently.  In every count-controlled reader loop the object that `in >> obj` fills
    must be made inside the loop body.  (Seed S6-C12; same reasoning as R12.6 for strings.)"""
    db = ctx.db
    ctx.rule("R12.9", "in InterrogateDatabase::read_new and idf_input_vector, a class-typed object filled by `in >> obj` inside a loop is declared (or allocated with new) inside that loop's body")
    n = 0
    SCALAR = ("int", "unsigned int", "long", "unsigned long", "short", "char", "bool", "double", "float", "long long", "unsigned long long")
    for f in db.functions:
        if not (f.name == "InterrogateDatabase::read_new" or f.name.endswith("idf_input_vector")):
            continue
        for lp in f.walk():
            if lp.get("k") not in ("while", "for", "do"):
                continue
            body = lp.get("body") or {}
            inner_decls = {}
            for d in walk(body):
                if d.get("k") == "decls":
                    for x in d["d"]:
                        inner_decls[x["d"]] = x
            for c in walk(body):
                if c.get("k") != "call" or "operator>>" not in (c.get("f") or "") or not c.get("a"):
                    continue
                tgt = strip_casts(peel(c["a"][-1]))
                via_ptr = False
                if tgt is not None and tgt.get("k") == "un" and tgt.get("op") == "*":
                    tgt = strip_casts(peel(tgt.get("e")))
                    via_ptr = True
                r = local_ref(tgt) if tgt is not None else None
                if r is None:
                    continue
                ct = (r.get("ct") or r.get("t") or "").replace("const ", "").strip()
                dd = inner_decls.get(r["d"])
                cty = ((dd or {}).get("ct") or ct)
                if cty not in SCALAR:
                    from .common import resolve_typedef
                    cty = resolve_typedef(db, cty)
                if not via_ptr and cty in SCALAR:
                    continue      # a scalar is overwritten as a whole
                n += 1
                ok = dd is not None
                if ok and via_ptr:
                    init = strip_casts(peel(dd.get("init"))) if dd.get("init") is not None else None
                    ok = init is not None and init.get("k") == "new"
                ctx.ob("R12.9", "%s|%s|fresh-per-record" % (f.name + ("<%s>" % f.sig.split("vector<")[-1].split(">")[0] if "idf_input_vector" in f.name else ""), show(c["a"][-1])), ok, f.loc(c),
                       "`%s` is filled by >> in a loop and is %s" % (show(c["a"][-1]), "made anew for each record" if ok else "declared OUTSIDE the loop: what one record leaves set shows up in the next"))
    ctx.floor("R12.9", "record objects filled in reader loops", n, 6)


def _flag_values_are_format(ctx):
    """R12.10: the `_flags` words of the record classes are written to the .in file as plain integers.  The value of every
    flag enumerator is therefore part of the file format: regrouping the enumeration (swapping F_sequence and
    F_has_insert_function, say) changes the meaning of every existing 3.0-3.3 file without any version bump, while the
    new build's own write/read round trip stays consistent.  Oracle: ivf/spec/idb_flag_values.json (the released
    format).  (Seed S7-C12.)"""
    import json
    import os
    db = ctx.db
    ctx.rule("R12.10", "every flag enumerator of the database record classes that exists in the released file format keeps its numeric value (new enumerators may be added)")
    spec = json.load(open(os.path.join(os.path.dirname(os.path.dirname(__file__)), "spec", "idb_flag_values.json")))["enums"]
    n = 0
    for en_name, want in sorted(spec.items()):
        en = db.enums.get(en_name)
        if en is None:
            ctx.ob("R12.10", "%s|exists" % en_name, False, "src/interrogatedb", "enumeration %s is gone" % en_name)
            continue
        have = {c["n"].split("::")[-1]: c["v"] for c in en["consts"]}
        for k, v in sorted(want.items()):
            n += 1
            ok = have.get(k) == v
            ctx.ob("R12.10", "%s::%s|value" % (en_name, k), ok, "%s:%s" % ((en.get("file") or "src/interrogatedb").replace("/repo/", ""), en.get("line", 0)),
                   "%s = %s (released format: %s)" % (k, have.get(k, "missing"), v))
    ctx.floor("R12.10", "flag enumerators of the file format", n, 60)


def _counts_are_tested_before_use(ctx):
    """R12.11: `int n; in >> n;` leaves n UNINITIALISED when the stream has already failed (the extraction does not even
    start) - which is exactly the state after a truncated file ran out in the previous field.  A count read this way
    may bound a loop or size a reserve()/resize() only behind `!in.fail()` (the reader's idiom, 10 of its 11 counts).
    (F-C12c: InterrogateComponent::input used num_alt_names untested.)"""
    db = ctx.db
    ctx.rule("R12.11", "in the database reader, a local int declared without initialiser and filled by `in >> n` is used as a loop bound or as the argument of reserve()/resize() only where a call of fail() on the stream returned false after the extraction")
    n = 0
    for f in db.functions:
        if "/interrogatedb/" not in f.file:
            continue
        uninit = {}
        for y in f.walk():
            if y.get("k") == "decls":
                for dd in y["d"]:
                    if dd.get("ct") in ("int", "unsigned int", "long", "unsigned long") and "init" not in dd:
                        uninit[dd["d"]] = dd.get("n")
        if not uninit:
            continue
        filled = {}
        for c in f.walk():
            if c.get("k") == "call" and callee_short(c) == "operator>>" and c.get("a"):
                tgt = c["a"][-1] if "this" in c else (c["a"][1] if len(c["a"]) > 1 else None)
                r = local_ref(tgt) if tgt is not None else None
                if r is not None and r.get("d") in uninit:
                    filled.setdefault(r["d"], []).append(c)
        if not filled:
            continue
        ok_edges = G.edges_where(f, G.pred_false("fail"))
        for d, exts in filled.items():
            uses = []
            for lp in f.walk():
                if lp.get("k") in ("while", "for") and lp.get("c") is not None and any(z.get("k") == "ref" and z.get("d") == d for z in walk(lp["c"])):
                    uses.append(("bounds a loop", lp["c"]))
            for c in f.walk():
                if c.get("k") == "call" and callee_short(c) in ("reserve", "resize") and c.get("a") and any(z.get("k") == "ref" and z.get("d") == d for z in walk(c["a"][0])):
                    uses.append(("sizes %s()" % callee_short(c), c))
                if c.get("k") == "new" and any(z.get("k") == "ref" and z.get("d") == d for z in walk(c)):
                    uses.append(("sizes an allocation", c))
            for what, u in uses:
                n += 1
                # the fail() test must lie between the extraction and the use: cutting its false edges makes the use unreachable
                ok = bool(ok_edges) and G.gated(f, u, ok_edges) and all(not G.reaches_avoiding(f, e, [f.nodes[b.cond] for bid, b in f.cfg.blocks.items() if b.cond is not None and (bid, 1) in ok_edges or (bid, 0) in ok_edges], u) for e in exts)
                ctx.ob("R12.11", "%s|%s|%s|tested-before-use" % (f.name, uninit[d], what.replace(" ", "-")), ok, f.loc(u),
                       "`%s` %s %s the stream was tested with fail()" % (uninit[d], what, "after" if ok else "BEFORE / WITHOUT"))
    ctx.floor("R12.11", "uses of counts read from the stream", n, 10)


def _resize_then_append(f):
    out = []
    for c in f.walk():
        if not (c.get("k") == "call" and callee_short(c) == "resize" and "this" in c and c.get("a")):
            continue
        vec = show(c["this"]).replace(" ", "")
        cnt = local_ref(c["a"][0])
        for p_ in f.walk():
            if p_.get("k") == "call" and callee_short(p_) in ("push_back", "emplace_back") and "this" in p_ and show(p_["this"]).replace(" ", "") == vec and p_.get("i", 0) > c.get("i", 0):
                # is the append inside a loop bounded by the same count?
                for lp in f.ancestors(p_):
                    if lp.get("k") in ("for", "while") and lp.get("c") is not None and cnt is not None and any(z.get("k") == "ref" and z.get("d") == cnt["d"] for z in walk(lp["c"])):
                        out.append((c, p_, vec))
    return out


def _presized_vectors_are_not_appended_to(ctx):
    """R12.12: the readers fill a vector with `reserve(n)` and n push_back()s.  `resize(n)` in place of reserve() leaves n
    default elements in FRONT of the n that are read: the record comes back with 2n entries, the accessors return the
    wrong count and strings, and the file does not re-serialise to the same bytes.  No vector of the database library is
    resize()d to a count and then appended to in a loop over the same count.
    (Seed S11-C12: `_alt_names.resize(num_alt_names)`.)"""
    db = ctx.db
    ctx.rule("R12.12", "in the database library no vector is resize()d to a count and then push_back()ed to in a loop bounded by the same count")

    class _P:
        def __init__(self):
            self.rz = {"i": 1, "k": "call", "f": "std::vector::resize", "this": {"k": "mem", "n": "C::_v", "b": {"k": "this"}}, "a": [{"k": "ref", "d": 9, "dk": "local", "n": "n"}]}
            self.pb = {"i": 5, "k": "call", "f": "std::vector::push_back", "this": {"k": "mem", "n": "C::_v", "b": {"k": "this"}}, "a": [{"k": "ref", "d": 3}]}
            self.lp = {"i": 3, "k": "for", "c": {"k": "bin", "op": "<", "x": {"k": "ref", "d": 2}, "y": {"k": "ref", "d": 9, "dk": "local"}}, "body": self.pb}

        def walk(self):
            return [self.rz, self.lp, self.pb]

        def ancestors(self, n):
            return [self.lp] if n is self.pb else []
    if len(_resize_then_append(_P())) != 1:
        ctx.broken("R12.12: the detector no longer recognises its own example")
    n = 0
    for f in db.functions:
        if "/interrogatedb/" not in f.file:
            continue
        n += 1
        for rz, pb, vec in _resize_then_append(f):
            ctx.ob("R12.12", "%s|%s|resize-then-append" % (f.name, vec), False, f.loc(rz), "`%s` is resize()d to the count and then appended to once per element: it ends up twice as long" % vec)
    ctx.ob("R12.12", "database-library|no-resize-then-append", True, "src/interrogatedb", "%d functions examined" % n)
    ctx.floor("R12.12", "functions examined", n, 300)


def _merging_invalidates_the_name_lookups(ctx):
    """R12.13: a database read back answers by-name queries like the one that was written - also when it arrives after
    the first by-name query was answered.  The by-name tables are caches keyed on `_lookups_fresh`; the one function that
    moves another database's records into this one, InterrogateDatabase::merge_from, must leave by an unconditional
    `_lookups_fresh = 0` of *this* database (a statement of the function's outermost block, no `return` that avoids
    it).  (Seed S12-C12: the reset was moved to read_new(), which runs on the temporary database; load A, look a name up,
    request B, look up a name of B: 0.)"""
    db = ctx.db
    ctx.rule("R12.13", "InterrogateDatabase::merge_from resets this->_lookups_fresh to 0 on every path to its exit")
    fs = [g for g in db.functions if g.name == "InterrogateDatabase::merge_from"]
    if not fs or not fs[0].body:
        ctx.broken("R12.13: InterrogateDatabase::merge_from not found")
        return
    f = fs[0]

    def is_reset(y):
        if y.get("k") != "bin" or y.get("op") != "=":
            return False
        x, v = peel(y.get("x") or {}), strip_casts(y.get("y") or {})
        return (x.get("k") == "mem" and (x.get("n") or "").endswith("::_lookups_fresh") and (x.get("b") or {}).get("k") == "this"
                and v is not None and v.get("k") == "int" and v.get("v") == 0)
    top = [y for y in (f.body.get("s") or []) if isinstance(y, dict)]
    resets = [y for y in top if is_reset(y)]
    first = next((y for y in f.walk() if f.cfg.locate(y) is not None), None)
    rets = [r for r in f.walk() if r.get("k") == "ret"]
    escaping = [r for r in rets if not resets or first is None or G.reaches_avoiding(f, first, resets, r)]
    later = []
    if resets:
        # nothing merged after the reset: no add_*/update_* call behind the last reset
        seen = False
        for y in top:
            if y is resets[-1]:
                seen = True
                continue
            if seen:
                later += [c for c in walk(y) if c.get("k") == "call" and callee_short(c).startswith(("add_", "update_"))]
    ok = bool(resets) and not escaping and not later
    ctx.ob("R12.13", "InterrogateDatabase::merge_from|_lookups_fresh=0|on-every-exit", ok,
           f.loc(resets[-1]) if resets else f.loc(),
           "the by-name tables are rebuilt after every merge" if ok else
           ("no unconditional `_lookups_fresh = 0` in the outermost block" if not resets else
            ("a return at line %s leaves without the reset" % f.loc(escaping[0]).split(":")[-1] if escaping else "records are added after the reset")))
    ctx.floor("R12.13", "merge functions of the database", 1, 1)
