"""C16 — module initialisation registers every library once, base classes first.

Decided:
  R16.1 failure protocol of interrogate_module's main: the error-flag test
        post-dominates every call that can trigger a (lazy) database load; its
        true edge unlinks the output file and exits non-zero; no possibly-zero
        exit can be reached from a loading call without passing the test.
  R16.2 ready-set guard of write_python_table_native: a library is appended
        only when its remaining-dependency set is empty and it is not yet in
        the list; dependencies are erased only when already emitted or on the
        reported-cycle branch; the three emission loops range over the same
        vector in ascending order.
Not decided: that the order is topological for every graph and that cycle
breaking terminates (a statement about run-time graphs).
"""
from ..facts import peel, strip_casts, show, walk, cond_atom
from .common import (callee_short, field_of, assigned_target, const_int, local_ref, enclosing_loops, loop_container, deref)
from . import gates as G
from . import C19

LEVEL = "other"
EXPLANATION = ("Post-dominance of the error-flag test over every load-triggering call, unlink+non-zero exit on its true edge, and the "
               "shape of the ready-set extraction and of the emission loops in interrogate_module.cxx; necessary conditions of C16, "
               "not a proof that the emitted order is topological.")
TRUSTED = ["clang 14 AST/CFG and call graph (direct calls + virtual overriders)", "std::set/std::vector semantics"]
ASSUMPTIONS = ["database loads are triggered only through InterrogateDatabase::check_latest (R13.1)"]


def _cycle_pos(fn, e, vec):
    """('front', k) for vec[k] / vec.front() / vec.at(k); ('back', k) for vec.back() / vec[vec.size()-1-k]."""
    e = strip_casts(e)
    if e is None or vec is None:
        return None
    on_vec = lambda n: n is not None and (local_ref(n) or {}).get("d") == vec.get("d")
    # *it  with  it = vec.begin() [+ k] / std::next(vec.begin(), k) / vec.end() - k / std::prev(vec.end(), k) / vec.rbegin() [+ k]
    star = None
    if e.get("k") == "un" and e.get("op") == "*":
        star = strip_casts(peel(e.get("e")))
    elif e.get("k") == "call" and callee_short(e) == "operator*" and len(e.get("a", [])) == 1:
        star = strip_casts(peel(e["a"][0]))
    if star is not None:
        off = 0
        while star is not None and star.get("k") == "call":
            nm = callee_short(star)
            a = star.get("a", [])
            if nm in ("operator+", "operator-") and len(a) == 2 and const_int(a[1]) is not None:
                off += const_int(a[1]) if nm == "operator+" else -const_int(a[1])
                star = strip_casts(peel(a[0]))
            elif nm in ("next", "prev") and a:
                k = const_int(a[1]) if len(a) > 1 and a[1].get("k") != "defarg" else 1
                if k is None:
                    return None
                off += k if nm == "next" else -k
                star = strip_casts(peel(a[0]))
            else:
                break
        if star is not None and star.get("k") == "call" and "this" in star and on_vec(star["this"]):
            nm = callee_short(star)
            if nm in ("begin", "cbegin") and off >= 0:
                return ("front", off)
            if nm in ("end", "cend") and off <= -1:
                return ("back", -off - 1)
            if nm in ("rbegin", "crbegin") and off >= 0:
                return ("back", off)
        return None
    if e.get("k") != "call":
        return None
    name = callee_short(e)
    if name in ("front", "back") and "this" in e and (local_ref(e["this"]) or {}).get("d") == vec.get("d"):
        return (name, 0)
    ix = cont = None
    if name == "operator[]" and len(e.get("a", [])) == 2:
        cont, ix = e["a"][0], e["a"][1]
    elif name == "at" and "this" in e and e.get("a"):
        cont, ix = e["this"], e["a"][0]
    if cont is None or (local_ref(cont) or {}).get("d") != vec.get("d"):
        return None
    k = const_int(ix)
    if k is not None and k >= 0:
        return ("front", k)
    ixs = strip_casts(ix)
    if ixs is not None and ixs.get("k") == "bin" and ixs.get("op") == "-":
        l, r = strip_casts(ixs["x"]), const_int(ixs["y"])
        if l is not None and l.get("k") == "call" and callee_short(l) == "size" and (local_ref(l.get("this")) or {}).get("d") == vec.get("d") and r is not None and r >= 1:
            return ("back", r - 1)
    return None


def run(ctx):
    db = ctx.db
    ctx.rule("R16.1", "the interrogate_error_flag() test post-dominates every load-triggering call; its true edge unlinks the output and exits non-zero")
    ctx.rule("R16.2", "libraries.push_back(X) only under deps(X).empty() and X not yet present; erase from a deps set only for emitted libraries or on the cycle branch; emission loops walk `libraries` ascending")
    fn = db.fn("main", file_contains="/interrogate/interrogate_module.cxx")
    cfg = fn.cfg

    # which callees can load a database?
    ll = db.fn("InterrogateDatabase::load_latest")
    cg = db.callgraph
    can_load = set()
    # reverse closure from load_latest
    rev = {}
    for k, outs in cg.items():
        for o in outs:
            rev.setdefault(o, set()).add(k)
    stack = [ll.key]
    while stack:
        k = stack.pop()
        if k in can_load:
            continue
        can_load.add(k)
        stack.extend(rev.get(k, ()))
    by_ns = {}
    for f in db.functions:
        by_ns.setdefault(f.name + "|" + f.sig, []).append(f.key)
    loaders = []
    for n in fn.walk():
        if n.get("k") == "call" and "f" in n:
            keys = by_ns.get(n["f"] + "|" + n.get("s", ""), [])
            if any(k in can_load for k in keys) and n["f"] != "interrogate_error_flag":
                loaders.append(n)
    ctx.floor("R16.1", "load-triggering calls in main", len(loaders), 2)
    tests = []
    for bid, b in cfg.blocks.items():
        if b.cond is None or len(b.succs) != 2:
            continue
        atom, pos = cond_atom(fn, fn.nodes[b.cond])
        if atom is not None and atom.get("k") == "call" and atom.get("f") == "interrogate_error_flag":
            tests.append((bid, 0 if pos else 1))
    if len(tests) != 1:
        ctx.ob("R16.1", "main|error-flag-test", False, fn.loc(), "expected exactly one branch on interrogate_error_flag(), found %d" % len(tests))
        return
    tb, tidx = tests[0]
    sv, _ = C19.status_var(fn)
    exits = C19.exits(fn)
    for L in loaders:
        lb = cfg.locate(L)[0]
        reach = cfg.reachable(lb, cut_blocks=[tb])
        bad = None
        for bid, pos, kind, node in exits:
            if bid in reach and C19.exit_status(fn, kind, node, sv, False) != "nonzero":
                bad = node
        ctx.ob("R16.1", "main|%s@%s|test-post-dominates" % (L["f"], callee_short(L) if False else str(loaders.index(L))), bad is None, fn.loc(L),
               "a possibly-zero exit is %sreachable from %s() without passing the error-flag test" % ("NOT " if bad is None else "", L["f"]))
    # the writers only run when an output file was opened: the test must come after them, not before
    tsucc = cfg.blocks[tb].succs[tidx]
    ok, bad = C19.failure_forces_nonzero(fn, tsucc, sv)
    ctx.ob("R16.1", "main|error-edge|non-zero-exit", ok, fn.loc(fn.nodes[cfg.blocks[tb].cond]),
           "the true edge of interrogate_error_flag() reaches only non-zero exits" if ok else
           "the true edge of interrogate_error_flag() reaches an exit with possibly zero status")
    unl = [c for c in fn.walk() if c.get("k") == "call" and callee_short(c) == "unlink" and "this" in c]
    ublocks = [cfg.locate(u)[0] for u in unl]
    reach_no_unlink = cfg.reachable(tsucc, cut_blocks=ublocks) if tsucc is not None else set()
    ex_no_unlink = [n for bid, pos, kind, n in exits if bid in reach_no_unlink]
    ctx.ob("R16.1", "main|error-edge|unlinks-output", bool(unl) and not ex_no_unlink and cfg.exit not in reach_no_unlink, fn.loc(unl[0]) if unl else fn.loc(),
           "every exit on the error edge is preceded by unlink()" if (unl and not ex_no_unlink) else "an exit on the error edge is reachable without unlink()")
    # same file name as the one opened for writing
    opens = [c for c in fn.walk() if c.get("k") == "call" and callee_short(c) == "open_write" and "this" in c]
    same = bool(unl) and bool(opens) and all(show(peel(u["this"])) == show(peel(opens[0]["this"])) for u in unl)
    ctx.ob("R16.1", "main|error-edge|unlinks-the-opened-file", same, fn.loc(unl[0]) if unl else fn.loc(),
           "unlink() is applied to %s, open_write() to %s" % (show(peel(unl[0]["this"])) if unl else None, show(peel(opens[0]["this"])) if opens else None))
    ctx.info("R16.1(b) not armed: with -c only, no query is made, so a missing .in is never loaded nor reported (F-C16a, ambiguous under the statement 'fails to load')")

    # ------------------------------------------------------------ R16.2
    fw = db.fn("write_python_table_native")
    wcfg = fw.cfg
    libs = None
    for n in fw.walk():
        if n.get("k") == "decls":
            for d in n["d"]:
                if d["n"] == "libraries" or (d.get("t") == "vector_string" and libs is None):
                    libs = d
    pushes = [c for c in fw.walk() if c.get("k") == "call" and callee_short(c) == "push_back" and "this" in c
              and (local_ref(c["this"]) or {}).get("d") == (libs or {}).get("d")]
    if libs is None or len(pushes) != 1:
        ctx.broken("write_python_table_native: `libraries` vector / its single push_back not found")
    push = pushes[0]
    x = local_ref(push["a"][0])
    # deps: reference local initialised from dependencies[X] in the same loop body
    deps = None
    for lp in enclosing_loops(fw, push):
        for n in walk(lp["body"]):
            if n.get("k") == "decls":
                for d in n["d"]:
                    if "&" in d.get("t", "") and "set" in d.get("ct", "") and "init" in d:
                        i = peel(d["init"])
                        if i is not None and i.get("k") == "call" and callee_short(i) == "operator[]":
                            key = local_ref(i["a"][1])
                            if key is not None and x is not None and key.get("d") == x.get("d"):
                                deps = d
        if deps is not None:
            break
    ctx.ob("R16.2", "ready-set|deps-is-dependencies[X]", deps is not None, fw.loc(push),
           "the dependency set tested is dependencies[%s] for the library being appended" % (x["n"] if x else "?"))
    if deps is not None:
        def deps_empty(atom, truth):
            return (atom.get("k") == "call" and callee_short(atom) == "empty" and "this" in atom
                    and (local_ref(atom["this"]) or {}).get("d") == deps["d"] and truth)
        ok = G.gated(fw, push, G.edges_where(fw, deps_empty))
        ctx.ob("R16.2", "ready-set|push-only-when-deps-empty", ok, fw.loc(push),
               "libraries.push_back(%s) is %sbehind deps.empty()" % (x["n"], "" if ok else "NOT "))

        def not_present(atom, truth):
            c = G.cmp_atom(atom)
            if not c:
                return False
            op, a, b = c
            for u, v in ((a, b), (b, a)):
                if u is not None and u.get("k") == "call" and u.get("f") == "std::find" and len(u.get("a", [])) == 3:
                    tgt = local_ref(u["a"][2])
                    rng = [peel(q) for q in u["a"][:2]]
                    on_libs = all(q is not None and q.get("k") == "call" and (local_ref(q.get("this")) or {}).get("d") == libs["d"] for q in rng)
                    is_end = v is not None and v.get("k") == "call" and callee_short(v) == "end" and (local_ref(v.get("this")) or {}).get("d") == libs["d"]
                    if tgt is not None and tgt.get("d") == x.get("d") and on_libs and is_end:
                        o = op if truth else G.NEG[op]
                        return o == "=="
            return False
        ok = G.gated(fw, push, G.edges_where(fw, not_present))
        ctx.ob("R16.2", "ready-set|push-at-most-once", ok, fw.loc(push),
               "libraries.push_back(%s) is %sbehind std::find(libraries…, %s) == end()" % (x["n"], "" if ok else "NOT ", x["n"]))
    # erasures
    erases = [c for c in fw.walk() if c.get("k") == "call" and callee_short(c) == "erase" and "this" in c]
    ctx.floor("R16.2", "erase sites", len(erases), 2)
    for i, e in enumerate(sorted(erases, key=lambda n: fw.line_of(n))):
        arg = deref(e["a"][0]) if e.get("a") else None
        lr = local_ref(arg)
        ok = False
        why = ""
        if lr is not None:
            from .common import iter_container
            cont, lp = iter_container(fw, e, lr)
            if cont is not None and (local_ref(cont) or {}).get("d") == libs["d"]:
                ok = True
                why = "erases libraries already emitted (loop over `libraries`)"
        if not ok:
            # cycle branch: behind !added_any and a successful find_dependency_cycle
            flags = G.bool_flags(fw)
            aa = [d for d, (nm, sets) in flags.items() if any(cfg_ok(fw, s, push) for s in sets)]
            cyc = G.edges_where(fw, G.pred_true("find_dependency_cycle"))
            noadd = G.edges_where(fw, lambda atom, truth: (local_ref(atom) or {}).get("d") in aa and not truth)
            ok = G.gated(fw, e, cyc) and G.gated(fw, e, noadd)
            why = "on the reported-cycle branch (no library could be added and a cycle was found)" if ok else "neither an emitted library nor the reported-cycle branch"
            if ok:
                # only an edge of the cycle just found may be given up: any other edge is a satisfiable constraint
                cyc_calls = [c for c in fw.walk() if c.get("k") == "call" and callee_short(c) == "find_dependency_cycle"]
                cyc_vec = local_ref(cyc_calls[0]["a"][0]) if cyc_calls and cyc_calls[0].get("a") else None
                subj = peel(e["this"])
                src = _cycle_pos(fw, peel(subj["a"][1]), cyc_vec) if (subj is not None and subj.get("k") == "call" and callee_short(subj) == "operator[]" and len(subj.get("a", [])) == 2) else None
                dst = _cycle_pos(fw, peel(e["a"][0]), cyc_vec) if e.get("a") else None
                dep_map = local_ref(cyc_calls[0]["a"][1]) if cyc_calls and len(cyc_calls[0].get("a", [])) > 1 else None
                same_map = src is not None and dep_map is not None and (local_ref(subj["a"][0]) or {}).get("d") == dep_map.get("d")
                on_cycle = (same_map and src is not None and dst is not None and src[0] == dst[0]
                            and ((src[0] == "front" and dst[1] == src[1] + 1) or (src[0] == "back" and src[1] == dst[1] + 1)))
                ctx.ob("R16.2", "erase#%d|edge-of-the-reported-cycle" % i, on_cycle, fw.loc(e),
                       "%s gives up %s" % (show(e), "the edge cycle[i] -> cycle[i+1] of the cycle just found" if on_cycle else "an edge that is not (recognisably) consecutive elements of the cycle just found"))
        ctx.ob("R16.2", "erase#%d" % i, ok, fw.loc(e), "%s: %s" % (show(e), why))
    _library_keys(ctx, fw)
    _cycle_search_is_linear(ctx)
    _cycle_search_starts_from_one_node(ctx)
    _edges_do_not_depend_on_the_graph_so_far(ctx)
    _every_library_added_so_far_is_discounted(ctx)
    _every_type_of_the_module_contributes_edges(ctx)
    # emission loops (iterator-style `for` or range-for)
    n_em = 0
    for n in fw.walk():
        if n.get("k") not in ("for", "forrange"):
            continue
        lits = [s.get("v", "") for s in walk(n["body"]) if s.get("k") == "str"]
        if not any(t in l for l in lits for t in ("_moddef", "_RegisterTypes", "_BuildInstants")):
            continue
        n_em += 1
        if n["k"] == "forrange":
            cont = n.get("range")
            asc = True            # a range-for walks begin() .. end()
        else:
            cont = loop_container(fw, n)
            init = show(n.get("init")) if n.get("init") else ""
            asc = "begin" in init and n.get("inc") is not None and peel(n["inc"]).get("k") in ("call", "un") and "++" in (peel(n["inc"]).get("op") or peel(n["inc"]).get("f", ""))
        on_libs = cont is not None and (local_ref(strip_casts(peel(cont))) or {}).get("d") == libs["d"]
        ctx.ob("R16.2", "emission-loop#%d" % n_em, on_libs and asc, fw.loc(n),
               "emits %s over %s %s" % ([l.strip()[:24] for l in lits if "_" in l][:2], show(cont) if cont else "?", "ascending from begin()" if asc else "NOT ascending"))
    ctx.floor("R16.2", "emission loops", n_em, 5)


def cfg_ok(fn, assign_node, push):
    """the flag assignment that sits next to the push (added_any = true)"""
    a, b = fn.cfg.locate(assign_node), fn.cfg.locate(push)
    return a is not None and b is not None and a[0] == b[0]



def _library_keys(ctx, fw):
    """R16.3: `references each library that contributes to the module exactly once` - the libraries emitted are the keys
    of `dependencies`, so every library name read off a contributing function or type must become a key, whether or not
    the entity has any cross-library edge."""
    db = ctx.db
    ctx.rule("R16.3", "in write_python_table_native every `library_name` read from a contributing function/type is made a key of `dependencies` unconditionally in the same block (operator[] / emplace / insert on the map), not only where an edge is inserted")
    dep = None
    for n in fw.walk():
        if n.get("k") == "decls":
            for d in n["d"]:
                if d["n"] == "dependencies" or ("map" in d.get("ct", d.get("t", "")) and "set" in d.get("ct", d.get("t", "")) and dep is None):
                    dep = d
    if dep is None:
        ctx.broken("write_python_table_native: the dependencies map not found")
    n_names = 0
    for n in fw.walk():
        if n.get("k") != "decls":
            continue
        for d in n["d"]:
            i = strip_casts(peel(d.get("init"))) if d.get("init") is not None else None
            while i is not None and i.get("k") == "ctor" and len([q for q in i.get("a", []) if q.get("k") != "defarg"]) == 1:
                i = strip_casts(peel(i["a"][0]))
            if i is None or i.get("k") != "call" or i.get("f") not in ("interrogate_type_library_name", "interrogate_function_library_name"):
                continue
            # only the names of entities that contribute (the loop's own entity), not of a base / wrapped type
            arg = local_ref(i["a"][0]) if i.get("a") else None
            owner = False
            if arg is not None:
                for st in fw.walk():
                    if st.get("k") == "decls":
                        for dd in st["d"]:
                            ii = strip_casts(peel(dd.get("init"))) if dd.get("init") is not None else None
                            if dd.get("d") == arg.get("d") and ii is not None and ii.get("k") == "call" and ii.get("f") in ("interrogate_get_global_type", "interrogate_get_type", "interrogate_get_function", "interrogate_get_global_function"):
                                owner = True
            if not owner:
                continue
            n_names += 1
            blk = next((a for a in fw.ancestors(n) if a.get("k") == "block"), None)
            ok = False
            where = fw.loc(n)
            for c in fw.walk():
                if c.get("k") != "call" or callee_short(c) not in ("operator[]", "emplace", "try_emplace", "insert"):
                    continue
                subj = c["a"][0] if callee_short(c) == "operator[]" and c.get("opc") else c.get("this")
                if (local_ref(subj) or {}).get("d") != dep["d"]:
                    continue
                keyargs = c["a"][1:] if callee_short(c) == "operator[]" and c.get("opc") else c.get("a", [])
                if not any(x.get("k") == "ref" and x.get("d") == d["d"] for a in keyargs for x in walk(a)):
                    continue
                between = []
                for a in fw.ancestors(c):
                    if a is blk:
                        break
                    between.append(a.get("k"))
                else:
                    continue    # not inside the declaration's block
                if not any(k in ("if", "for", "forrange", "while", "do", "switch", "cond") for k in between):
                    ok = True
                    where = fw.loc(c)
            ctx.ob("R16.3", "write_python_table_native|%s-of-%s|becomes-a-key" % (d["n"], arg["n"]), ok, where,
                   "the library of every contributing %s is %sregistered in `dependencies` unconditionally" % ("type" if "type" in i.get("f", "") else "function", "" if ok else "NOT "))
    ctx.floor("R16.3", "library names read from contributing entities", n_names, 2)



def _cycle_search_is_linear(ctx):
    """R16.4: "dependency cycles are reported and broken without hanging".  The cycle search is a recursive DFS over the
    library graph.  Without a set of finished nodes a DFS enumerates every PATH, which is exponential in a dense acyclic
    graph; and the caller restarts it from every library after a cycle was broken.  Decided structurally: the recursion
    expands a successor only if it is not in a set parameter, and every `return false` of the search is preceded by the
    insertion of the node just expanded into that set - so each library is expanded at most once.  (F-C16b.)"""
    db = ctx.db
    ctx.rule("R16.4", "find_dependency_cycle() recurses into a successor only behind `<set>.count/find(successor)` saying it is absent, and inserts the expanded node into the same set on every path that returns `no cycle`")
    fs = [f for f in db.functions if f.name.endswith("find_dependency_cycle")]
    if not fs:
        ctx.broken("R16.4: find_dependency_cycle not found")
    f = fs[0]
    sets = [p for p in f.params if "set<" in p["t"] and "map<" not in p["t"]]
    rec = [c for c in f.walk() if c.get("k") == "call" and c.get("f") == f.name]
    if not rec:
        ctx.ob("R16.4", "find_dependency_cycle|iterative", True, f.loc(), "no recursion any more (not judged further)")
        return
    ok_gate = False
    ok_ins = False
    which = None
    for sp in sets:
        d = sp["d"]

        def absent(atom, truth, d=d):
            c = G.cmp_atom(atom)
            if not c:
                return False
            op, u, v = c
            if not truth:
                op = G.NEG[op]
            for p, q in ((u, v), (v, u)):
                pp = strip_casts(peel(p)) if p is not None else None
                if pp is not None and pp.get("k") == "call" and callee_short(pp) in ("count", "find") and (local_ref(pp.get("this")) or {}).get("d") == d:
                    if callee_short(pp) == "count":
                        return q is not None and const_int(q) == 0 and op == "=="
                    qq = strip_casts(peel(q)) if q is not None else None
                    return qq is not None and qq.get("k") == "call" and callee_short(qq) == "end" and op == "=="
            return False
        edges = G.edges_where(f, absent)
        gate = bool(edges) and all(G.gated(f, c, edges) for c in rec)
        ins = [c for c in f.walk() if c.get("k") == "call" and callee_short(c) in ("insert", "emplace") and (local_ref(c.get("this")) or {}).get("d") == d]
        rets = [r for r in f.walk() if r.get("k") == "ret" and const_int(r.get("e")) == 0]
        ins_blocks = [f.cfg.locate(c)[0] for c in ins if f.cfg.locate(c)]
        # every `return false` is unreachable from entry once the inserting blocks are cut (= it passes an insertion)
        through = bool(rets) and bool(ins_blocks) and all(f.cfg.locate(r)[0] in ins_blocks or f.cfg.locate(r)[0] not in f.cfg.reachable(cut_blocks=ins_blocks) for r in rets)
        if gate and through:
            ok_gate, ok_ins, which = True, True, sp["n"]
        elif gate or through:
            ok_gate, ok_ins, which = ok_gate or gate, ok_ins or through, sp["n"]
    ctx.ob("R16.4", "find_dependency_cycle|recursion-skips-finished-nodes", ok_gate, f.loc(rec[0]),
           "the recursive call is %sbehind a membership test on a set parameter%s" % ("" if ok_gate else "NOT ", (" `%s`" % which) if which else ""))
    ctx.ob("R16.4", "find_dependency_cycle|no-cycle-return-marks-node-finished", ok_ins, f.loc(),
           "every `return false` %s an insertion into that set" % ("passes" if ok_ins else "does NOT pass"))


def _cycle_search_starts_from_one_node(ctx):
    """R16.5: find_dependency_cycle(path, ...) extends `path` and, when it answers true, leaves in it the cycle that the
    caller prints and BREAKS (`dependencies[cycle[0]].erase(cycle[1])`).  The answer is a cycle only if the path held
    nothing but the start library when the search began; left-overs of an earlier, unsuccessful search make it report a
    cycle that does not exist and erase a real dependency, after which a derived library is initialised before its base.
    (Seed S8-C16: the vector hoisted out of the loop and cleared only at the end of the body, which `continue` skips.)"""
    db = ctx.db
    ctx.rule("R16.5", "the path vector handed to find_dependency_cycle by its (non-recursive) caller is declared inside the loop iteration that makes the call, or is cleared on every way from the loop's test to the call")
    n = 0
    for f in db.functions:
        if not f.file.endswith("interrogate_module.cxx") or f.name.endswith("find_dependency_cycle"):
            continue
        for c in f.walk():
            if not (c.get("k") == "call" and callee_short(c) == "find_dependency_cycle" and c.get("a")):
                continue
            n += 1
            r = local_ref(c["a"][0])
            inst = "%s|find_dependency_cycle(%s)|fresh-path" % (f.name, (r or {}).get("n", "?"))
            if r is None:
                ctx.ob("R16.5", inst, False, f.loc(c), "the path argument is not a local vector")
                continue
            d = r["d"]
            loops = list(enclosing_loops(f, c))
            decl = None
            for y in f.walk():
                if y.get("k") == "decls" and any(dd.get("d") == d for dd in y["d"]):
                    decl = y
            if not loops:
                ctx.ob("R16.5", inst, decl is not None, f.loc(c), "called once, outside any loop")
                continue
            lp = loops[0]
            if decl is not None and any(z is decl for z in walk(lp.get("body") or {})):
                ctx.ob("R16.5", inst, True, f.loc(c), "`%s` is declared inside the loop body: a new, empty vector for every start library" % r.get("n"))
                continue
            head = lp.get("c")
            if head is None and lp.get("k") == "forrange":
                hid = [h for h in lp.get("hid", []) if isinstance(h, dict) and f.cfg.locate(h) is not None]
                head = hid[3] if len(hid) > 3 else (hid[-1] if hid else None)
            clears = [y for y in walk(lp.get("body") or {}) if (y.get("k") == "call" and callee_short(y) == "clear" and "this" in y and (local_ref(y["this"]) or {}).get("d") == d)
                      or (assigned_target(y) and (local_ref(assigned_target(y)[0]) or {}).get("d") == d)]
            stale = head is None or G.reaches_avoiding(f, head, clears, c)
            ctx.ob("R16.5", inst, not stale, f.loc(c),
                   "`%s` outlives the iteration and is emptied on every way to the call" % r.get("n") if not stale else
                   "`%s` outlives the iteration and can reach the call still holding the previous search's path" % r.get("n"))
    ctx.floor("R16.5", "callers of find_dependency_cycle", n, 1)


def _edges_do_not_depend_on_the_graph_so_far(ctx):
    """R16.6: the dependency graph is filled in one pass over the types, in database order.  Whether an edge "library of
    the derived type -> library of its base" is recorded may depend on the two types only - never on what the map holds
    at that moment, which is a function of the order of the .in files on the command line.  (Seed S9-C16: edges were
    recorded only if `dependencies.count(baselib) != 0`; a base library that publishes types but no functions has no
    key yet when the derived library's types come first, and the module then initialises the derived library first.)"""
    db = ctx.db
    ctx.rule("R16.6", "in write_python_table_native, no condition on the way to an insert into a library's dependency set reads the dependencies map itself")
    fs = [g for g in db.functions if g.name.endswith("write_python_table_native")]
    if not fs:
        ctx.broken("R16.6: write_python_table_native not found")
        return
    f = fs[0]
    dep = None
    for y in f.walk():
        if y.get("k") == "decls":
            for dd in y["d"]:
                if dep is None and "map<" in (dd.get("t") or "") + (dd.get("ct") or "") and "set<" in (dd.get("t") or "") + (dd.get("ct") or ""):
                    dep = dd
    if dep is None:
        ctx.broken("R16.6: the dependencies map was not found")
        return
    # references bound to an element of the map
    aliases = {dep["d"]}
    for y in f.walk():
        if y.get("k") == "decls":
            for dd in y["d"]:
                if dd.get("init") is not None and (dd.get("t") or "").rstrip().endswith("&") and any(z.get("k") == "ref" and z.get("d") == dep["d"] for z in walk(dd["init"])):
                    aliases.add(dd["d"])
    n = 0
    for c in f.walk():
        if not (c.get("k") == "call" and callee_short(c) in ("insert", "emplace") and "this" in c):
            continue
        roots = [z for z in walk(c["this"]) if z.get("k") == "ref" and z.get("d") in aliases]
        if not roots:
            continue
        # only the edge-collection phase: before the ordering loop (which legitimately reads the map)
        if any(lp.get("k") == "while" for lp in enclosing_loops(f, c)):
            continue
        n += 1
        bad = []
        for a in f.ancestors(c):
            if a.get("k") == "if" and any(z is c for z in walk(a.get("then") or {})):
                if any(z.get("k") == "ref" and z.get("d") == dep["d"] for z in walk(a["c"])):
                    bad.append(a)
        ctx.ob("R16.6", "write_python_table_native|%s|edge-independent-of-map-state" % show(c)[:50].replace(" ", ""), not bad, f.loc(c),
               "the edge is recorded whatever the map holds so far" if not bad else
               "the edge is recorded only if `%s`: that depends on the order in which libraries were met" % show(bad[0]["c"])[:70])
    ctx.floor("R16.6", "edge inserts in the collection phase", n, 2)


EDGE_SCAN_CONDITIONS = ("interrogate_type_has_module_name", "interrogate_type_module_name", "interrogate_type_has_library_name", "operator==")


def _every_type_of_the_module_contributes_edges(ctx):
    """R16.7: a library must be initialised after every library that one of ITS types derives from - any of its global
    types: top-level or nested, class or typedef.  The loop over the global types may therefore reach the scan of a
    type's derivations under no other condition than "the type belongs to this module and has a library name"; nothing
    in the loop skips a type on other grounds.  (Seed S11-C16: nested types were skipped "because the outer class names
    the same library"; `Toolbox::Hammer : Widget` then contributed no edge and libalpha was initialised first.)"""
    db = ctx.db
    ctx.rule("R16.7", "in write_python_table_native the loop over the global types reaches the derivation scan under the module/library-name tests only, and contains no `continue`")
    fs = [g for g in db.functions if g.name.endswith("write_python_table_native")]
    if not fs:
        ctx.broken("R16.7: write_python_table_native not found")
        return
    f = fs[0]
    n = 0
    for lp in f.walk():
        if lp.get("k") not in ("for", "forrange", "while"):
            continue
        body = lp.get("body") or {}
        scans = [c for c in walk(body) if c.get("k") == "call" and callee_short(c) == "interrogate_type_number_of_derivations"]
        if not scans or not any(c.get("k") == "call" and callee_short(c) == "interrogate_get_global_type" for c in walk(body)):
            continue
        n += 1
        skips = [y for y in walk(body) if y.get("k") == "continue" and next((a for a in f.ancestors(y) if a.get("k") in ("for", "forrange", "while", "do")), None) is lp]
        conds = []
        for a in f.ancestors(scans[0]):
            if a is lp:
                break
            if a.get("k") == "if" and any(z is scans[0] for z in walk(a.get("then") or {})):
                conds.append(a["c"])
        foreign = []
        for c in conds:
            for z in walk(c):
                if z.get("k") == "call" and callee_short(z) not in EDGE_SCAN_CONDITIONS and not (z.get("f") or "").startswith("std::"):
                    foreign.append(z)
        ok = not skips and not foreign
        ctx.ob("R16.7", "write_python_table_native|global-type-loop|no-type-skipped", ok, f.loc(skips[0]) if skips else (f.loc(foreign[0]) if foreign else f.loc(lp)),
               "every global type of the module with a library name has its derivations scanned" if ok else
               ("a `continue` skips some types before their derivations are scanned" if skips else "the scan also depends on %s()" % callee_short(foreign[0])))
    ctx.floor("R16.7", "loops over the global types that scan derivations", n, 1)


def _every_library_added_so_far_is_discounted(ctx):
    """R16.8: a library is emitted once every library it depends on has been emitted.  The ordering loop discounts the
    emitted libraries from each pending set by erasing them; a set inspected for the first time in a later pass has had
    none of the earlier ones erased, so the erase loop must run over the WHOLE `libraries` vector: a range-for, or an
    iterator loop initialised with plain `libraries.begin()` and compared against `libraries.end()`.  (Seed S12-C16:
    `libraries.begin() + num_checked`; a deriving library that sorts before its base never became ready and
    interrogate_module printed "Circular dependency" forever.)"""
    db = ctx.db
    ctx.rule("R16.8", "in write_python_table_native the loop that erases emitted libraries from a pending set starts at libraries.begin()")
    fs = [g for g in db.functions if g.name.endswith("write_python_table_native")]
    if not fs:
        ctx.broken("R16.8: write_python_table_native not found")
        return
    f = fs[0]
    n = 0
    for lp in f.walk():
        if lp.get("k") not in ("for", "forrange"):
            continue
        body = lp.get("body") or {}
        if any(z.get("k") in ("for", "forrange", "while", "do") for z in walk(body) if z is not body):
            continue            # innermost loops only
        er = [c for c in walk(body) if c.get("k") == "call" and (c.get("f") or "").endswith("set::erase")]
        if not er:
            continue
        if lp.get("k") == "forrange":
            rng = strip_casts(lp.get("range") or {})
            if not (rng and rng.get("k") == "ref" and "vector" in (rng.get("t") or "") + (rng.get("ct") or "")):
                continue
            n += 1
            ctx.ob("R16.8", "write_python_table_native|erase-loop@%s|whole-vector" % f.loc(lp).split(":")[-1], True, f.loc(lp), "range-for over the whole vector")
            continue
        decls = (lp.get("init") or {}).get("d") or []
        if len(decls) != 1:
            continue
        ini = peel(decls[0].get("init") or {})
        if "vector" not in (decls[0].get("t") or ""):
            continue
        n += 1
        whole = ini.get("k") == "call" and (ini.get("f") or "") in ("std::vector::begin", "std::vector::cbegin") and not ini.get("a")
        ctx.ob("R16.8", "write_python_table_native|erase-loop@%s|whole-vector" % f.loc(lp).split(":")[-1], whole, f.loc(lp),
               "starts at begin()" if whole else "starts at `%s`: libraries emitted before that position are never discounted from a set seen later" % show(decls[0].get("init") or {}))
    ctx.floor("R16.8", "erase loops over the emitted libraries", n, 1)
