"""C20 — the query interface is total; lookups exact.

Decided:
  R20.1 every positional accessor subscripts only under `n >= 0` and
        `n < (int)C.size()` for the same container C; the other paths return a
        neutral value.
  R20.2 index lookups dereference the find() result only on the != end() edge
        and return a static default-constructed record otherwise; the default
        constructors give every scalar field a constant.
  R20.3 the two bisection recursions make progress on every recursive call.
  R20.4 string positions in interrogatedb cannot exceed the size (R15.2 shapes).
  R20.5 every extern "C" entry point is defined and reaches data only through
        get_ptr() + total database members + record accessors; c_str() is never
        taken of a temporary.
  R20.6 number_of_X() counts the container get_X(n) subscripts.
Not decided: exactness of by-name lookups on particular contents (std::map
semantics trusted); validity of const char* arguments.
"""
import re

from ..facts import peel, strip_casts, show, walk, cond_atom
from .common import (callee_short, field_of, base_of, deref, assigned_target, const_int,
                     local_ref, enclosing_loops)
from . import strpos

LEVEL = "proof"
EXPLANATION = ("Bounds domination of positional accessors, miss handling of index lookups, recursion progress of the bisections, "
               "string-position guards and interface closure of the 164 C entry points, on all paths of the named functions.")
TRUSTED = ["clang 14 AST/CFG", "std::map/std::vector semantics", "callers pass valid C strings"]
ASSUMPTIONS = ["NDEBUG build: assert() is not a guard", "InterrogateDatabase members not reachable from the C interface (update_*, add_*) are out of scope"]

IDB_FILES = ("interrogateComponent", "interrogateType", "interrogateFunction", "interrogateFunctionWrapper",
             "interrogateElement", "interrogateManifest", "interrogateMakeSeq", "interrogateDatabase")


def _in_idb(f):
    return "/interrogatedb/" in f.file and any(("/" + s + ".") in f.file for s in IDB_FILES)


def _subscripts(fn):
    """(node, container expr, index expr) for vector/array subscripts."""
    for n in fn.walk():
        if n.get("k") == "call" and n.get("opc") and n.get("f") in ("std::vector::operator[]", "std::basic_string::operator[]") and len(n.get("a", [])) == 2:
            yield n, peel(n["a"][0]), n["a"][1]
        elif n.get("k") == "call" and n.get("f") in ("std::vector::at",) and "this" in n:
            yield n, peel(n["this"]), n["a"][0]
        elif n.get("k") == "idx":
            yield n, peel(n["b"]), n["x"]


def _size_of(n):
    """X for  (int)X.size()  /  X.size()."""
    n = strip_casts(n)
    if n is not None and n.get("k") == "call" and "this" in n and callee_short(n) in ("size", "length"):
        return show(peel(n["this"]))
    return None


# raw arrays in InterrogateModuleDef and their element counts
RAW_COUNTS = {"fptrs": "num_fptrs", "unique_names": "num_unique_names"}


def _bound_edges(fn, var_decl, cont, raw_count=None):
    """Edges establishing var >= 0 and var < size(cont)."""
    from . import gates as G
    cs = show(cont)

    def isvar(n):
        return n is not None and n.get("k") == "ref" and n.get("d") == var_decl

    def norm(atom, truth):
        c = G.cmp_atom(atom)
        if not c:
            return None
        op, a, b = c
        a_raw, b_raw = (atom.get("x"), atom.get("y")) if atom.get("k") == "bin" else (atom["a"][0], atom["a"][1])
        if isvar(b) and not isvar(a):
            op, a, b, a_raw, b_raw = G.SWAP[op], b, a, b_raw, a_raw
        if not isvar(a):
            return None
        if not truth:
            op = G.NEG[op]
        return op, b, b_raw

    def lower(atom, truth):
        r = norm(atom, truth)
        if not r:
            return False
        op, b, _ = r
        cb = const_int(b)
        return cb is not None and ((op == ">=" and cb >= 0) or (op == ">" and cb >= -1) or (op == "==" and cb >= 0))

    def upper(atom, truth):
        r = norm(atom, truth)
        if not r:
            return False
        op, b, b_raw = r
        if op != "<":
            return False
        if _size_of(b_raw) == cs:
            return True
        if raw_count is not None and field_of(b) and field_of(b).endswith(raw_count):
            return True
        return False
    return G.edges_where(fn, lower), G.edges_where(fn, upper)


# local subscripts that are not judged here, with the reason
LOCAL_INDEX_EXEMPT = {
    ("binary_search_module", "mid"): "midpoint of [begin, end): in range by the bisection invariant, R20.3 decides the shrinking",
    ("find_module", "mi"): "result of binary_search_module(0, size()) on a non-empty vector (the empty case returns first)",
}


def _counts_up_from_zero(fn, decl):
    """A local that is only ever set to a non-negative constant or incremented, and whose address never escapes."""
    seen = False
    for n in fn.walk():
        if n.get("k") == "decls":
            for d in n["d"]:
                if d.get("d") == decl:
                    seen = True
                    if "init" in d:
                        c = const_int(d["init"])
                        if c is None or c < 0:
                            return False
        refs = [x for x in walk(n) if x.get("k") == "ref" and x.get("d") == decl] if n.get("k") in ("bin", "un", "call", "ctor") else []
        if not refs:
            continue
        if n.get("k") == "bin" and n.get("op", "").endswith("=") and n.get("op") not in ("==", "!=", "<=", ">="):
            t = strip_casts(peel(n.get("x")))
            if t is not None and t.get("k") == "ref" and t.get("d") == decl:
                c = const_int(n.get("y"))
                if n["op"] not in ("=", "+=") or c is None or c < 0:
                    return False
        if n.get("k") == "un" and n.get("op") in ("--", "post--", "&"):
            t = strip_casts(peel(n.get("e")))
            if t is not None and t.get("k") == "ref" and t.get("d") == decl:
                return False
        if n.get("k") in ("call", "ctor"):
            for a in n.get("a", []):
                # bound to a reference parameter: the bare lvalue, no lvalue-to-rvalue conversion around it
                if a is not None and a.get("k") == "ref" and a.get("d") == decl:
                    return False
    return seen


def _neutral(db, fn, e):
    """Is a returned expression a defined neutral value?"""
    e0 = peel(e)
    n = strip_casts(e0)
    if n is None:
        return True  # return;
    if n.get("k") in ("int", "bool", "nullp", "chr"):
        return const_int(n) in (0, None) or n.get("k") == "nullp"
    if n.get("k") == "ref":
        if n.get("dk") == "enumc":
            return n.get("v") == 0
        if n.get("dk") == "global":
            g = db.globals.get(n["n"])
            return g is not None and _default_init(g.get("init"))
        if n.get("dk") == "local":
            for x in fn.walk():
                if x.get("k") == "decls":
                    for d in x["d"]:
                        if d.get("d") == n.get("d") and d.get("static"):
                            return _default_init(d.get("init"))
            return False
    if n.get("k") == "mem":
        # static data member reached through this
        g = db.globals.get(n["n"])
        return g is not None and _default_init(g.get("init"))
    if n.get("k") == "ctor":
        return _default_init(n)
    if n.get("k") == "str":
        return n.get("v") == ""
    return False


def _default_init(init):
    if init is None:
        return True
    i = peel(init)
    if i is None:
        return True
    if i.get("k") == "ctor":
        return all(a.get("k") == "defarg" for a in i.get("a", []))
    if i.get("k") == "zero":
        return True
    return const_int(i) == 0


def run(ctx):
    db = ctx.db
    ctx.rule("R20.1", "a subscript indexed by a function parameter is reachable only through `n >= 0` and `n < size()` of the same container; out-of-range paths return a neutral value")
    ctx.rule("R20.2", "get_<kind>(index) dereferences the find() result only on the != end() edge, else returns a static default-constructed record; record constructors initialise every scalar field with a constant")
    ctx.rule("R20.3", "each self-recursive call of a bisection strictly shrinks [begin, end)")
    ctx.rule("R20.4", "string position arguments (literal k, size()-k, size()-size()) are dominated by a size test")
    ctx.rule("R20.5", "every extern \"C\" interrogate_* function is defined and composed only of get_ptr(), database members, record accessors and c_str() on non-temporaries")
    ctx.rule("R20.6", "number_of_X()/get_num_X() returns size() of the container that the matching positional accessor subscripts")

    # ------------------------------------------------------------- R20.1
    n_pos = 0
    not_judged = []
    positional = {}  # function name -> container show
    for fn in db.functions:
        if not _in_idb(fn):
            continue
        params = {p["d"]: p for p in fn.params}
        for node, cont, idx in _subscripts(fn):
            ix = strip_casts(idx)
            lr = ix if (ix is not None and ix.get("k") == "ref" and ix.get("dk") in ("param", "local")) else None
            is_local = lr is not None and lr.get("d") not in params
            if lr is None or (is_local and (fn.name.split("::")[-1], lr["n"]) in LOCAL_INDEX_EXEMPT):
                if lr is not None or const_int(ix) is None:
                    not_judged.append("%s %s" % (fn.loc(node), show(node)))
                continue
            n_pos += 1
            cf = field_of(cont)
            raw = RAW_COUNTS.get(cf.split("::")[-1]) if cf else None
            lower, upper = _bound_edges(fn, lr["d"], cont, raw)
            cfg = fn.cfg
            loc = cfg.locate(node)
            name = "%s(%s)|%s[%s]" % (fn.name, ",".join(p["t"] for p in fn.params), show(cont), lr["n"])
            ok_l = loc[0] not in cfg.reachable(cut_edges=lower) or (is_local and _counts_up_from_zero(fn, lr["d"]))
            ok_u = loc[0] not in cfg.reachable(cut_edges=upper)
            ctx.ob("R20.1", name + "|lower", ok_l, fn.loc(node), "%s is %sdominated by a test %s >= 0" % (show(node), "" if ok_l else "NOT ", lr["n"]))
            ctx.ob("R20.1", name + "|upper", ok_u, fn.loc(node), "%s is %sdominated by a test %s < size of %s" % (show(node), "" if ok_u else "NOT ", lr["n"], show(cont)))
            positional.setdefault(fn.name, show(cont))
            # neutral returns on the out-of-range paths
            if ok_l and ok_u:
                out_reach = cfg.reachable(cut_edges=lower) | cfg.reachable(cut_edges=upper)
                for bid in out_reach:
                    for r in cfg.roots(bid):
                        rn = fn.nodes.get(r)
                        if rn is not None and rn.get("k") == "ret":
                            good = _neutral(db, fn, rn.get("e"))
                            ctx.ob("R20.1", name + "|neutral-return", good, fn.loc(rn),
                                   "out-of-range path returns %s" % show(rn.get("e")))
    ctx.floor("R20.1", "positional accessors", n_pos, 30)
    for s in not_judged[:25]:
        ctx.info("R20.1 not judged (index is not a parameter): " + s)

    # ------------------------------------------------------------- R20.2
    kinds = ["type", "function", "wrapper", "manifest", "element", "make_seq"]
    for kd in kinds:
        fn = db.fn("InterrogateDatabase::get_" + kd)
        cfg = fn.cfg
        finds = [c for c in fn.calls("std::map::find")]
        if len(finds) != 1:
            ctx.broken("get_%s: expected one map::find" % kd)
        mapf = field_of(finds[0]["this"])
        # the iterator local
        it = None
        for n in fn.walk():
            t = assigned_target(n)
            if t and any(x is finds[0] for x in walk(t[1])):
                it = local_ref(t[0])
            if n.get("k") == "decls":
                for d in n["d"]:
                    if "init" in d and any(x is finds[0] for x in walk(d["init"])):
                        it = {"d": d["d"], "n": d["n"]}
        if it is None:
            ctx.broken("get_%s: iterator variable not found" % kd)
        # edges on which it != end()
        good_edges = []
        for bid, b in cfg.blocks.items():
            if b.cond is None or len(b.succs) != 2:
                continue
            atom, pos = cond_atom(fn, fn.nodes[b.cond])
            if atom is not None and atom.get("k") == "call" and callee_short(atom) in ("operator==", "operator!=") and len(atom["a"]) == 2:
                sides = [peel(a) for a in atom["a"]]
                has_it = any(s is not None and s.get("k") == "ref" and s.get("d") == it["d"] for s in sides)
                has_end = any(s is not None and s.get("k") == "call" and callee_short(s) == "end" and field_of(s.get("this")) == mapf for s in sides)
                if has_it and has_end:
                    eq = callee_short(atom) == "operator=="
                    ne_true = (not eq) == pos
                    good_edges.append((bid, 0 if ne_true else 1))
        derefs = []
        for n in fn.walk():
            if n.get("k") == "call" and n.get("opc") and callee_short(n) in ("operator*", "operator->"):
                a = local_ref(n["a"][0])
                if a is not None and a.get("d") == it["d"]:
                    derefs.append(n)
        if not derefs:
            ctx.broken("get_%s: no dereference of the find() result" % kd)
        reach = cfg.reachable(cut_edges=good_edges)
        for dnode in derefs:
            ok = cfg.locate(dnode)[0] not in reach
            ctx.ob("R20.2", "get_%s|deref-only-when-found" % kd, ok, fn.loc(dnode),
                   "dereference of %s is %sguarded by %s != %s.end()" % (it["n"], "" if ok else "NOT ", it["n"], (mapf or "?").split("::")[-1]))
        # miss path returns a static default-constructed local
        miss_ok = False
        for bid in reach:
            for r in cfg.roots(bid):
                rn = fn.nodes.get(r)
                if rn is not None and rn.get("k") == "ret":
                    miss_ok = _neutral(db, fn, rn.get("e"))
                    ctx.ob("R20.2", "get_%s|miss-returns-neutral" % kd, miss_ok, fn.loc(rn), "on a miss returns %s" % show(rn.get("e")))
    # constructors give every scalar field a constant
    n_scalar = 0
    for rec in ["InterrogateComponent", "InterrogateType", "InterrogateFunction", "InterrogateFunctionWrapper",
                "InterrogateElement", "InterrogateManifest", "InterrogateMakeSeq"]:
        # (nested Derivation/EnumValue/Parameter records only occur as vector elements;
        #  the neutral records have empty vectors, so their fields are never observed)
        r = db.record(rec)
        short = rec.split("::")[-1]
        ctors = [f for f in db.fns(rec + "::" + short) if "InterrogateModuleDef" in f.sig or f.sig.startswith("void ()")]
        scalars = [f for f in r["fields"] if not f.get("static") and _is_scalar(f["ct"])]
        if not scalars:
            continue
        if not ctors:
            # implicit default constructor: scalars stay indeterminate unless they have in-class initialisers
            for f in scalars:
                n_scalar += 1
                ctx.ob("R20.2", "%s|init|%s" % (rec, f["n"]), "init" in f, "%s:%d" % (r["file"].replace("/repo/", ""), f.get("line", 0)),
                       "no user constructor; field %s in-class initialiser" % ("has an" if "init" in f else "has NO"))
            continue
        for c in ctors:
            inited = {}
            for ini in c.d.get("inits", []):
                if ini.get("m") and ini.get("written"):
                    inited[ini["m"].split("::")[-1]] = ini.get("e")
            for x in c.walk():
                t = assigned_target(x)
                if t and field_of(t[0]):
                    b = base_of(t[0])
                    if b is None or b.get("k") == "this":
                        inited.setdefault(field_of(t[0]).split("::")[-1], t[1])
            for f in scalars:
                n_scalar += 1
                e = inited.get(f["n"])
                const = e is not None and (const_int(e) is not None or (strip_casts(e) or {}).get("k") in ("nullp", "flt")
                                           or ((strip_casts(e) or {}).get("k") == "ref" and (strip_casts(e) or {}).get("dk") == "param"))
                if "init" in f:
                    const = True
                ctx.ob("R20.2", "%s|init|%s" % (rec, f["n"]), const, c.loc(),
                       "scalar field %s %s" % (f["n"], ("initialised to %s" % show(e)) if e is not None else "is NOT initialised by the constructor"))
    ctx.floor("R20.2", "scalar fields of record classes", n_scalar, 30)

    # ------------------------------------------------------------- R20.3
    n_rec = 0
    for fn in db.methods_of("InterrogateDatabase"):
        rec_calls = [c for c in fn.calls(fn.name) if c.get("s") == fn.sig]
        if not rec_calls:
            continue
        if len(fn.params) < 2:
            continue
        n_rec += 1
        pb, pe = fn.params[0], fn.params[1]
        # mid = begin + (end - begin) / 2
        mid = None
        for n in fn.walk():
            if n.get("k") == "decls":
                for d in n["d"]:
                    if "init" in d and re.sub(r"\s+", "", show(d["init"])) == "%s+%s-%s/2" % (pb["n"], pe["n"], pb["n"]):
                        mid = d
        if mid is None:
            ctx.ob("R20.3", "%s|midpoint" % fn.name, False, fn.loc(), "recursive range function without the begin + (end-begin)/2 midpoint: rule cannot judge progress")
            continue
        cfg = fn.cfg
        ge1, ge2 = [], []
        for bid, b in cfg.blocks.items():
            if b.cond is None or len(b.succs) != 2:
                continue
            atom, pos = cond_atom(fn, fn.nodes[b.cond])
            if atom is None or atom.get("k") != "bin":
                continue
            x, y = strip_casts(atom["x"]), strip_casts(atom["y"])

            def isd(n, d):
                return n is not None and n.get("k") == "ref" and n.get("d") == d
            op = atom["op"]
            for polarity, idx in ((True, 0), (False, 1)):
                oo = op if polarity == pos else {"<": ">=", "<=": ">", ">": "<=", ">=": "<", "==": "!=", "!=": "=="}[op]
                # end > begin  (size >= 1)
                if (isd(x, pe["d"]) and isd(y, pb["d"]) and oo == ">") or (isd(x, pb["d"]) and isd(y, pe["d"]) and oo == "<"):
                    ge1.append((bid, idx))
                # mid != begin / mid > begin  (size >= 2)
                if (isd(x, mid["d"]) and isd(y, pb["d"]) and oo in ("!=", ">")) or (isd(x, pb["d"]) and isd(y, mid["d"]) and oo in ("!=", "<")):
                    ge2.append((bid, idx))
                    ge1.append((bid, idx))
        for c in rec_calls:
            a0, a1 = strip_casts(c["a"][0]), strip_casts(c["a"][1])
            blk = cfg.locate(c)[0]
            has1 = blk not in cfg.reachable(cut_edges=ge1)
            has2 = blk not in cfg.reachable(cut_edges=ge2)
            desc = "%s(%s, %s)" % (fn.name.split("::")[-1], show(a0), show(a1))
            if isd(a0, mid["d"]) and isd(a1, pe["d"]):
                ok = has2
                why = "upper half [mid, end) shrinks only if mid > begin, i.e. end - begin >= 2; %s" % ("established by a dominating test" if ok else "no dominating test establishes it (one-element range recurses forever)")
            elif isd(a0, pb["d"]) and isd(a1, mid["d"]):
                ok = has1
                why = "lower half [begin, mid) shrinks if end - begin >= 1; %s" % ("established" if ok else "not established")
            elif show(a0).replace(" ", "") == mid["n"] + "+1" and isd(a1, pe["d"]):
                ok = True
                why = "[mid + 1, end) always shrinks"
            else:
                ok = False
                why = "unrecognised recursive range"
            ctx.ob("R20.3", "%s|%s" % (fn.name, desc.replace(" ", "")), ok, fn.loc(c), why)
    ctx.floor("R20.3", "self-recursive range functions", n_rec, 2)

    # ------------------------------------------------------------- R20.4
    n_sites = 0
    strpos._DB[0] = db
    for fn in db.functions:
        if "/interrogatedb/" not in fn.file or "py_" in fn.file:
            continue
        for call, meth, cls in strpos.sites(fn):
            if cls is None:
                ctx.info("R20.4 not judged: %s %s" % (fn.loc(call), show(call)))
                continue
            n_sites += 1
            ok, desc, need = strpos.judge(fn, call, cls)
            ctx.ob("R20.4", "%s|%s" % (fn.name, re.sub(r"\s+", "", show(call))), ok, fn.loc(call), desc)
    ctx.floor("R20.4", "judged string-position sites in interrogatedb", n_sites, 2)

    # ------------------------------------------------------------- R20.8
    _exact_match(ctx)
    _independent_tables(ctx)
    neutral_answers_of_the_placeholder(ctx)
    # R20.11 = R13.6 seen from the lookup side: a type merged into a different one because the local table of merge_from was
    # asked with another name than it is keyed by can no longer be found by its own (unique, stored) name.  (Seed S8-C20.)
    from .C13 import _local_map_keys_agree
    _local_map_keys_agree(ctx, rid="R20.11")
    module_def_strings_are_nullable(ctx)
    merged_entities_keep_the_surviving_index(ctx)
    module_range_length_is_taken_before_the_move(ctx)

    # ------------------------------------------------------------- R20.7 = R13.2
    ctx.rule("R20.7", "by-name lookups are exact only if the name tables are rebuilt after every load: merge_from resets the freshness word after its last mutation, lookup() refreshes exactly the stale table (= R13.2)")
    from .C13 import cache_rules
    cache_rules(ctx, "R20.7")

    # ------------------------------------------------------------- R20.5 / R20.6
    _interface(ctx, positional)


def _is_scalar(ct):
    ct = ct.replace("const ", "").strip()
    if ct.endswith("*"):
        return True
    return ct in ("int", "bool", "unsigned int", "long", "char", "double", "float", "short", "unsigned long", "AtomicToken") or ct.startswith("enum ")


def _ret_type(sig):
    depth = 0
    for i, ch in enumerate(sig):
        if ch == "(" and depth == 0:
            return sig[:i].strip()
        if ch == "<":
            depth += 1
        elif ch == ">":
            depth -= 1
    return sig


# members of InterrogateDatabase that the C interface may call, and why they are total
DB_TOTAL = {
    "get_ptr": "singleton accessor",
    "get_error_flag": "returns a flag",
    "get_file_major_version": "static int", "get_file_minor_version": "static int",
    "get_current_major_version": "static int", "get_current_minor_version": "static int",
    "get_fptr": "bounds-checked (R20.1) after find_module",
    "get_wrapper_by_unique_name": "R20.3 + R20.4",
    "request_module": "registers a module definition",
}


def _interface(ctx, positional):
    db = ctx.db
    decls = {}
    for name, ds in db.decls.items():
        for d in ds:
            if d["file"].endswith("interrogatedb/interrogate_interface.h") and d.get("externC"):
                decls[name] = d
    ctx.floor("R20.5", "extern C declarations in interrogate_interface.h", len(decls), 160)
    recs = ("InterrogateType", "InterrogateFunction", "InterrogateFunctionWrapper", "InterrogateElement",
            "InterrogateManifest", "InterrogateMakeSeq", "InterrogateComponent")
    dbm = {f.name.split("::")[-1]: f for f in db.methods_of("InterrogateDatabase")}
    for name in sorted(decls):
        fs = [f for f in db.fns(name) if f.file.endswith("interrogate_interface.cxx")]
        if not fs:
            ctx.ob("R20.5", "%s|defined" % name, False, "src/interrogatedb/interrogate_interface.h:%d" % decls[name]["line"], "declared but not defined")
            continue
        fn = fs[0]
        bad = []
        for c in fn.walk():
            k = c.get("k")
            if k == "call":
                f = c.get("f", "")
                short = callee_short(c)
                if f.startswith("InterrogateDatabase::"):
                    m = dbm.get(short)
                    if short in DB_TOTAL:
                        continue
                    if short.startswith(("get_", "lookup_")):
                        continue  # covered by R13.1 (check_latest) + R20.1/R20.2
                    bad.append("calls InterrogateDatabase::%s" % short)
                elif any(f.startswith(r + "::") for r in recs):
                    if short.startswith(("update_", "add_", "remap_", "input", "merge_")):
                        bad.append("calls mutator %s" % f)
                elif f.startswith("std::basic_string::") or f.startswith("std::"):
                    if short == "c_str":
                        obj = peel(c["this"])
                        if obj is not None and obj.get("k") == "cast" and obj.get("ck") in ("ConstructorConversion", "NoOp", "UserDefinedConversion"):
                            bad.append("c_str() of a temporary")
                        elif obj is not None and obj.get("k") in ("call",):
                            rt = _ret_type(obj.get("s", ""))
                            if not rt.endswith("&"):
                                bad.append("c_str() of a temporary returned by %s" % obj.get("f"))
                        elif obj is not None and obj.get("k") == "ctor":
                            bad.append("c_str() of a temporary")
                        elif obj is not None and obj.get("k") == "ref" and obj.get("dk") == "local":
                            st = False
                            for x in fn.walk():
                                if x.get("k") == "decls":
                                    for d in x["d"]:
                                        if d.get("d") == obj.get("d") and d.get("static"):
                                            st = True
                            if not st:
                                bad.append("c_str() of the non-static local %s" % obj["n"])
                elif f in ("DSearchPath::append_directory", "DSearchPath::append_path", "Filename::from_os_specific",
                           "interrogate_request_database", "interrogate_request_module"):
                    continue
                elif f.startswith("Filename::") or f.startswith("DSearchPath::"):
                    continue
                elif f in decls:
                    continue  # composition of interface functions
                else:
                    bad.append("calls %s" % f)
            elif k == "mem" and not c.get("method"):
                # direct data access bypassing accessors
                if c["n"].startswith("InterrogateDatabase::_"):
                    bad.append("reads %s directly" % c["n"])
            elif k in ("idx", "new", "delete"):
                bad.append("raw %s" % k)
        ctx.ob("R20.5", "%s|closure" % name, not bad, fn.loc(), "; ".join(bad) if bad else "composed of get_ptr(), total members and accessors")

    # R20.6: number_of_X <-> get_X(n)
    pairs = 0
    for fn in db.functions:
        if not _in_idb(fn) or fn.params:
            continue
        short = fn.name.split("::")[-1]
        m = re.match(r"(?:number_of_|get_num_)(.+)$", short)
        if not m:
            continue
        stem = m.group(1)
        cls = fn.name.rsplit("::", 1)[0]
        # what it returns
        rets = [n for n in fn.walk() if n.get("k") == "ret"]
        if len(rets) != 1:
            continue
        sz = _size_of(rets[0].get("e"))
        # the matching positional accessor(s)
        cands = []
        for pname, cont in positional.items():
            if not pname.startswith(cls + "::"):
                continue
            ps = pname.split("::")[-1]
            sing = stem[:-1] if stem.endswith("s") else stem
            if stem.endswith("ies"):
                sing = stem[:-3] + "y"
            if stem.endswith("classes"):
                sing = stem[:-2]
            if ps == "get_" + sing:
                cands.append((pname, cont))
        if sz is None or not cands:
            continue
        for pname, cont in cands:
            pairs += 1
            ctx.ob("R20.6", "%s|%s" % (fn.name, pname.split("::")[-1]), sz == cont, fn.loc(),
                   "%s counts %s; %s subscripts %s" % (short, sz, pname.split("::")[-1], cont))
    ctx.floor("R20.6", "count/accessor pairs", pairs, 15)



def _exact_match(ctx):
    """R20.8: `unknown names return 0` needs the hit branch of the unique-name bisection to be reached only when the
    stored name and the query are the same string, not when one is a prefix of the other."""
    from . import gates as G
    db = ctx.db
    ctx.rule("R20.8", "binary_search_wrapper_hash returns an entry's index only behind whole-string equality of the stored name and the query (`!(a < b) && !(b < a)`, `a == b`, strcmp/compare(...) == 0); no length-limited comparison decides a hit")
    fn = db.fn("InterrogateDatabase::binary_search_wrapper_hash")
    key = [p for p in fn.params if "string" in p["t"]]
    if not key:
        ctx.broken("binary_search_wrapper_hash: string parameter not found")
    kd = key[0]["d"]
    # locals that are copies of <entry>->name
    name_locals = set()
    for st in fn.walk():
        if st.get("k") == "decls":
            for d in st["d"]:
                if d.get("init") is not None and any((field_of(x) or "").endswith("InterrogateUniqueNameDef::name") for x in walk(d["init"])) and "string" in d.get("t", ""):
                    name_locals.add(d["d"])

    cmp_locals = {}
    for st in fn.walk():
        if st.get("k") == "decls":
            for d in st["d"]:
                i = strip_casts(peel(d.get("init"))) if d.get("init") is not None else None
                if i is not None and i.get("k") == "call" and callee_short(i) in ("strcmp", "compare") and d.get("t") == "int":
                    # never reassigned
                    if not any(assigned_target(x) and (local_ref(assigned_target(x)[0]) or {}).get("d") == d["d"] for x in fn.walk()):
                        cmp_locals[d["d"]] = i

    def is_key(n):
        n = strip_casts(peel(n))
        if n is not None and n.get("k") == "call" and callee_short(n) in ("c_str", "data") and "this" in n:
            n = strip_casts(peel(n["this"]))
        return (local_ref(n) or {}).get("d") == kd

    def is_name(n):
        n = strip_casts(peel(n))
        if n is None:
            return False
        if n.get("k") == "call" and callee_short(n) in ("c_str", "data") and "this" in n:
            n = strip_casts(peel(n["this"]))
        if n.get("k") == "ctor" and len(n.get("a", [])) >= 1:
            n = strip_casts(peel(n["a"][0]))
        return (local_ref(n) or {}).get("d") in name_locals or (field_of(n) or "").endswith("InterrogateUniqueNameDef::name")

    def rel(atom, truth):
        """-> ('lt', 'nk'|'kn', holds?) / ('eq', holds?)"""
        c = G.cmp_atom(atom)
        if not c:
            return None
        op, a, b = c
        if not truth:
            op = G.NEG[op]
        # strcmp(a, b) <op> 0  /  a.compare(b) <op> 0   (whole-string forms only)
        for u, v, o in ((a, b, op), (b, a, G.SWAP[op])):
            uu = strip_casts(peel(u))
            if uu is not None and uu.get("k") == "ref" and uu.get("d") in cmp_locals:
                uu = cmp_locals[uu["d"]]       # int cmp = strcmp(...); if (cmp < 0) ...
            if uu is not None and uu.get("k") == "call" and const_int(v) == 0:
                nm = callee_short(uu)
                args = uu.get("a", [])
                x = y = None
                if nm == "strcmp" and len(args) == 2:
                    x, y = args
                elif nm == "compare" and "this" in uu and len([q for q in args if q.get("k") != "defarg"]) == 1:
                    x, y = uu["this"], args[0]
                if x is not None:
                    if is_name(x) and is_key(y):
                        return o, "nk"
                    if is_key(x) and is_name(y):
                        return o, "kn"
                return None
        if is_name(a) and is_key(b):
            return op, "nk"
        if is_key(a) and is_name(b):
            return op, "kn"
        return None

    def fact(kind):
        def holds(atom, truth):
            r = rel(atom, truth)
            if not r:
                return False
            op, order = r
            if order == "kn":
                op = G.SWAP[op]        # now: name <op> key
            if kind == "eq":
                return op == "=="
            if kind == "name>=key":
                return op in (">=", "==", ">")
            if kind == "name<=key":
                return op in ("<=", "==", "<")
            return False
        return holds
    hits = [r for r in fn.walk() if r.get("k") == "ret" and r.get("e") is not None and any((field_of(x) or "").endswith("index_offset") for x in walk(r["e"]))]
    if not hits:
        ctx.broken("binary_search_wrapper_hash: the hit return (…->index_offset) not found")
    for r in hits:
        eq = G.gated(fn, r, G.edges_where(fn, fact("eq")))
        ge = G.gated(fn, r, G.edges_where(fn, fact("name>=key")))
        le = G.gated(fn, r, G.edges_where(fn, fact("name<=key")))
        ok = eq or (ge and le)
        ctx.ob("R20.8", "binary_search_wrapper_hash|hit-only-on-equal-names", ok, fn.loc(r),
               "`%s` is %sreached only when the stored name equals the query as whole strings" % (show(r), "" if ok else "NOT "))
    limited = [c for c in fn.walk() if c.get("k") == "call" and (callee_short(c) in ("strncmp", "memcmp", "strncasecmp", "substr") or
               (callee_short(c) == "compare" and len([q for q in c.get("a", []) if q.get("k") != "defarg"]) > 1))]
    ctx.ob("R20.8", "binary_search_wrapper_hash|no-length-limited-comparison", not limited, fn.loc(limited[0]) if limited else fn.loc(),
           "length-limited comparisons in the bisection: %s" % ([show(c)[:50] for c in limited] or "none"))




def _independent_tables(ctx):
    """R20.9: a module definition carries two optional, independent tables: unique names (-> index offsets) and function
    pointers.  Looking a wrapper up by name must not depend on the pointer table (a definition may have names and no
    pointers)."""
    db = ctx.db
    ctx.rule("R20.9", "InterrogateModuleDef::fptrs / num_fptrs are read only by get_fptr(); the unique-name lookup (get_wrapper_by_unique_name, binary_search_wrapper_hash) reads only unique_names / num_unique_names / first_index")
    readers = {}
    for f in db.functions:
        if "/interrogatedb/" not in f.file:
            continue
        for x in f.walk():
            if x.get("k") == "mem" and x.get("n") in ("InterrogateModuleDef::fptrs", "InterrogateModuleDef::num_fptrs"):
                readers.setdefault(f.name, x)
    ctx.floor("R20.9", "readers of the pointer table", len(readers), 1)
    for name, x in sorted(readers.items()):
        ok = name.split("::")[-1] in ("get_fptr",)
        f = db.fn(name)
        ctx.ob("R20.9", "%s|reads-fptr-table" % name, ok, f.loc(x), "%s reads %s%s" % (name, x["n"].split("::")[-1], "" if ok else ": a lookup by name or index must not depend on the optional pointer table"))



def neutral_answers_of_the_placeholder(ctx):
    """R20.10: for an index that names nothing, get_<kind>(index) hands out a default-constructed record and the interface
    function returns whatever the record's accessor computes from it.  "A defined neutral value (0, false)" therefore
    means: every parameterless int/bool accessor, evaluated on the constructor's initial field values, yields 0.
    (F-C20c: _array_size starts at 1, get_array_size() returned it unmasked.)"""
    from .C18 import _evw
    db = ctx.db
    ctx.rule("R20.10", "every parameterless accessor of a database record class that returns an integer or bool evaluates to 0 on the field values the default constructor sets")
    n = 0
    skipped = []
    for rec in ["InterrogateComponent", "InterrogateType", "InterrogateFunction", "InterrogateFunctionWrapper",
                "InterrogateElement", "InterrogateManifest", "InterrogateMakeSeq"]:
        short = rec.split("::")[-1]
        ctors = [f for f in db.fns(rec + "::" + short) if "InterrogateModuleDef" in f.sig or f.sig.startswith("void ()")]
        env = {}
        # base class first
        chain = [rec] if rec == "InterrogateComponent" else ["InterrogateComponent", rec]
        for cls in chain:
            for c in [f for f in db.fns(cls + "::" + cls) if "InterrogateModuleDef" in f.sig or f.sig.startswith("void ()")][:1]:
                for ini in c.d.get("inits", []):
                    if ini.get("m") and ini.get("written") and const_int(ini.get("e")) is not None:
                        env[ini["m"].split("::")[-1]] = const_int(ini["e"])
                for x in c.walk():
                    t = assigned_target(x)
                    if t and field_of(t[0]) and const_int(t[1]) is not None:
                        b = base_of(t[0])
                        if b is None or b.get("k") == "this":
                            env[field_of(t[0]).split("::")[-1]] = const_int(t[1])
        if not ctors:
            continue
        methods = {}
        for m in db.methods_of(rec):
            if not m.params and m.sig.rstrip().endswith("const"):
                methods.setdefault(m.name, m)

        def ev_method(m, depth=0):
            if depth > 4:
                raise ValueError("depth")
            body = m.d.get("body") or {}
            stmts = body.get("s", []) if body.get("k") == "block" else [body]
            if len(stmts) != 1 or stmts[0].get("k") != "ret":
                raise ValueError("not a single return")
            return ev_expr(stmts[0]["e"], depth)

        def ev_expr(e, depth):
            # substitute calls of sibling accessors by their value, then evaluate
            e2 = strip_casts(peel(e))
            if e2 is not None and e2.get("k") == "call" and not e2.get("a") and e2.get("f") in methods and (e2.get("this") is None or (peel(e2.get("this")) or {}).get("k") == "this"):
                return ev_method(methods[e2["f"]], depth + 1)
            if e2 is not None and e2.get("k") == "bin":
                a, b = ev_expr(e2["x"], depth), ev_expr(e2["y"], depth)
                op = e2["op"]
                table = {"&": a & b, "|": a | b, "!=": int(a != b), "==": int(a == b), "&&": int(bool(a) and bool(b)), "||": int(bool(a) or bool(b)),
                         "+": a + b, "-": a - b, "<": int(a < b), ">": int(a > b), ">=": int(a >= b), "<=": int(a <= b)}
                if op not in table:
                    raise ValueError("operator " + op)
                return table[op]
            if e2 is not None and e2.get("k") == "cond":
                return ev_expr(e2["x"], depth) if ev_expr(e2["c"], depth) else ev_expr(e2["y"], depth)
            if e2 is not None and e2.get("k") == "un" and e2.get("op") == "!":
                return int(not ev_expr(e2["e"], depth))
            if e2 is not None and e2.get("k") == "paren":
                return ev_expr(e2["e"], depth)
            return _evw(db, e2, env)
        for name, m in sorted(methods.items()):
            rt = m.sig.split("(")[0].strip()
            if rt not in ("int", "bool") and not rt.endswith("Index"):
                continue
            try:
                v = ev_method(m)
            except (ValueError, KeyError) as ex:
                skipped.append("%s (%s)" % (name, ex))
                continue
            n += 1
            ctx.ob("R20.10", "%s|neutral-on-placeholder" % name, v == 0, m.loc(), "%s() on a default-constructed record = %s" % (name.split("::")[-1], v))
    if skipped:
        ctx.info("R20.10 not judged (body is not a single evaluable return): " + "; ".join(skipped[:12]) + (" ..." if len(skipped) > 12 else ""))
    ctx.floor("R20.10", "parameterless integer/bool accessors evaluated", n, 40)


def module_def_strings_are_nullable(ctx):
    """R20.12: the `const char *` fields of an InterrogateModuleDef (library_name, library_hash_name, module_name,
    database_filename) come from the caller of interrogate_request_module(); each may be null (an anonymous module, a
    module without a database file).  Building a std::string / Filename from one - a map key, a return value - is done
    only behind a test that THE SAME field is not null.  (F-C20d: request_module() tested library_name and keyed
    _modules_by_hash with library_hash_name.)"""
    from . import gates as G
    db = ctx.db
    ctx.rule("R20.12", "in the database library a std::string or Filename is constructed from an InterrogateModuleDef `const char *` field only behind `<same field> != nullptr`")
    n = 0
    for f in db.functions:
        if "/interrogatedb/" not in f.file:
            continue
        for c in f.walk():
            if c.get("k") != "ctor" or not any(t in (c.get("f") or "") for t in ("basic_string::basic_string", "Filename::Filename")) or not c.get("a"):
                continue
            a0 = strip_casts(peel(c["a"][0]))
            if not (a0 is not None and a0.get("k") == "mem" and (a0.get("n") or "").startswith("InterrogateModuleDef::") and "char" in (a0.get("t") or "")):
                continue
            n += 1
            key = show(a0).replace(" ", "")

            def nonnull(atom, truth, key=key):
                ca = G.cmp_atom(atom)
                if ca:
                    op, u, v = ca
                    op = op if truth else G.NEG[op]
                    for p_, q_ in ((u, v), (v, u)):
                        if p_ is not None and q_ is not None and show(p_).replace(" ", "") == key and (strip_casts(peel(q_)) or {}).get("k") == "nullp":
                            return op == "!="
                    return False
                a = strip_casts(peel(atom)) if atom is not None else None
                return a is not None and show(a).replace(" ", "") == key and truth
            e = G.edges_where(f, nonnull)
            ok = bool(e) and G.gated(f, c, e)
            ctx.ob("R20.12", "%s|string(%s)|behind-non-null" % (f.name, key), ok, f.loc(c),
                   "a string is built from %s %s a test that it is not null" % (key, "behind" if ok else "WITHOUT"))
    ctx.floor("R20.12", "strings built from module-definition fields in the database library", n, 2)
    # ... and the same for looking INTO such a string (S10-C20: has_library_name() read `_def->library_name[0]` behind a
    # test of _def only; every database generated without -library crashed the has-name queries)
    m = 0
    for f in db.functions:
        if "/interrogatedb/" not in f.file:
            continue
        for y in f.walk():
            base = None
            if y.get("k") == "idx":
                base = strip_casts(peel(y.get("b")))
            elif y.get("k") == "un" and y.get("op") == "*":
                base = strip_casts(peel(y.get("e")))
            if not (base is not None and base.get("k") == "mem" and (base.get("n") or "").startswith("InterrogateModuleDef::") and "char" in (base.get("t") or "")):
                continue
            m += 1
            key = show(base).replace(" ", "")

            def nonnull2(atom, truth, key=key):
                ca = G.cmp_atom(atom)
                if ca:
                    op, u, v = ca
                    op = op if truth else G.NEG[op]
                    for p_, q_ in ((u, v), (v, u)):
                        if p_ is not None and q_ is not None and show(p_).replace(" ", "") == key and (strip_casts(peel(q_)) or {}).get("k") == "nullp":
                            return op == "!="
                    return False
                a = strip_casts(peel(atom)) if atom is not None else None
                return a is not None and show(a).replace(" ", "") == key and truth
            e = G.edges_where(f, nonnull2)
            ok = bool(e) and G.gated(f, y, e)
            ctx.ob("R20.12", "%s|%s[..]|behind-non-null" % (f.name, key), ok, f.loc(y),
                   "a character of %s is read %s a test that the pointer is not null" % (key, "behind" if ok else "WITHOUT"))
    ctx.info("R20.12: %d direct character reads of module-definition strings" % m)


def merged_entities_keep_the_surviving_index(ctx, rid="R20.13"):
    """R20.13: when merge_from() finds that an incoming entity is one the database already has (`remap.in_map(i)`), the
    incoming index i is DISCARDED: nothing is stored under it.  On that branch every index this database keeps (its
    enumeration lists: _global_types, _all_types, ...) must be the surviving one, `remap.map_from(i)`, never i itself -
    `interrogate_get_global_type(n)` would otherwise return an index that names no entity, and the entity that became
    global would never be enumerated.  (Seed S9-C20: `_global_types.push_back(other_type_index)`.)"""
    from . import gates as G
    db = ctx.db
    ctx.rule(rid, "in merge_from, behind `remap.in_map(i)` being true, no container member of the database receives i (only values derived from remap.map_from(i))")
    f = db.fn("InterrogateDatabase::merge_from")
    n = 0
    for q in f.walk():
        if not (q.get("k") == "call" and callee_short(q) == "in_map" and q.get("a")):
            continue
        r = local_ref(q["a"][0])
        if r is None:
            continue
        d = r["d"]
        e_true = G.edges_where(f, lambda atom, truth, q=q: truth and (strip_casts(peel(atom)) or {}).get("i") == q.get("i"))
        if not e_true:
            continue
        for c in f.walk():
            if not (c.get("k") == "call" and callee_short(c) in ("push_back", "insert", "emplace_back") and "this" in c and c.get("a")):
                continue
            tgt = field_of(strip_casts(peel(c["this"]))) or ""
            if not tgt.startswith("InterrogateDatabase::_"):
                continue
            if not G.gated(f, c, e_true):
                continue
            n += 1
            uses_incoming = any(z.get("k") == "ref" and z.get("d") == d for a in c["a"] for z in walk(a))
            ctx.ob(rid, "merge_from|%s.%s(%s)|surviving-index" % (tgt.split("::")[-1], callee_short(c), show(c["a"][0]).replace(" ", "")[:30]), not uses_incoming, f.loc(c),
                   "the list receives the surviving index" if not uses_incoming else "the list receives `%s`, the incoming index that was just mapped away" % r.get("n"))
    ctx.floor(rid, "lists extended on a merge branch of merge_from", n, 1)


def module_range_length_is_taken_before_the_move(ctx):
    """R20.14: request_module() moves a module's index range [first_index, next_index) to the database's next free index:
    it overwrites def->first_index, advances _next_index by the LENGTH of the range and stores the new end.  The length is
    `next_index - first_index` of the values the module came with, so it must be read before first_index is overwritten.
    Otherwise every module after the first gets a short or reversed range, ranges overlap, and unique names resolve to
    wrappers of other modules.  (Seed S11-C20: the `num_indices` temporary removed.)"""
    from . import gates as G
    db = ctx.db
    ctx.rule("R20.14", "in request_module no expression that reads def->first_index for the range length is evaluated after def->first_index has been assigned")
    f = db.fn("InterrogateDatabase::request_module")
    moves = [y for y in f.walk() if assigned_target(y) and (strip_casts(peel(assigned_target(y)[0])) or {}).get("k") == "mem" and
             (strip_casts(peel(assigned_target(y)[0])).get("n") or "").endswith("InterrogateModuleDef::first_index")]
    if not moves:
        ctx.broken("R20.14: the assignment to def->first_index was not found in request_module")
        return
    n = 0
    for y in f.walk():
        reads = [z for z in walk(y) if z.get("k") == "mem" and (z.get("n") or "").endswith("InterrogateModuleDef::first_index")]
        if not reads or y in moves:
            continue
        is_len = y.get("k") == "bin" and y.get("op") == "-" and any(z.get("k") == "mem" and (z.get("n") or "").endswith("InterrogateModuleDef::next_index") for z in walk(y))
        if not is_len:
            continue
        n += 1
        late = any(G.reaches_avoiding(f, m, [], y) for m in moves)
        ctx.ob("R20.14", "request_module|range-length@%s|before-first_index-is-overwritten" % f.loc(y).split(":")[-1], not late, f.loc(y),
               "`next_index - first_index` is computed from the values the module came with" if not late else
               "`next_index - first_index` is evaluated after first_index was overwritten: the length is wrong for every module but the first")
    ctx.floor("R20.14", "range-length expressions in request_module", n, 1)
