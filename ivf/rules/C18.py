"""C18 — floating-point literals keep their value from header to generated code.

Decided:
  R18.1 routes: real literals enter only through pstrtod and leave generated
        text only through pdtoa (into a buffer that is large enough); no
        locale-dependent parser/printer of doubles in cppparser/interrogate.
  R18.2 Grisu2's constant tables are the mathematically defined values
        (checked with exact integer arithmetic on the initialisers).
  R18.3 lint: the value pstrtod returns must not depend on a loop-carried
        product with an inexactly representable literal nor on pow().
Not decided: that pdtoa's digit generation and pstrtod's accumulation are
correctly rounded for all inputs (a numerical theorem, not a shape property).
"""
from fractions import Fraction

from ..facts import peel, strip_casts, show, walk, cond_atom
from .common import callee_short, field_of, assigned_target, const_int, local_ref, enclosing_loops
from .C04 import switch_arms

LEVEL = "other"
EXPLANATION = ("Routing of real literals (pstrtod in, pdtoa out, no locale-dependent double I/O in the parser/generator), exact check of the "
               "Grisu2 tables read from their initialisers, and a lint for inexact accumulation in pstrtod.  The numerical correctness of "
               "the two algorithms on all inputs is not decided.")
TRUSTED = ["clang 14 AST (integer literal values, FloatingLiteral::isExact)", "Python exact rational arithmetic"]
ASSUMPTIONS = ["pdtoa writes at most 25 bytes (sign, 17 digits, point, e-308, NUL)"]

BAD_PARSERS = ("strtod", "atof", "strtof", "strtold", "std::stod", "std::stof", "std::stold", "std::strtod", "std::atof", "std::strtof")
SCANF = ("sscanf", "scanf", "fscanf", "std::sscanf")
PRINTF = ("printf", "sprintf", "snprintf", "fprintf", "std::snprintf", "std::sprintf")
DIAGNOSTIC_PRINTERS = {
    "CPPToken::output": "debug printer of tokens (parse_file -T style dumps), not generated code",
    "CPPExpression::Result::output": "prints an evaluation result in diagnostics",
}


def _static_tables(fn):
    out = {}
    for n in fn.walk():
        if n.get("k") == "decls":
            for d in n["d"]:
                if d.get("static") and "init" in d and d["init"].get("k") == "init":
                    vals = []
                    for a in d["init"]["a"]:
                        a2 = strip_casts(a)
                        v = const_int(a2)
                        if v is None and a2 is not None and a2.get("k") == "int":
                            v = int(a2["v"])
                        vals.append(v)
                    out[d["n"]] = (vals, fn.loc(n))
    return out


def run(ctx):
    db = ctx.db
    ctx.rule("R18.1", "in cppparser/interrogate real literals are parsed only by pstrtod and printed into generated text only by pdtoa (buffer >= 25 bytes); no strtod/atof/scanf(%f)/istream>>double/ostream<<double outside the frozen diagnostic printers")
    ctx.rule("R18.2", "kCachedPowers_F[i]*2^kCachedPowers_E[i] is the correctly rounded 64-bit significand of 10^(-348+8i); kPow10[k] = 10^k; cDigitsLut = \"00\"..\"99\"; the DiyFp constants are IEEE-754 binary64's")
    ctx.rule("R18.3", "the result of pstrtod does not flow through a loop-carried product with an inexact literal or through pow()")

    # ------------------------------------------------------------ R18.1
    n_sites = 0
    for f in db.functions:
        if not ("/cppparser/" in f.file or "/interrogate/" in f.file or "/interrogatedb/interrogate" in f.file) or "bison" in f.file:
            continue
        for c in f.walk():
            if c.get("k") != "call":
                continue
            fn_ = c.get("f", "")
            if fn_ in BAD_PARSERS:
                ctx.ob("R18.1", "%s|%s" % (f.name, fn_), False, f.loc(c), "locale-dependent / non-repo parser of reals: %s" % show(c)[:80])
            if fn_ in SCANF + PRINTF:
                lits = [x.get("v", "") for x in walk(c) if x.get("k") == "str"]
                import re
                if any(re.search(r"%[-+ #0-9.*]*[lL]?[fFeEgGaA]", l) for l in lits):
                    ctx.ob("R18.1", "%s|%s-float-format" % (f.name, fn_), False, f.loc(c), "%s with a floating-point conversion: %s" % (fn_, lits))
            if fn_ in ("std::basic_ostream::operator<<", "std::basic_istream::operator>>"):
                arg = c.get("s", "").split("(", 1)[-1]
                if any(t in arg for t in ("double", "float")):
                    n_sites += 1
                    ok = f.name in DIAGNOSTIC_PRINTERS and fn_.endswith("<<")
                    ctx.ob("R18.1", "%s|stream-%s-double" % (f.name, "out" if fn_.endswith("<<") else "in"), ok, f.loc(c),
                           "iostream formatting of a real in %s: %s" % (f.name, DIAGNOSTIC_PRINTERS.get(f.name, "NOT a frozen diagnostic printer")))
    ctx.floor("R18.1", "iostream double sites (diagnostic printers)", n_sites, 2)
    # producer of REAL tokens
    gn = db.fn("CPPPreprocessor::get_number")
    prod = []
    for n in gn.walk():
        t = assigned_target(n)
        if t and (field_of(t[0]) or "").endswith("::real"):
            prod.append((n, t[1]))
    ok = bool(prod) and all(any(c.get("k") == "call" and c.get("f") == "pstrtod" for c in walk(rhs)) for _, rhs in prod)
    ctx.ob("R18.1", "get_number|real-through-pstrtod", ok, gn.loc(prod[0][0]) if prod else gn.loc(), "REAL token values are produced by pstrtod()")
    # writers of T_real expressions: CPPExpression(long double)
    # printers
    for fname, sig, label, member in (("CPPExpression::output", "int", "T_real", "_real"), ("CPPToken::output_code", None, "REAL", "real")):
        fn = db.fn(fname, sig_contains=sig)
        calls = [c for c in fn.calls("pdtoa")]
        good = False
        for c in calls:
            a0 = strip_casts(c["a"][0])
            a1 = local_ref(c["a"][1])
            if (field_of(a0) or "").endswith(member) and a1 is not None:
                # buffer size
                for n in fn.walk():
                    if n.get("k") == "decls":
                        for d in n["d"]:
                            if d.get("d") == a1.get("d"):
                                import re
                                m = re.search(r"\[(\d+)\]", d.get("t", ""))
                                if m and int(m.group(1)) >= 25:
                                    good = True
        ctx.ob("R18.1", "%s|%s-through-pdtoa" % (fname, label), good, fn.loc(calls[0]) if calls else fn.loc(),
               "%s values are formatted by pdtoa() into a buffer of at least 25 bytes" % label)

    # ------------------------------------------------------------ R18.2
    gcp = db.fn("GetCachedPower")
    tabs = _static_tables(gcp)
    F = tabs.get("kCachedPowers_F")
    E = tabs.get("kCachedPowers_E")
    if not F or not E:
        ctx.broken("GetCachedPower: cached power tables not found")
    ctx.floor("R18.2", "cached powers", len(F[0]), 87)
    ctx.ob("R18.2", "kCachedPowers|same-length", len(F[0]) == len(E[0]) == 87, F[1], "%d significands, %d exponents" % (len(F[0]), len(E[0])))
    for i, (f, e) in enumerate(zip(F[0], E[0])):
        k = -348 + 8 * i
        x = Fraction(10) ** k / Fraction(2) ** e
        near = int(x + Fraction(1, 2))
        ok = f is not None and e is not None and near == f and (1 << 63) <= f < (1 << 64)
        ctx.ob("R18.2", "kCachedPowers[%d]|10^%d" % (i, k), ok, F[1],
               "F=%s E=%s; the correctly rounded normalised significand of 10^%d at that exponent is %d" % (f, e, k, near))
    # the index arithmetic uses the same origin and step
    txt = " ".join(show(n) for n in gcp.walk() if n.get("k") in ("decls", "bin"))
    ctx.ob("R18.2", "GetCachedPower|origin-and-step", "348" in txt and ("/ 8" in txt or ">> 3" in txt) and ("* 8" in txt or "<< 3" in txt), gcp.loc(),
           "index = (k + 348) / 8 and K = -(-348 + index * 8)")
    dg = db.fn("DigitGen")
    p10 = _static_tables(dg).get("kPow10")
    ok = p10 is not None and all(v == 10 ** k for k, v in enumerate(p10[0][:10])) and all(v == 0 for v in p10[0][10:])
    ctx.ob("R18.2", "kPow10", ok, p10[1] if p10 else dg.loc(), "kPow10[k] == 10^k for k < 10")
    lut = db.globals.get("cDigitsLut")
    ok = False
    if lut and lut.get("init"):
        chars = [const_int(a) for a in lut["init"].get("a", [])]
        want = [ord(c) for n in range(100) for c in "%02d" % n]
        ok = chars == want
    ctx.ob("R18.2", "cDigitsLut", ok, "src/dtoolbase/pdtoa.cxx", "cDigitsLut is \"00\"..\"99\"")
    consts = {"DiyFp::kDiySignificandSize": 64, "DiyFp::kDpSignificandSize": 52, "DiyFp::kDpExponentBias": 0x3FF + 52,
              "DiyFp::kDpMinExponent": -(0x3FF + 52), "DiyFp::kDpExponentMask": 0x7FF0000000000000,
              "DiyFp::kDpSignificandMask": 0x000FFFFFFFFFFFFF, "DiyFp::kDpHiddenBit": 0x0010000000000000}
    for name, want in consts.items():
        g = db.globals.get(name)
        v = _fold(db, g.get("init")) if g and g.get("init") else None
        ctx.ob("R18.2", name, v == want, "src/dtoolbase/pdtoa.cxx:%d" % (g["line"] if g else 0), "%s = %s (IEEE-754 binary64: %s)" % (name, v, want))

    _diyfp_formulas(ctx)
    _diyfp_product(ctx)
    _exponent_text(ctx)
    _interval_width_after_narrowing(ctx)
    _cached_power_lands_in_the_window(ctx)
    # ------------------------------------------------------------ R18.3
    ps = db.fn("pstrtod")
    n_l = 0
    for n in ps.walk():
        if n.get("k") == "bin" and n.get("op") in ("*=", "/=", "*", "/"):
            lit = strip_casts(n["y"])
            if lit is not None and lit.get("k") == "flt" and not lit.get("exact") and next(enclosing_loops(ps, n), None) is not None:
                n_l += 1
                ctx.ob("R18.3", "pstrtod|loop-product-with-inexact-literal|%s" % n["op"], False, ps.loc(n),
                       "`%s` inside a loop: %s is not exactly representable, so the error grows with every digit (0.3 parses to 0.30000000000000007)" % (show(n), lit.get("v")))
    for c in ps.walk():
        if c.get("k") == "call" and c.get("f") in ("pow", "std::pow", "powl", "exp10"):
            par = next(ps.ancestors(c), None)
            n_l += 1
            ctx.ob("R18.3", "pstrtod|scales-with-pow|%s" % (par.get("op", "call") if par else "call"), False, ps.loc(c),
                   "`%s`: the result is scaled by pow(10, e), which is not correctly rounded (1e23 parses to 1.0000000000000001e23, 5e-324 to 0)" % (show(par) if par else show(c)))
    ctx.ob("R18.3", "pstrtod|lint-ran", True, ps.loc(), "%d inexact-accumulation sites reported" % n_l)
    exponent_sign(ctx)
    grisu_round(ctx)

def _ev(db, n, env):
    """Evaluate a small integer expression tree; env maps field/param short names to ints."""
    n = strip_casts(n)
    if n is None:
        raise ValueError("empty")
    k = n.get("k")
    if k in ("int", "chr", "bool"):
        return int(n["v"])
    if k == "mem":
        nm = n["n"].split("::")[-1]
        b = peel(n.get("b"))
        if b is not None and b.get("k") == "ref":
            nm = b["n"] + "." + nm
        if nm in env:
            return env[nm]
        g = db.globals.get(n["n"])
        if g and g.get("init"):
            return _fold(db, g["init"])
        raise ValueError("unknown member " + nm)
    if k == "ref":
        if n.get("dk") == "enumc":
            return int(n["v"])
        if n["n"] in env:
            return env[n["n"]]
        g = db.globals.get(n["n"])
        if g and g.get("init"):
            v = _fold(db, g["init"])
            if v is not None:
                return v
        raise ValueError("unknown name " + n["n"])
    if k == "bin":
        a, b = _ev(db, n["x"], env), _ev(db, n["y"], env)
        op = n["op"]
        if op == "+": return a + b
        if op == "-": return a - b
        if op == "*": return a * b
        if op == "<<": return a << b
        if op == ">>": return a >> b
        if op == "&": return a & b
        if op == "|": return a | b
        if op == "^": return a ^ b
        if op == "&&": return int(bool(a) and bool(b))
        if op == "||": return int(bool(a) or bool(b))
        if op == "==": return int(a == b)
        if op == "!=": return int(a != b)
        raise ValueError("operator " + op)
    if k == "un" and n.get("op") == "-":
        return -_ev(db, n["e"], env)
    if k == "un" and n.get("op") == "~":
        return ~_ev(db, n["e"], env)
    if k == "un" and n.get("op") == "!":
        return int(not _ev(db, n["e"], env))
    if k == "cond":
        return _ev(db, n["x"], env) if _ev(db, n["c"], env) else _ev(db, n["y"], env)
    raise ValueError("node " + str(k))


def _diyfp_formulas(ctx):
    """R18.4: the boundary and decode formulas of Grisu2 (Loitsch 2010, fig. 'boundaries'), evaluated
    from the expression trees at sample points: m+ = (2f+1, e-1); m- = (4f-1, e-2) when f is the
    hidden bit alone (the predecessor is half as far), else (2f-1, e-1)."""
    db = ctx.db
    ctx.rule("R18.4", "DiyFp::NormalizedBoundaries builds m+ = (2f+1, e-1) and m- = (4f-1, e-2) for f == hidden bit, else (2f-1, e-1); DiyFp(double) decodes (significand + hidden bit, biased - bias) and subnormals as (significand, min exponent + 1)")
    fn = db.fn("DiyFp::NormalizedBoundaries")
    hidden = 1 << 52
    ctors = [c for c in fn.walk() if c.get("k") == "ctor" and c.get("f") == "DiyFp::DiyFp" and len(c.get("a", [])) == 2]
    ctx.floor("R18.4", "DiyFp(f, e) constructions in NormalizedBoundaries", len(ctors), 3)
    samples = [(hidden, 0), (hidden, -1074), (hidden + 1, 5), (3 << 51, -60), ((1 << 53) - 1, 971), (hidden, 971)]
    # classify each construction by the formula it matches on all samples
    found = {}
    for c in ctors:
        try:
            vals = [(_ev(db, c["a"][0], {"f": f, "e": e}), _ev(db, c["a"][1], {"f": f, "e": e})) for f, e in samples]
        except ValueError as ex:
            ctx.ob("R18.4", "NormalizedBoundaries|evaluable", False, fn.loc(c), "cannot evaluate %s: %s" % (show(c), ex))
            continue
        for name, F in (("plus", lambda f, e: (2 * f + 1, e - 1)), ("minus-close", lambda f, e: (4 * f - 1, e - 2)), ("minus", lambda f, e: (2 * f - 1, e - 1))):
            if vals == [F(f, e) for f, e in samples]:
                found[name] = c
    for name in ("plus", "minus-close", "minus"):
        ctx.ob("R18.4", "NormalizedBoundaries|%s" % name, name in found, fn.loc(found[name]) if name in found else fn.loc(),
               "boundary %s %s" % (name, "is built with the defined formula" if name in found else "is NOT built with the defined formula (%s)" % [show(c) for c in ctors]))
    # which one is selected when f is the hidden bit
    sel = [n for n in fn.walk() if n.get("k") == "cond"]
    ok = False
    if sel and "minus-close" in found and "minus" in found:
        c = sel[0]
        try:
            ok = bool(_ev(db, c["c"], {"f": hidden, "e": 0})) and not _ev(db, c["c"], {"f": hidden + 2, "e": 0})
            ok = ok and any(x is found["minus-close"] for x in walk(c["x"])) and any(x is found["minus"] for x in walk(c["y"]))
        except ValueError:
            ok = False
    ctx.ob("R18.4", "NormalizedBoundaries|close-boundary-iff-power-of-two", ok, fn.loc(sel[0]) if sel else fn.loc(), "the close lower boundary is used exactly when f == hidden bit")
    # decode
    dc = [f for f in db.fns("DiyFp::DiyFp") if len(f.params) == 1 and f.params[0]["t"] == "double"]
    if not dc:
        ctx.broken("DiyFp(double) not found")
    dc = dc[0]
    assigns = {}
    for n in dc.walk():
        t = assigned_target(n)
        if t and field_of(t[0]) in ("DiyFp::f", "DiyFp::e"):
            assigns.setdefault(field_of(t[0]).split("::")[-1], []).append(t[1])
    ok = False
    try:
        fs = sorted(_ev(db, r, {"significand": 12345, "biased_e": 1000}) for r in assigns.get("f", []))
        es = sorted(_ev(db, r, {"significand": 12345, "biased_e": 1000}) for r in assigns.get("e", []))
        ok = fs == sorted([12345 + hidden, 12345]) and es == sorted([1000 - 1075, -1075 + 1])
    except ValueError:
        ok = False
    ctx.ob("R18.4", "DiyFp(double)|decode", ok, dc.loc(), "normal: (significand + 2^52, biased - 1075); subnormal: (significand, -1074)")


def _fold(db, n):
    n = strip_casts(n)
    if n is None:
        return None
    v = const_int(n)
    if v is not None:
        return v
    if n.get("k") == "int":
        return int(n["v"])
    if n.get("k") == "ref" and n.get("dk") == "global":
        g = db.globals.get(n["n"])
        return _fold(db, g.get("init")) if g and g.get("init") else None
    if n.get("k") == "bin":
        a, b = _fold(db, n["x"]), _fold(db, n["y"])
        if a is None or b is None:
            return None
        return {"+": a + b, "-": a - b, "*": a * b, "|": a | b, "&": a & b, "<<": a << b, ">>": a >> b}.get(n["op"])
    if n.get("k") == "un" and n.get("op") == "-":
        a = _fold(db, n["e"])
        return -a if a is not None else None
    return None



def exponent_sign(ctx):
    """R18.5: [lex.fcon] exponent-part = e sign(opt) digit-sequence with sign one of + -.  If the scanner does not take
    the sign into the literal, `1E+3` is lexed as `1E` `+` `3` and evaluates to 4 without any diagnostic."""
    from . import gates as G
    db = ctx.db
    ctx.rule("R18.5", "in get_number the test for an exponent sign accepts both '+' and '-' (every condition that compares the look-ahead with one of them compares it with the other in the same disjunction)")
    fn = db.fn("CPPPreprocessor::get_number")
    n = 0
    for node in fn.walk():
        if node.get("k") not in ("if", "while"):
            continue
        consts = set()
        for a in walk(node["c"]):
            c = G.cmp_atom(a) if a.get("k") in ("bin", "call") else None
            if c and c[0] == "==":
                for u, v in ((c[1], c[2]), (c[2], c[1])):
                    if local_ref(u) is not None and const_int(v) in (43, 45):
                        consts.add(const_int(v))
        if not consts:
            continue
        n += 1
        ctx.ob("R18.5", "get_number|exponent-sign", consts == {43, 45}, fn.loc(node),
               "the sign test `%s` accepts %s" % (show(node["c"])[:60], " and ".join("'%s'" % chr(k) for k in sorted(consts))))
    ctx.floor("R18.5", "exponent-sign tests", n, 1)




def grisu_round(ctx):
    """R18.6: Grisu2's weeding step (Loitsch 2010, fig. `round_weed` as used for shortest output): the last digit is
    decremented while the candidate stays inside the rounding interval (rest < wp_w and delta - rest >= ten_kappa) and
    the decrement brings it closer to w (rest + ten_kappa < wp_w, or wp_w - rest > rest + ten_kappa - wp_w).  The loop
    condition is evaluated from its expression tree on a grid of (delta, rest, ten_kappa, wp_w) and compared."""
    import itertools
    db = ctx.db
    ctx.rule("R18.6", "GrisuRound's loop condition, evaluated on a grid of (delta, rest, ten_kappa, wp_w), equals Grisu2's: rest < wp_w && delta - rest >= ten_kappa && (rest + ten_kappa < wp_w || wp_w - rest > rest + ten_kappa - wp_w); the body decrements the last digit and adds ten_kappa to rest")
    fns = db.fns("GrisuRound")
    if not fns:
        ctx.broken("GrisuRound not found")
    fn = fns[0]
    loops = [n for n in fn.walk() if n.get("k") == "while"]
    if len(loops) != 1:
        ctx.broken("GrisuRound: expected one while loop")
    lp = loops[0]
    M = (1 << 64) - 1
    grid = [0, 1, 2, 3, 5, 8, 13, 21]
    bad = []
    n = 0
    try:
        for delta, rest, tk, w in itertools.product(grid, grid, [1, 2, 3, 5, 8], grid):
            if rest > delta:
                continue      # the caller guarantees rest <= delta
            n += 1
            env = {"delta": delta, "rest": rest, "ten_kappa": tk, "wp_w": w}
            got = bool(_ev_u64(db, lp["c"], env))
            want = rest < w and ((delta - rest) & M) >= tk and (((rest + tk) & M) < w or ((w - rest) & M) > ((rest + tk - w) & M))
            if got != want and len(bad) < 3:
                bad.append("delta=%d rest=%d ten_kappa=%d wp_w=%d: loop %s, Grisu2 %s" % (delta, rest, tk, w, "continues" if got else "stops", "continues" if want else "stops"))
    except ValueError as e:
        bad.append("not evaluable: %s" % e)
    ctx.ob("R18.6", "GrisuRound|weeding-condition", not bad, fn.loc(lp), "; ".join(bad) if bad else "equal on %d grid points" % n)
    ctx.floor("R18.6", "grid points", n, 1000)
    dec = any(x.get("k") == "un" and x.get("op") in ("--", "post--") for x in walk(lp.get("body") or {}))
    inc = any(x.get("k") == "bin" and x.get("op") == "+=" and (local_ref(x.get("x")) or {}).get("n") == "rest" and (local_ref(x.get("y")) or {}).get("n") == "ten_kappa" for x in walk(lp.get("body") or {}))
    ctx.ob("R18.6", "GrisuRound|body", dec and inc, fn.loc(lp), "the body decrements the digit and advances rest by ten_kappa")


def _ev_u64(db, n, env):
    """_ev with uint64 wrap-around for + and - (GrisuRound computes in uint64_t)."""
    M = (1 << 64) - 1
    n = strip_casts(n)
    if n is None:
        raise ValueError("empty")
    k = n.get("k")
    if k == "bin" and n.get("op") in ("+", "-"):
        a, b = _ev_u64(db, n["x"], env), _ev_u64(db, n["y"], env)
        return (a + b) & M if n["op"] == "+" else (a - b) & M
    if k == "bin" and n.get("op") in ("&&", "||", "<", ">", "<=", ">=", "==", "!="):
        a, b = _ev_u64(db, n["x"], env), _ev_u64(db, n["y"], env)
        return {"&&": lambda: int(bool(a) and bool(b)), "||": lambda: int(bool(a) or bool(b)), "<": lambda: int(a < b), ">": lambda: int(a > b),
                "<=": lambda: int(a <= b), ">=": lambda: int(a >= b), "==": lambda: int(a == b), "!=": lambda: int(a != b)}[n["op"]]()
    if k == "ref" and n.get("n") in env:
        return env[n["n"]]
    if k == "int":
        return int(n["v"])
    raise ValueError("node %s in %s" % (k, show(n)[:30]))



def _width(ty):
    ty = (ty or "").replace("const ", "").strip()
    if ty in ("unsigned __int128",):
        return 128
    if ty in ("uint64_t", "unsigned long", "unsigned long long", "size_t"):
        return 64
    if ty in ("uint32_t", "unsigned int", "unsigned"):
        return 32
    return None


def _evw(db, n, env):
    """Expression evaluation with C++ unsigned widths: every cast to an unsigned type and every operator whose result
    type is unsigned wraps at that width.  env: local/param/member short names -> ints."""
    if n is None:
        raise ValueError("empty")
    k = n.get("k")
    if k in ("paren", "bind", "temp", "expr") and n.get("e") is not None:
        return _evw(db, n["e"], env)
    if k == "cast":
        v = _evw(db, n["e"], env)
        w = _width(n.get("ty"))
        return v & ((1 << w) - 1) if w else v
    if k in ("int", "chr", "bool"):
        return int(n["v"])
    if k == "ref":
        if n.get("dk") == "enumc":
            return int(n["v"])
        if n["n"] in env:
            return env[n["n"]]
        raise ValueError("unknown name " + n["n"])
    if k == "mem":
        nm = n["n"].split("::")[-1]
        b = peel(n.get("b"))
        if b is not None and b.get("k") == "ref":
            nm = b["n"] + "." + nm
        if nm in env:
            return env[nm]
        raise ValueError("unknown member " + nm)
    if k == "bin":
        a, b = _evw(db, n["x"], env), _evw(db, n["y"], env)
        op = n["op"]
        r = {"+": lambda: a + b, "-": lambda: a - b, "*": lambda: a * b, "<<": lambda: a << b, ">>": lambda: a >> b, "&": lambda: a & b,
             "|": lambda: a | b, "^": lambda: a ^ b, "&&": lambda: int(bool(a) and bool(b)), "||": lambda: int(bool(a) or bool(b)),
             "==": lambda: int(a == b), "!=": lambda: int(a != b), "<": lambda: int(a < b), ">": lambda: int(a > b),
             "<=": lambda: int(a <= b), ">=": lambda: int(a >= b)}.get(op)
        if r is None:
            raise ValueError("operator " + op)
        v = r()
        w = _width(n.get("t"))
        return v & ((1 << w) - 1) if w else v
    if k == "un" and n.get("op") in ("-", "~", "!"):
        v = _evw(db, n["e"], env)
        return {"-": -v, "~": ~v, "!": int(not v)}[n["op"]]
    if k == "cond":
        return _evw(db, n["x"], env) if _evw(db, n["c"], env) else _evw(db, n["y"], env)
    raise ValueError("node " + str(k))


def _run(db, st, env, types):
    """Run a statement tree (block / decls / if / ++ / += / assignment / return of a two-argument constructor).
    Returns the tuple of the returned constructor's arguments, or None if the statement falls through."""
    k = st.get("k")
    if k == "block":
        for s in st.get("s", []):
            r = _run(db, s, env, types)
            if r is not None:
                return r
        return None
    if k == "decls":
        for d in st["d"]:
            w = _width(d.get("ct")) or _width(d.get("t"))
            types[d["n"]] = w
            v = _evw(db, d["init"], env) if d.get("init") is not None else 0
            env[d["n"]] = v & ((1 << w) - 1) if w else v
        return None
    if k == "if":
        if _evw(db, st["c"], env):
            return _run(db, st["then"], env, types) if st.get("then") else None
        return _run(db, st["else"], env, types) if st.get("else") else None
    if k == "un" and st.get("op") in ("++", "post++", "--", "post--"):
        r = st["e"]
        if r.get("k") != "ref":
            raise ValueError("++ on " + str(r.get("k")))
        w = types.get(r["n"])
        v = env[r["n"]] + (1 if "++" in st["op"] else -1)
        env[r["n"]] = v & ((1 << w) - 1) if w else v
        return None
    if k == "bin" and st.get("op") in ("=", "+=", "-="):
        r = st["x"]
        if r.get("k") != "ref":
            raise ValueError("assignment to " + str(r.get("k")))
        v = _evw(db, st["y"], env)
        if st["op"] == "+=":
            v = env[r["n"]] + v
        elif st["op"] == "-=":
            v = env[r["n"]] - v
        w = types.get(r["n"])
        env[r["n"]] = v & ((1 << w) - 1) if w else v
        return None
    if k == "ret":
        e = st.get("e")
        while e is not None and e.get("k") in ("temp", "bind", "cast", "paren") and e.get("e") is not None:
            e = e["e"]
        if e is None or e.get("k") != "ctor":
            raise ValueError("return of " + str((e or {}).get("k")))
        return tuple(_evw(db, a, env) for a in e.get("a", []))
    raise ValueError("statement " + str(k))


def _diyfp_product(ctx):
    """R18.7: Grisu2's cached-power product is the ROUNDED upper half of the 128-bit product, h = (f*g + 2^63) >> 64
    (Loitsch 2010, def. 3.3: the 0.5 ulp this rounding guarantees is what the interval arithmetic budgets for); a
    truncating product makes the lower boundary up to 1 ulp too low and pdtoa emits digits that read back as the
    neighbouring double.  The branch analysed is the one the real compiler selects (flags.json: -fgnuc-version).
    (Seed S6-C18.)"""
    db = ctx.db
    ctx.rule("R18.7", "DiyFp::operator*, run from its statement tree on sample operands, returns (round-half-up((f * rhs.f) / 2^64), e + rhs.e + 64)")
    fs = [f for f in db.functions if f.name == "DiyFp::operator*"]
    if not fs:
        ctx.broken("R18.7: DiyFp::operator* not found")
    f = fs[0]
    M = (1 << 64) - 1
    samples = [(1 << 63, 1 << 63), (M, M), ((1 << 63) + 1, (1 << 63) + 1), (0x8000000000000001, 0xFFFFFFFFFFFFFFFF), (0xA5A5A5A5A5A5A5A5, 0xC3C3C3C3C3C3C3C3),
               (0xFA8FD5A0081C0288, 0x8000000000000000), (0xD3C21BCECCEDA100, 0x9C40000000000000), (0x8000000000000000, 0xFFFFFFFF00000001),
               (0xDE0B6B3A76400000, 0xE8D4A51000000001), (1 << 63, (1 << 63) | 1), (0xFFFFFFFFFFFFFFFF, 0x8000000000000001)]
    bad = []
    n = 0
    try:
        for (a, b) in samples:
            for (ea, eb) in ((0, 0), (-1074, 3), (971, -1200)):
                n += 1
                env = {"f": a, "e": ea, "rhs.f": b, "rhs.e": eb}
                got = _run(db, f.d["body"], env, {})
                want = (((a * b) + (1 << 63)) >> 64, ea + eb + 64)
                if got != want and len(bad) < 3:
                    bad.append("f=%#x g=%#x: got %s, rounded product is %s" % (a, b, got, want))
    except ValueError as e:
        ctx.ob("R18.7", "DiyFp::operator*|rounded-upper-half", False, f.loc(), "not evaluable: %s" % e)
        return
    ctx.ob("R18.7", "DiyFp::operator*|rounded-upper-half", not bad, f.loc(), "%d sample products: %s" % (n, "; ".join(bad) if bad else "all equal the rounded upper half"))
    ctx.floor("R18.7", "sample products evaluated", n, 30)


class _Ptr(object):
    def __init__(self, arr, off):
        self.arr, self.off = arr, off


def _run_buf(db, st, env, out):
    """Statement interpreter for small character-emitting helpers: ints, pointers into global constant arrays and into
    the output buffer `out` (a dict offset -> byte), `*p++ = e`, `*p = e`, p[i], compound assignment, if/else."""
    def arr_of(name):
        g = db.globals.get(name)
        if not g or not g.get("init") or g["init"].get("k") != "init":
            raise ValueError("no constant array " + name)
        return [int(a.get("v", 0)) for a in g["init"].get("a", [])]

    def ev(n):
        k = n.get("k")
        if k in ("int", "chr", "bool"):
            return int(n["v"])
        if k == "cast" or (k in ("paren", "temp", "bind") and n.get("e") is not None):
            v = ev(n["e"])
            if k == "cast" and isinstance(v, int) and (n.get("ty") or "") == "char":
                v = ((v + 128) % 256) - 128
            return v
        if k == "ref":
            if n.get("dk") == "global":
                return _Ptr(n["n"], 0)
            if n["n"] in env:
                return env[n["n"]]
            raise ValueError("unknown name " + n["n"])
        if k == "idx":
            p = ev(n["b"])
            i = ev(n["x"])
            if not isinstance(p, _Ptr):
                raise ValueError("subscript of a non-pointer")
            if p.arr == "@out":
                return out.get(p.off + i, 0)
            a = arr_of(p.arr)
            if not (0 <= p.off + i < len(a)):
                raise ValueError("read outside %s" % p.arr)
            return a[p.off + i]
        if k == "un" and n.get("op") in ("-", "!", "~"):
            v = ev(n["e"])
            return {"-": -v, "!": int(not v), "~": ~v}[n["op"]]
        if k == "un" and n.get("op") in ("post++", "++", "post--", "--"):
            r = n["e"]
            old = env[r["n"]]
            step = 1 if "++" in n["op"] else -1
            new = _Ptr(old.arr, old.off + step) if isinstance(old, _Ptr) else old + step
            env[r["n"]] = new
            return old if n["op"].startswith("post") else new
        if k == "bin":
            op = n["op"]
            if op in ("=", "+=", "-=", "*=", "/=", "%="):
                v = ev(n["y"])
                x = n["x"]
                if x.get("k") == "un" and x.get("op") == "*":
                    p = ev(x["e"])
                    if not isinstance(p, _Ptr) or p.arr != "@out" or op != "=":
                        raise ValueError("store through an unexpected pointer")
                    out[p.off] = v & 0xFF
                    return v
                cur = env.get(x["n"])
                if op == "=":
                    new = v
                elif op == "+=":
                    new = _Ptr(cur.arr, cur.off + v) if isinstance(cur, _Ptr) else cur + v
                elif op == "-=":
                    new = cur - v
                elif op == "*=":
                    new = cur * v
                elif op == "/=":
                    new = int(cur / v)
                else:
                    new = cur - int(cur / v) * v
                env[x["n"]] = new
                return new
            a, b = ev(n["x"]), ev(n["y"])
            if isinstance(a, _Ptr) and op in ("+", "-") and isinstance(b, int):
                return _Ptr(a.arr, a.off + (b if op == "+" else -b))
            if isinstance(b, _Ptr) and op == "+" and isinstance(a, int):
                return _Ptr(b.arr, b.off + a)
            table = {"+": lambda: a + b, "-": lambda: a - b, "*": lambda: a * b, "/": lambda: int(a / b), "%": lambda: a - int(a / b) * b,
                     "<": lambda: int(a < b), ">": lambda: int(a > b), "<=": lambda: int(a <= b), ">=": lambda: int(a >= b),
                     "==": lambda: int(a == b), "!=": lambda: int(a != b), "&&": lambda: int(bool(a) and bool(b)), "||": lambda: int(bool(a) or bool(b))}
            if op not in table:
                raise ValueError("operator " + op)
            return table[op]()
        raise ValueError("node " + str(k))
    k = st.get("k")
    if k == "block":
        for s in st.get("s", []):
            _run_buf(db, s, env, out)
    elif k == "decls":
        for d in st["d"]:
            env[d["n"]] = ev(d["init"]) if d.get("init") is not None else 0
    elif k == "if":
        if ev(st["c"]):
            if st.get("then"):
                _run_buf(db, st["then"], env, out)
        elif st.get("else"):
            _run_buf(db, st["else"], env, out)
    else:
        ev(st)


def _exponent_text(ctx):
    """R18.8: pdtoa writes the decimal exponent with WriteExponent(K, buffer).  Run from its statement tree for every K a
    double can produce (-324 .. 308), the bytes written must be exactly the decimal text of K followed by NUL - a lost
    tens digit (`1e100` -> `1e10`) is still a valid literal, of another value.  (Seed S7-C18.)"""
    db = ctx.db
    ctx.rule("R18.8", "WriteExponent(K, buffer), run from its statement tree, writes str(K) + NUL for every K in [-324, 308]")
    fs = [f for f in db.functions if f.name.endswith("WriteExponent") and "pdtoa" in f.file]
    if not fs:
        ctx.broken("R18.8: WriteExponent not found")
    f = fs[0]
    bad = []
    n = 0
    try:
        for K in range(-324, 309):
            n += 1
            out = {}
            env = {f.params[0]["n"]: K, f.params[1]["n"]: _Ptr("@out", 0)}
            _run_buf(db, f.d["body"], env, out)
            got = bytes(out.get(i, 0xAA) for i in range(max(out) + 1 if out else 0))
            want = str(K).encode() + b"\0"
            if got != want and len(bad) < 4:
                bad.append("K=%d writes %r, should be %r" % (K, got, want))
    except ValueError as e:
        ctx.ob("R18.8", "WriteExponent|decimal-text", False, f.loc(), "not evaluable: %s" % e)
        return
    ctx.ob("R18.8", "WriteExponent|decimal-text", not bad, f.loc(), "%d exponents: %s" % (n, "; ".join(bad) if bad else "every one written as its decimal text"))
    ctx.floor("R18.8", "exponents evaluated", n, 600)


def _interval_width_after_narrowing(ctx):
    """R18.9: Grisu2 scales the two rounding boundaries of the double (Wm, Wp), pulls each ONE unit inwards (`Wm.f++;
    Wp.f--;` - the products are only accurate to one unit) and lets DigitGen generate digits until the remainder is
    below the width `Wp.f - Wm.f` of that SAFE interval.  Taking the width before the narrowing makes the interval two
    units too wide: DigitGen then sometimes stops one digit early, on a decimal that lies outside the true rounding
    interval and reads back as the neighbouring double.  (Seed S9-C18: the width hoisted into a const above the two
    statements; 4e-4 of random doubles changed value.)"""
    from . import gates as G
    db = ctx.db
    ctx.rule("R18.9", "in Grisu2 the width handed to DigitGen is `Wp.f - Wm.f` evaluated after both `Wm.f++` and `Wp.f--`")
    fs = [g for g in db.functions if g.name.split("::")[-1] == "Grisu2" and g.file.endswith("pdtoa.cxx")]
    if not fs:
        ctx.broken("R18.9: Grisu2 not found")
        return
    f = fs[0]
    calls = [c for c in f.walk() if c.get("k") == "call" and callee_short(c) == "DigitGen" and len(c.get("a", [])) >= 3]
    if not calls:
        ctx.broken("R18.9: the DigitGen call of Grisu2 was not found")
        return
    c = calls[0]
    upper = local_ref(c["a"][1])
    width = strip_casts(peel(c["a"][2]))
    where = c
    r = local_ref(width)
    if r is not None:
        for y in f.walk():
            if y.get("k") == "decls":
                for dd in y["d"]:
                    if dd.get("d") == r["d"] and dd.get("init") is not None:
                        width, where = strip_casts(peel(dd["init"])), y
    hi = lo = None
    if width is not None and width.get("k") == "bin" and width.get("op") == "-":
        a, b = strip_casts(peel(width["x"])), strip_casts(peel(width["y"]))
        if a is not None and b is not None and a.get("k") == "mem" and b.get("k") == "mem" and (a.get("n") or "").endswith("::f") and (b.get("n") or "").endswith("::f"):
            hi, lo = local_ref(a.get("b")), local_ref(b.get("b"))
    ok_shape = hi is not None and lo is not None and upper is not None and hi.get("d") == upper.get("d") and lo.get("d") != hi.get("d")
    ctx.ob("R18.9", "Grisu2|width-is-upper-minus-lower", ok_shape, f.loc(where), "the width is <upper boundary>.f - <lower boundary>.f of the interval handed to DigitGen")
    if not ok_shape:
        return

    def step(d, op):
        return [y for y in f.walk() if y.get("k") == "un" and op in (y.get("op") or "") and (strip_casts(peel(y.get("e"))) or {}).get("k") == "mem" and
                (strip_casts(peel(y["e"])).get("n") or "").endswith("::f") and (local_ref(strip_casts(peel(y["e"])).get("b")) or {}).get("d") == d] + \
               [y for y in f.walk() if y.get("k") == "bin" and y.get("op") == (op[0] + "=") and (strip_casts(peel(y.get("x"))) or {}).get("k") == "mem" and
                (local_ref(strip_casts(peel(y["x"])).get("b")) or {}).get("d") == d and const_int(y.get("y")) == 1]
    inward_lo, inward_hi = step(lo["d"], "++"), step(hi["d"], "--")
    first = None
    for y in f.walk():
        if f.cfg.locate(y) is not None:
            first = y
            break
    for name, steps in (("lower boundary moved up", inward_lo), ("upper boundary moved down", inward_hi)):
        ok = bool(steps) and first is not None and not G.reaches_avoiding(f, first, steps, where) and f.cfg.locate(first) != f.cfg.locate(where)
        ctx.ob("R18.9", "Grisu2|width-after|%s" % name.replace(" ", "-"), ok, f.loc(where),
               "the width is computed after the %s by one unit" % name if ok else "the width is computed BEFORE the %s: the digit generator's interval is too wide" % name)


def _mini_eval(n, env):
    """Evaluate an arithmetic expression tree over ints and doubles (C semantics for the operators GetCachedPower uses)."""
    n = peel(n)
    k = n.get("k")
    if k == "int":
        return int(n["v"])
    if k == "flt":
        return float(n["v"])
    if k == "ref":
        return env[n["d"]]
    if k in ("cast", "paren", "scast", "icast"):
        v = _mini_eval(n["e"], env)
        ty = (n.get("ty") or n.get("t") or "")
        if ty in ("int", "unsigned int", "unsigned", "long"):
            return int(v)          # truncation toward zero, as static_cast<int>(double)
        if ty == "double":
            return float(v)
        return v
    if k == "un":
        v = _mini_eval(n["e"], env)
        return {"-": -v, "+": v}[n["op"]]
    if k == "bin":
        a, b = _mini_eval(n["x"], env), _mini_eval(n["y"], env)
        op = n["op"]
        if op == "+":
            return a + b
        if op == "-":
            return a - b
        if op == "*":
            return a * b
        if op == ">>":
            return a >> b
        if op == "<<":
            return a << b
        if op == "!=":
            return int(a != b)
        if op == "==":
            return int(a == b)
    raise ValueError("cannot evaluate " + str(k))


def _cached_power_lands_in_the_window(ctx):
    """R18.10: Grisu2 multiplies the boundaries of the double (binary exponent e) by a cached power of ten c_k and hands the
    product to DigitGen, which splits it at bit -e' into a 32-bit integer part and a fraction: that only works if the
    product's exponent e' = e + E[k] + 64 lies in the window [-60, -32].  GetCachedPower(e) picks k by a closed formula
    (`(-61 - e) * log10(2) + 347`, rounded up, then `(k >> 3) + 1`).  The rule EVALUATES that formula, as written in the
    source, for every e a double can produce and checks the window against the table's binary exponents - the property
    of the constants, not their spelling.  (Seed S11-C18: -61 became -58; for 44 of 2046 exponents DigitGen lost bit 32
    and `480000.0` was written as `50503.2704`.)"""
    db = ctx.db
    ctx.rule("R18.10", "for every binary exponent e in [-1137, 960] the index GetCachedPower(e) computes (formula evaluated from the source) gives -60 <= e + kCachedPowers_E[index] + 64 <= -32")
    fs = [g for g in db.functions if g.name.split("::")[-1] == "GetCachedPower"]
    if not fs:
        ctx.broken("R18.10: GetCachedPower not found")
        return
    f = fs[0]
    E = None
    for y in f.walk():
        if y.get("k") == "decls":
            for dd in y["d"]:
                if dd.get("n") == "kCachedPowers_E" and dd.get("init") is not None:
                    E = [_fold(db, z) for z in (peel(dd["init"]).get("a") or peel(dd["init"]).get("e") or peel(dd["init"]).get("items") or [])]
    if not E or any(v is None for v in E):
        g = db.globals.get("kCachedPowers_E") or {}
        init = peel(g.get("init")) if g.get("init") else None
        if init is not None:
            E = [_fold(db, z) for z in (init.get("a") or init.get("e") or init.get("items") or [])]
    if not E or any(v is None for v in E):
        ctx.broken("R18.10: kCachedPowers_E could not be read")
        return
    pe = (f.params or [{}])[0].get("d")
    stmts = f.body.get("s", [])
    bad = None
    n_ok = 0
    try:
        for e in range(-1137, 961):
            env = {pe: e}
            index = None
            for st in stmts:
                if st.get("k") == "decls":
                    for dd in st["d"]:
                        if dd.get("n", "").startswith("kCachedPowers"):
                            continue
                        if dd.get("init") is not None:
                            env[dd["d"]] = _mini_eval(dd["init"], env)
                            if dd.get("n") == "index":
                                index = env[dd["d"]]
                elif st.get("k") == "if" and st.get("else") is None:
                    if _mini_eval(st["c"], env):
                        body = st["then"]
                        for b in (body.get("s") if body.get("k") == "block" else [body]):
                            b = peel(b)
                            if b.get("k") == "un" and "++" in b.get("op", ""):
                                env[peel(b["e"])["d"]] += 1
                            elif b.get("k") == "un" and "--" in b.get("op", ""):
                                env[peel(b["e"])["d"]] -= 1
                            else:
                                raise ValueError("statement in if")
            if index is None or not (0 <= index < len(E)):
                bad = (e, index, None)
                break
            w = e + E[index] + 64
            if not (-60 <= w <= -32):
                bad = (e, index, w)
                break
            n_ok += 1
    except (ValueError, KeyError, TypeError) as ex:
        ctx.broken("R18.10: GetCachedPower's index computation is no longer a straight formula the rule can evaluate (%s)" % ex)
        return
    ctx.ob("R18.10", "GetCachedPower|product-exponent-in-[-60,-32]", bad is None, f.loc(),
           "all %d exponents land in the window" % n_ok if bad is None else
           "for e = %d the formula picks index %s and the product's exponent is %s: outside [-60, -32]" % bad)
