"""C11 — database and generated code agree; the database is referentially closed.

Decided:
  R11.1 every index-typed field of every record, of the database and of the
        builder state read after renumbering is rewritten by remap_indices.
  R11.2 wrappers are renumbered first, consecutively, from the literal 1.
  R11.4 the C header of a wrapper and its database entry are derived from the
        same accessors (name, return type under the same void test, all
        parameters in order through get_new_type()).
Not decided: that indices written by the builder were right before
renumbering; distinctness of unique names (hash values are run-time data).
"""
from . import gates as G
from ..facts import peel, strip_casts, show, walk, cond_atom
from .common import (callee_short, field_of, base_of, deref, assigned_target, const_int,
                     iter_container, local_ref, resolve_typedef, enclosing_loops, loop_container)

LEVEL = "other"
EXPLANATION = ("Index-field coverage of every remap_indices (records, database, builder), wrapper-first numbering from 1, "
               "and header/entry agreement for C wrappers; obligations = index fields / numbering steps / header parts.")
TRUSTED = ["clang 14 AST/CFG", "sugared typedef names identify index-typed fields (TypeIndex, FunctionIndex, ... of interrogate_interface.h)",
           "std::map iteration order = key order"]
ASSUMPTIONS = ["indices stored by the builder before renumbering are correct (not decided)",
               "IndexRemapper::map_from is a function of the mapping built by add_mapping"]

INDEX_TYPES = ["TypeIndex", "FunctionIndex", "FunctionWrapperIndex", "ManifestIndex", "ElementIndex", "MakeSeqIndex"]
RECORDS = ["InterrogateType", "InterrogateFunction", "InterrogateFunctionWrapper",
           "InterrogateElement", "InterrogateManifest", "InterrogateMakeSeq"]


def classify(db, t, scope):
    """('scalar', idx) | ('vector', idx) | ('recvec', record) | ('map', key idx, value) | None"""
    t0 = t.replace("const ", "").strip()
    if t0 in INDEX_TYPES:
        return ("scalar", t0)
    cands = [t0, scope + "::" + t0] if "::" not in t0 else [t0]
    r = None
    for c in cands:
        if c in db.typedefs:
            r = db.typedefs[c]["t"]
            break
    if r is None:
        r = t0
    r = r.replace("const ", "")
    import re
    m = re.match(r"std::vector<\s*([A-Za-z_:]+)\s*>$", r)
    if m:
        e = m.group(1)
        if e in INDEX_TYPES:
            return ("vector", e)
        for c in (e, scope + "::" + e):
            if c in db.records:
                return ("recvec", c)
        return None
    m = re.match(r"std::map<\s*([A-Za-z_:]+)\s*,\s*(.+?)\s*>$", r)
    if m:
        k, v = m.group(1), m.group(2)
        kk = k if k in INDEX_TYPES else None
        vv = v.strip() if v.strip() in INDEX_TYPES else None
        if kk or vv:
            return ("map", kk, vv, v.strip())
    return None


def remapped_lvalues(fn):
    """Assignments  L = remap.map_from(L)  in fn: yields (lhs node, stmt node)."""
    for n in fn.walk():
        t = assigned_target(n)
        if not t:
            continue
        lhs, rhs = t
        r = strip_casts(rhs)
        if r is not None and r.get("k") == "call" and r.get("f") == "IndexRemapper::map_from" and r.get("a"):
            arg = strip_casts(r["a"][0])
            if show(strip_casts(lhs)) == show(arg):
                yield lhs, n
            else:
                yield None, n  # remaps something into a different place


def describe_lvalue(fn, lhs, stmt):
    """-> ('scalar', field) | ('elem', container field) | ('elemfield', container field, field) | ('local', name)"""
    l = peel(lhs)
    f = field_of(l)
    if f is not None:
        b = base_of(l)
        if b is None or b.get("k") == "this":
            return ("scalar", f.split("::")[-1])
        # (*it)._f  or  it->_f  or  x._f with x a range-for variable
        inner = deref(b)
        lr = local_ref(inner)
        if lr is not None:
            cont, lp = iter_container(fn, stmt, lr)
            cf = field_of(cont) if cont is not None else None
            if cf is not None:
                return ("elemfield", cf.split("::")[-1], f.split("::")[-1])
            # (*it).second = ... over a map
            if f.split("::")[-1] == "second" and cont is not None:
                lr2 = local_ref(cont)
                return ("mapvalue", show(cont))
        if b.get("k") == "ref":
            return ("objfield", b["n"], f.split("::")[-1])
        return ("other", show(l))
    d = deref(l)
    if d is not l or (l is not None and l.get("k") == "ref"):
        lr = local_ref(d)
        if lr is not None:
            cont, lp = iter_container(fn, stmt, lr)
            if cont is not None:
                cf = field_of(cont)
                if cf is not None:
                    return ("elem", cf.split("::")[-1])
                return ("elem-local", show(cont))
    return ("other", show(l))


def run(ctx):
    db = ctx.db
    ctx.rule("R11.1", "every index-typed field (scalar, vector element, nested record field, map key/value) is rewritten from remap.map_from(<same lvalue>) by the owning remap_indices")
    ctx.rule("R11.2", "InterrogateDatabase::remap_indices numbers the wrapper map first; each renumbering loop advances first_index exactly once per entry; the builder passes the literal 1")
    ctx.rule("R11.4", "InterfaceMakerC::write_function_header and FunctionRemap::make_wrapper_entry derive name, return type and every parameter type from the same accessors")

    # index typedefs still are what the rule believes
    for t in INDEX_TYPES:
        if t not in db.typedefs:
            ctx.broken("index typedef %s not found in interrogate_interface.h" % t)

    n_fields = 0
    for rec in RECORDS:
        r = db.record(rec)
        fn = db.fn(rec + "::remap_indices")
        got = set()
        bad = []
        for lhs, stmt in remapped_lvalues(fn):
            if lhs is None:
                bad.append(stmt)
                continue
            got.add(describe_lvalue(fn, lhs, stmt))
        # every rewrite runs on every path through remap_indices: an early return / a conditional skip leaves stale
        # indices behind in the records it skips
        n_uncond = 0
        for lhs, stmt in remapped_lvalues(fn):
            if lhs is None:
                continue
            n_uncond += 1
            anchor = stmt
            for a in fn.ancestors(stmt):
                if a.get("k") in ("for", "forrange", "while"):
                    anchor = a
            if anchor is stmt:
                loc = fn.cfg.locate(stmt)
            else:
                head = anchor.get("c") if anchor.get("k") in ("for", "while") else None
                loc = fn.cfg.locate(head) if head is not None else None
                if loc is None:
                    # range-for / condition-less loop: fall back to "no branch encloses the loop"
                    loc = fn.cfg.locate(anchor.get("range")) if anchor.get("range") is not None else None
            def zero_test_of_same(a):
                # `if (x != 0) x = remap.map_from(x)`: index 0 means "none" and maps to itself
                if a.get("k") != "if" or a.get("else") is not None:
                    return False
                c = G.cmp_atom(peel(a.get("c")))
                return bool(c) and c[0] == "!=" and ((show(strip_casts(c[1])) == show(strip_casts(lhs)) and const_int(c[2]) == 0) or
                                                     (show(strip_casts(c[2])) == show(strip_casts(lhs)) and const_int(c[1]) == 0))
            enclosing = [a for a in fn.ancestors(anchor) if a.get("k") in ("if", "switch", "cond", "case", "default")]
            guarded = [a.get("k") for a in enclosing if not zero_test_of_same(a)]
            ok = not guarded
            if ok and loc is not None and not enclosing:
                ok = fn.cfg.exit not in fn.cfg.reachable(cut_blocks=[loc[0]])
            d = describe_lvalue(fn, lhs, stmt)
            ctx.ob("R11.1", "%s::remap_indices|%s|on-every-path" % (rec, "/".join(str(x) for x in d)), ok, fn.loc(stmt),
                   "`%s` %s" % (show(stmt)[:60], "runs on every path through remap_indices" if ok else "can be skipped (conditional or behind an early return)"))
        for stmt in bad:
            ctx.ob("R11.1", "%s::remap_indices|cross-assignment" % rec, False, fn.loc(stmt),
                   "assigns map_from of a different lvalue: %s" % show(stmt))
        for f in r["fields"]:
            if f.get("static"):
                continue
            c = classify(db, f["t"], rec)
            if c is None:
                continue
            site = "%s:%d" % (r["file"].replace("/repo/", ""), f.get("line", r["line"]))
            if c[0] == "scalar":
                n_fields += 1
                ctx.ob("R11.1", "%s|%s" % (rec, f["n"]), ("scalar", f["n"]) in got, site,
                       "%s %s::%s is %sremapped in remap_indices" % (c[1], rec, f["n"], "" if ("scalar", f["n"]) in got else "NOT "))
            elif c[0] == "vector":
                n_fields += 1
                ok = ("elem", f["n"]) in got
                ctx.ob("R11.1", "%s|%s[]" % (rec, f["n"]), ok, site,
                       "elements of vector<%s> %s::%s are %sremapped" % (c[1], rec, f["n"], "" if ok else "NOT "))
            elif c[0] == "recvec":
                nested = db.record(c[1])
                for nf in nested["fields"]:
                    nc = classify(db, nf["t"], c[1])
                    if nc is None:
                        continue
                    if nc[0] != "scalar":
                        ctx.broken("nested record %s has a non-scalar index field %s: rule needs extending" % (c[1], nf["n"]))
                    n_fields += 1
                    ok = ("elemfield", f["n"], nf["n"]) in got
                    ctx.ob("R11.1", "%s|%s[].%s" % (rec, f["n"], nf["n"]), ok,
                           "%s:%d" % (nested["file"].replace("/repo/", ""), nf.get("line", 0)),
                           "%s %s::%s of every element of %s::%s is %sremapped" % (nc[1], c[1], nf["n"], rec, f["n"], "" if ok else "NOT "))
            elif c[0] == "map":
                ctx.broken("record %s has an index-keyed map field %s: rule needs extending" % (rec, f["n"]))
    # records not in RECORDS that carry index fields (a new record kind)
    for name, r in db.records.items():
        if "/interrogatedb/" not in r["file"] or name in RECORDS or name == "InterrogateDatabase":
            continue
        parent = name.rsplit("::", 1)[0] if "::" in name else None
        for f in r["fields"]:
            c = classify(db, f["t"], name)
            if c and c[0] in ("scalar", "vector") and parent not in RECORDS:
                if name in ("InterrogateModuleDef", "InterrogateUniqueNameDef"):
                    continue
                ctx.ob("R11.1", "%s|%s|unowned-index-field" % (name, f["n"]), False,
                       "%s:%d" % (r["file"].replace("/repo/", ""), f.get("line", 0)),
                       "index-typed field in a record that no remap_indices covers")

    # ---- the database itself
    fn = db.fn("InterrogateDatabase::remap_indices", sig_contains="IndexRemapper")
    r = db.record("InterrogateDatabase")
    got = set()
    for lhs, stmt in remapped_lvalues(fn):
        if lhs is not None:
            got.add(describe_lvalue(fn, lhs, stmt))
    # loops calling add_mapping / record remap_indices / swap
    add_loops = []     # (container field, loop node, order)
    rec_loops = set()
    swaps = {}         # member -> local
    filled = {}        # local new map -> source container
    for n in fn.walk():
        if n.get("k") == "call" and n.get("f") == "IndexRemapper::add_mapping":
            lp = next(enclosing_loops(fn, n), None)
            cont = loop_container(fn, lp) if lp is not None else None
            cf = field_of(cont) if cont is not None else None
            add_loops.append((cf.split("::")[-1] if cf else None, lp, n))
        if n.get("k") == "call" and callee_short(n) == "remap_indices" and "this" in n:
            lp = next(enclosing_loops(fn, n), None)
            cont = loop_container(fn, lp) if lp is not None else None
            cf = field_of(cont) if cont is not None else None
            if cf:
                rec_loops.add(cf.split("::")[-1])
        if n.get("k") == "call" and callee_short(n) == "swap" and "this" in n and n.get("a"):
            m = field_of(n["this"])
            a = local_ref(n["a"][0])
            if m and a is not None:
                swaps[m.split("::")[-1]] = a["n"]
    for cf, lp, call in add_loops:
        # new_map[first_index] = (*it).second inside the same loop
        for x in walk(lp):
            t = assigned_target(x)
            if t:
                l = peel(t[0])
                if l is not None and l.get("k") == "call" and callee_short(l) == "operator[]":
                    tgt = local_ref(l["a"][0])
                    if tgt is not None:
                        filled[tgt["n"]] = cf
    maps, vecs = [], []
    for f in r["fields"]:
        if f.get("static"):
            continue
        c = classify(db, f["t"], "InterrogateDatabase")
        if c is None:
            continue
        if c[0] == "map" and c[1]:
            maps.append(f)
        elif c[0] == "vector":
            vecs.append(f)
        elif c[0] == "scalar":
            ctx.ob("R11.1", "InterrogateDatabase|%s" % f["n"], ("scalar", f["n"]) in got, fn.loc(), "scalar index member remapped")
    added = [a[0] for a in add_loops]
    for f in maps:
        n_fields += 1
        nm = f["n"]
        site = "%s:%d" % (r["file"].replace("/repo/", ""), f.get("line", 0))
        ctx.ob("R11.1", "InterrogateDatabase|%s|keys-mapped" % nm, nm in added, site,
               "every key of %s %s a new index via add_mapping" % (nm, "gets" if nm in added else "does NOT get"))
        sw = swaps.get(nm)
        ctx.ob("R11.1", "InterrogateDatabase|%s|rekeyed" % nm, sw is not None and filled.get(sw) == nm, site,
               "%s is swapped with the map re-keyed from it (swap source %s filled from %s)" % (nm, sw, filled.get(sw)))
        ctx.ob("R11.1", "InterrogateDatabase|%s|records-remapped" % nm, nm in rec_loops, site,
               "remap_indices(remap) is %sinvoked on every record of %s" % ("" if nm in rec_loops else "NOT ", nm))
    for f in vecs:
        n_fields += 1
        ok = ("elem", f["n"]) in got
        ctx.ob("R11.1", "InterrogateDatabase|%s[]" % f["n"], ok,
               "%s:%d" % (r["file"].replace("/repo/", ""), f.get("line", 0)),
               "elements of %s are %sremapped" % (f["n"], "" if ok else "NOT "))
    ctx.floor("R11.1", "index fields", n_fields, 44)
    ctx.floor("R11.1", "index-keyed maps of the database", len(maps), 6)
    ctx.floor("R11.1", "index vectors of the database", len(vecs), 6)

    # ---- R11.2
    ctx.ob("R11.2", "InterrogateDatabase::remap_indices|wrappers-first", bool(add_loops) and add_loops[0][0] == "_wrapper_map",
           fn.loc(add_loops[0][2]) if add_loops else fn.loc(),
           "first renumbering loop ranges over %s" % (add_loops[0][0] if add_loops else None))
    first_param = fn.params[0]["d"] if fn.params else None
    for cf, lp, call in add_loops:
        incs = 0
        other_writes = 0
        for x in walk(lp.get("body")):
            if x.get("k") == "un" and x.get("op") in ("post++", "++"):
                lr = local_ref(x["e"])
                if lr is not None and lr.get("d") == first_param:
                    incs += 1
            t = assigned_target(x)
            if t:
                lr = local_ref(t[0])
                if lr is not None and lr.get("d") == first_param:
                    other_writes += 1
            if x.get("k") == "bin" and x.get("op") in ("+=", "-="):
                lr = local_ref(x["x"])
                if lr is not None and lr.get("d") == first_param:
                    other_writes += 1
        a1 = local_ref(call["a"][1]) if len(call.get("a", [])) > 1 else None
        key = peel(call["a"][0]) if call.get("a") else None
        key_ok = key is not None and field_of(key) is not None and field_of(key).endswith("first")
        ctx.ob("R11.2", "InterrogateDatabase::remap_indices|%s|one-step-per-entry" % cf,
               incs == 1 and other_writes == 0 and a1 is not None and a1.get("d") == first_param and key_ok,
               fn.loc(call), "loop over %s: %d increment(s) of first_index, %d other write(s), maps key %s -> %s" % (
                   cf, incs, other_writes, show(key), show(call["a"][1]) if len(call.get("a", [])) > 1 else "?"))
    # inc must not be in the loop header (would run in addition)
    fb = db.fn("InterrogateBuilder::remap_indices")
    calls = [c for c in fb.calls("InterrogateDatabase::remap_indices")]
    ok = len(calls) == 1 and const_int(calls[0]["a"][0]) == 1
    ctx.ob("R11.2", "InterrogateBuilder::remap_indices|first-index-literal-1", ok, fb.loc(calls[0]) if calls else fb.loc(),
           "renumbering starts at %s" % (show(calls[0]["a"][0]) if calls else "?"))
    ctx.floor("R11.2", "renumbering loops", len(add_loops), 6)

    # ---- builder state read after renumbering (R11.1 continued)
    got_b = set()
    for lhs, stmt in remapped_lvalues(fb):
        if lhs is not None:
            got_b.add(describe_lvalue(fb, lhs, stmt))
    wc = db.fn("InterrogateBuilder::write_code")
    cfg = wc.cfg
    rcalls = [c for c in wc.calls("InterrogateBuilder::remap_indices")]
    if len(rcalls) != 1:
        ctx.broken("write_code: expected one remap_indices call")
    loc = cfg.locate(rcalls[0])
    after_blocks = cfg.reachable(loc[0])
    # functions called after the renumbering
    after_nodes = []
    for bid in after_blocks:
        b = cfg.blocks[bid]
        for pos, e in enumerate(b.elems):
            if bid == loc[0] and pos <= loc[1]:
                continue
            n = wc.nodes.get(e)
            if n is not None:
                after_nodes.append(n)
    by_ns = {}
    for f in db.functions:
        by_ns.setdefault(f.name + "|" + f.sig, []).append(f)
    roots = []
    for n in after_nodes:
        if n.get("k") in ("call", "ctor") and "f" in n:
            roots += by_ns.get(n["f"] + "|" + n.get("s", ""), [])
    clos = db.closure(roots)
    bk = db.by_key()
    # index-typed members of builder-side classes read after renumbering
    builder_recs = ["InterrogateBuilder", "FunctionRemap", "InterfaceMaker", "InterfaceMaker::Function", "InterfaceMaker::Object"]
    idx_members = {}
    for rn in builder_recs:
        r = db.records.get(rn)
        if not r:
            continue
        for f in r["fields"]:
            c = classify(db, f["t"], rn)
            if c:
                idx_members[rn + "::" + f["n"]] = c
    read_after = {}
    for n in after_nodes:
        if n.get("k") == "mem" and n["n"] in idx_members:
            read_after.setdefault(n["n"], wc.loc(n))
    for k in clos:
        f = bk[k]
        if "/interrogate/" not in f.file:
            continue
        for n in f.walk():
            if n.get("k") == "mem" and n["n"] in idx_members:
                read_after.setdefault(n["n"], f.loc(n))
    for m, site in sorted(read_after.items()):
        c = idx_members[m]
        short = m.split("::")[-1]
        if c[0] == "scalar":
            ok = any(g[0] in ("elemfield", "objfield", "scalar") and g[-1] == short for g in got_b)
        elif c[0] == "map":
            ok = ("mapvalue", short) in got_b or any(g[0] == "mapvalue" and short in g[1] for g in got_b)
        else:
            ok = ("elem", short) in got_b
        ctx.ob("R11.1", "builder|%s|read-after-renumbering" % m, ok, site,
               "%s is read after remap_indices and is %sremapped by InterrogateBuilder::remap_indices" % (m, "" if ok else "NOT "))
    ctx.floor("R11.1", "builder index members read after renumbering", len(read_after), 1)
    # what the builder does remap must at least include its by-name maps it declares to remap
    ctx.info("InterrogateBuilder::remap_indices rewrites: %s" % sorted(got_b))

    _header_entry(ctx)
    _registered_hash(ctx)
    _frozen_after_recording(ctx)
    _no_zero_in_lists(ctx)
    _next_index_after_renumbering(ctx)
    _stale_loop_counters(ctx)
    _no_update_of_index_zero(ctx)
    _no_update_of_a_copy(ctx)
    # R11.12 = R20.13 seen from the closure side: an index in _global_types that names no type (seed S10-C11, the same edit as S9-C20)
    from .C20 import merged_entities_keep_the_surviving_index
    merged_entities_keep_the_surviving_index(ctx, rid="R11.12")
    # R11.13 = R13.6 from the closure side (seed S11-C11, the same edit as S8-C20): types merged under the wrong name leave
    # wrappers whose recorded types are not the types of the generated code
    from .C13 import _local_map_keys_agree
    _local_map_keys_agree(ctx, rid="R11.13")

def _registered_hash(ctx):
    """R11.5: names are made unique through the _wrappers_by_hash registry; the
    wrapper/unique names are built from remap->_hash.  On every path on which
    hash_function_signature returns, remap->_hash must hold the value of the
    local that was registered, i.e. it was assigned from that local after the
    local's last modification."""
    db = ctx.db
    ctx.rule("R11.5", "in hash_function_signature, on every returning path remap->_hash was assigned from the registered hash variable after that variable's last change")
    fn = db.fn("InterfaceMaker::hash_function_signature")
    cfg = fn.cfg
    # the hash local: the one inserted into _wrappers_by_hash together with the remap parameter
    hv = None
    for n in fn.walk():
        if n.get("k") == "decls":
            for d in n["d"]:
                if "init" in d and any(c.get("k") == "call" and callee_short(c) == "hash_string" for c in walk(d["init"])):
                    hv = d
                    break
        if hv:
            break
    if hv is None:
        ctx.broken("hash_function_signature: hash variable not found")
    regs = 0
    for n in fn.walk():
        if n.get("k") == "call" and (field_of(n.get("this")) or field_of((n.get("a") or [None])[0]) or "").endswith("_wrappers_by_hash") and callee_short(n) in ("insert", "operator[]"):
            if any(x.get("k") == "ref" and x.get("d") == hv["d"] for x in walk(n)):
                regs += 1
    ctx.floor("R11.5", "registrations of the hash variable", regs, 2)
    rp = fn.params[0]["d"]

    def effect(n):
        """+1 remap->_hash = hash ; -1 hash modified ; 0 none"""
        t = assigned_target(n) if n is not None else None
        if t:
            if field_of(t[0]) == "FunctionRemap::_hash" and (local_ref(base_of(t[0])) or {}).get("d") == rp:
                r = local_ref(t[1])
                return 1 if (r is not None and r.get("d") == hv["d"]) else -1
            l = local_ref(t[0])
            if l is not None and l.get("d") == hv["d"]:
                return -1
        if n is not None and n.get("k") == "call" and n.get("opc") and callee_short(n) in ("operator+=", "operator=") and n.get("a"):
            l = local_ref(n["a"][0])
            if l is not None and l.get("d") == hv["d"]:
                return -1
            if field_of(n["a"][0]) == "FunctionRemap::_hash" and (local_ref(base_of(n["a"][0])) or {}).get("d") == rp:
                r = local_ref(n["a"][1]) if len(n["a"]) > 1 else None
                return 1 if (r is not None and r.get("d") == hv["d"] and callee_short(n) == "operator=") else -1
        return 0
    state_in = {cfg.entry: False}
    work = [cfg.entry]
    bad = None
    while work:
        bid = work.pop()
        st = state_in[bid]
        b = cfg.blocks[bid]
        ended = False
        for e in b.elems:
            n = fn.nodes.get(e)
            ef = effect(n)
            if ef == 1:
                st = True
            elif ef == -1:
                st = False
            if n is not None and n.get("k") == "ret":
                if not st:
                    bad = bad or n
                ended = True
                break
        if ended or b.noret:
            continue
        for s_ in b.succs:
            if s_ is None:
                continue
            if s_ == cfg.exit:
                if not st:
                    bad = bad or fn.nodes.get(b.elems[-1]) if b.elems else bad or fn.body
                continue
            new = st if s_ not in state_in else (state_in[s_] and st)
            if s_ not in state_in or new != state_in[s_]:
                state_in[s_] = new
                work.append(s_)
    ctx.ob("R11.5", "hash_function_signature|stored-hash-is-registered-hash", bad is None, fn.loc(bad) if bad is not None and "i" in bad else fn.loc(),
           "every returning path leaves remap->_hash equal to the registered hash" if bad is None else
           "a path returns with remap->_hash not (re)assigned from `%s` after its last change: the names built from it are not the ones made unique" % hv["n"])


def _chain(n):
    """Accessor chain of an expression as a list of names, outermost call last:
       remap->_parameters[pn]._remap->get_new_type() -> ['_parameters','[]','_remap','get_new_type']"""
    out = []
    n = peel(n)
    while n is not None:
        k = n.get("k")
        if k == "call" and "this" in n:
            out.append(callee_short(n))
            n = peel(n["this"])
        elif k == "call" and n.get("opc") and callee_short(n) in ("operator[]", "operator*", "operator->"):
            out.append("[]" if callee_short(n) == "operator[]" else "*")
            n = peel(n["a"][0])
        elif k == "mem":
            out.append(n["n"].split("::")[-1])
            n = peel(n.get("b"))
        elif k == "un" and n.get("op") == "*":
            out.append("*")
            n = peel(n["e"])
        else:
            break
    out.reverse()
    return [x for x in out if x not in ("*",)]


def _header_entry(ctx):
    db = ctx.db
    fh = db.fn("InterfaceMakerC::write_function_header")
    fe = db.fn("FunctionRemap::make_wrapper_entry")
    # --- name
    hname = [n for n in fh.walk() if n.get("k") == "mem" and n["n"] == "FunctionRemap::_wrapper_name"]
    ename = None
    for n in fe.walk():
        t = assigned_target(n)
        if t and field_of(t[0]) == "InterrogateComponent::_name":
            ename = field_of(t[1])
    ctx.ob("R11.4", "name", bool(hname) and ename == "FunctionRemap::_wrapper_name", fh.loc(hname[0]) if hname else fh.loc(),
           "header prints _wrapper_name; entry stores %s as the wrapper name" % ename)
    # --- return type
    def ret_chain_h():
        for n in fh.walk():
            if n.get("k") == "if":
                atom, pos = cond_atom(fh, n["c"])
                if field_of(atom) == "FunctionRemap::_void_return":
                    branch = n.get("else") if pos else n.get("then")
                    for x in walk(branch):
                        if x.get("k") == "call" and callee_short(x) in ("get_local_name", "output_instance", "output"):
                            return _chain(x["this"]), n
        return None, None
    hc, hnode = ret_chain_h()
    ec = None
    evoid = None
    for n in fe.walk():
        t = assigned_target(n)
        if t and field_of(t[0]) == "InterrogateFunctionWrapper::_return_type":
            r = peel(t[1])
            if r.get("k") == "call" and callee_short(r) == "get_type":
                ec = _chain(r["a"][0])
        if n.get("k") == "if":
            atom, pos = cond_atom(fe, n["c"])
            if field_of(atom) == "FunctionRemap::_void_return" and not pos:
                for x in walk(n.get("then")):
                    if x.get("k") == "ref" and x.get("n", "").endswith("F_has_return"):
                        evoid = True
    ctx.ob("R11.4", "return-type-accessor", hc is not None and hc == ec, fh.loc(hnode) if hnode else fh.loc(),
           "header return type via %s, entry via %s" % (hc, ec))
    ctx.ob("R11.4", "void-test", hc is not None and evoid is True, fe.loc(),
           "both sides branch on _void_return (entry sets F_has_return iff !_void_return)")
    # --- parameters
    hparams = []
    for n in fh.walk():
        if n.get("k") == "call" and callee_short(n) == "output_instance" and "this" in n:
            ch = _chain(n["this"])
            hparams.append((ch, n))
    ok_h = bool(hparams) and all(ch == ["_parameters", "[]", "_remap", "get_new_type"] for ch, _ in hparams)
    # header index variable starts at 0, runs to size()
    pn_ok = False
    for n in fh.walk():
        if n.get("k") == "decls":
            for d in n["d"]:
                if d["n"] == "pn" and "init" in d and const_int(d["init"]) == 0:
                    pn_ok = True
    bounds = [n for n in fh.walk() if n.get("k") == "bin" and n.get("op") == "<" and "_parameters.size" in show(n) and show(n).startswith("pn")]
    ctx.ob("R11.4", "header-params-all-in-order", ok_h and pn_ok and len(bounds) >= 2, fh.loc(hparams[0][1]) if hparams else fh.loc(),
           "header prints parameters %s from pn=0 while pn < _parameters.size()" % (hparams[0][0] if hparams else None))
    eparam = None
    eloop = None
    for n in fe.walk():
        t = assigned_target(n)
        if t and field_of(t[0]) == "InterrogateFunctionWrapper::Parameter::_type":
            r = peel(t[1])
            if r.get("k") == "call" and callee_short(r) == "get_type":
                eparam = _chain(r["a"][0])
                lr = None
                for x in walk(r["a"][0]):
                    if x.get("k") == "ref" and x.get("dk") == "local":
                        lr = x
                if lr is not None:
                    cont, lp = iter_container(fe, n, lr)
                    eloop = field_of(cont) if cont is not None else None
    ctx.ob("R11.4", "entry-params-all-in-order", eparam == ["_remap", "get_new_type"] and eloop == "FunctionRemap::_parameters", fe.loc(),
           "entry records each element of %s via %s" % (eloop, eparam))
    pushes = [n for n in fe.walk() if n.get("k") == "call" and callee_short(n) == "push_back" and field_of(n.get("this")) == "InterrogateFunctionWrapper::_parameters"]
    ctx.ob("R11.4", "entry-push-once-per-param", len(pushes) == 1 and next(enclosing_loops(fe, pushes[0]), None) is not None,
           fe.loc(pushes[0]) if pushes else fe.loc(), "one push_back per element of _parameters")



def _frozen_after_recording(ctx):
    """R11.6: make_wrapper_entry() copies fields of the FunctionRemap into the database record right after the remap
    is created (record_function).  The code generator reads the same fields later.  They agree iff nobody writes these
    fields from outside once make_function_remap() has returned the remap."""
    db = ctx.db
    ctx.rule("R11.6", "the FunctionRemap fields that make_wrapper_entry() copies into the database are written from outside the class only inside make_function_remap(), i.e. before the remap is recorded; later writers (e.g. the hash-collision branch) would make code and database disagree")
    mw = db.fn("FunctionRemap::make_wrapper_entry")
    copied = set()
    for x in mw.walk():
        if x.get("k") == "mem" and not x.get("method") and x.get("n", "").startswith("FunctionRemap::") and x["n"].count("::") == 1:
            b = base_of(x)
            if b is None or b.get("k") == "this":
                copied.add(x["n"].split("::")[-1])
    # only the fields that end up in the record as they are: those on the right-hand side of an assignment to the entry
    direct = set()
    for x in mw.walk():
        t = assigned_target(x)
        if t and (field_of(t[0]) or "").startswith("InterrogateFunctionWrapper::"):
            r = strip_casts(peel(t[1]))
            if r is not None and r.get("k") == "mem" and r.get("n", "").startswith("FunctionRemap::"):
                direct.add(r["n"].split("::")[-1])
    direct |= {"_wrapper_name"} & copied
    if "_unique_name" not in direct:
        ctx.broken("make_wrapper_entry no longer copies _unique_name: R11.6 must be re-read")
    n = 0
    for f in db.functions:
        if "/interrogate/" not in f.file or f.name.startswith("FunctionRemap::"):
            continue
        for x in f.walk():
            t = assigned_target(x)
            if not t:
                continue
            fl = field_of(t[0]) or ""
            if not fl.startswith("FunctionRemap::") or fl.split("::")[-1] not in direct:
                continue
            n += 1
            ok = f.name == "InterfaceMaker::make_function_remap"
            ctx.ob("R11.6", "%s|writes|%s" % (f.name, fl.split("::")[-1]), ok, f.loc(x),
                   "`%s`: %s" % (show(x)[:70], "before the remap is recorded" if ok else "written after make_wrapper_entry() may already have copied it into the database"))
    ctx.floor("R11.6", "external writes of recorded FunctionRemap fields", n, 2)



ZERO_PUSH_EXEMPT = {
    # (function, list field): reason - each confirmed by reading
    ("InterrogateBuilder::define_struct_type", "_constructors"):
        "implicit constructors: get_function() answers 0 only for a constructor of an abstract class, and these blocks run only where "
        "is_default_constructible()/is_copy_constructible() held for the complete object, which an abstract class fails (checked: the push is behind that call)",
}


def _no_zero_in_lists(ctx):
    """R11.7: 0 is "no such entity".  The builder functions that look an entity up or make one (get_type, get_function,
    scan_element, get_make_property, get_make_seq, ...) answer 0 when they cannot; a caller that appends the answer to one
    of a type's index lists must test it, or the database lists an entry that does not exist (and the list's count is
    one too many).  (F-C11b: template nested class, unsuitable MAKE_SEQ / MAKE_PROPERTY getters.)"""
    db = ctx.db
    ctx.rule("R11.7", "in the builder, an index obtained from a function that can answer 0 is appended to an index list of an InterrogateType only behind a test that it is not 0")
    producers = set()
    for f in db.functions:
        if not f.name.startswith("InterrogateBuilder::"):
            continue
        rt = (f.sig or "").split("(")[0].strip()
        if not any(rt.endswith(t) or rt == "int" for t in INDEX_TYPES):
            continue
        if any(r.get("k") == "ret" and r.get("e") is not None and const_int(r["e"]) == 0 for r in f.walk()):
            producers.add(f.name)
    if len(producers) < 4:
        ctx.broken("R11.7: fewer than 4 builder functions that can answer 0 found (%s)" % sorted(producers))
    n = 0
    for f in db.functions:
        if not f.file.endswith("interrogateBuilder.cxx"):
            continue
        # locals holding a producer's answer
        held = {}
        for y in f.walk():
            if y.get("k") == "decls":
                for d in y["d"]:
                    init = strip_casts(peel(d.get("init"))) if d.get("init") else None
                    if init is not None and init.get("k") == "call" and init.get("f") in producers:
                        held[d["d"]] = (d["n"], callee_short(init))
            t = assigned_target(y)
            r = local_ref(t[0]) if t else None
            v = strip_casts(peel(t[1])) if t else None
            if r is not None and v is not None and v.get("k") == "call" and v.get("f") in producers:
                held[r["d"]] = (r.get("n"), callee_short(v))
        if not held:
            continue
        for c in f.walk():
            if c.get("k") != "call" or callee_short(c) not in ("push_back", "insert", "emplace_back") or "this" not in c or not c.get("a"):
                continue
            fld = field_of(strip_casts(peel(c["this"]))) or ""
            if not fld.startswith("InterrogateType::"):
                continue
            arg = local_ref(c["a"][-1])
            if arg is None or arg.get("d") not in held:
                continue
            n += 1
            name, prod = held[arg["d"]]
            d = arg["d"]

            def nonzero(atom, truth, d=d):
                cc = G.cmp_atom(atom)
                if cc:
                    op, u, v = cc
                    if not truth:
                        op = G.NEG[op]
                    for p, q in ((u, v), (v, u)):
                        lr = local_ref(p)
                        if lr is not None and lr.get("d") == d and q is not None and const_int(q) == 0:
                            return op in ("!=", ">") if p is u else op in ("!=", "<")
                    return False
                lr = local_ref(atom)
                return lr is not None and lr.get("d") == d and truth
            edges = G.edges_where(f, nonzero)
            ok = G.gated(f, c, edges)
            short = fld.split("::")[-1]
            inst = "%s|%s.push_back(%s)@%s|from-%s" % (f.name, short, name, f.loc(c).split(":")[-1], prod)
            if not ok and (f.name, short) in ZERO_PUSH_EXEMPT:
                e2 = G.edges_where(f, G.pred_true("is_default_constructible", "is_copy_constructible", "is_move_constructible"))
                if G.gated(f, c, e2):
                    ctx.ob("R11.7", "%s|%s.push_back(%s)|from-%s|exception" % (f.name, short, name, prod), True, f.loc(c), "reasoned exception: " + ZERO_PUSH_EXEMPT[(f.name, short)])
                    continue
            ctx.ob("R11.7", "%s|%s.push_back(%s)|from-%s" % (f.name, short, name, prod), ok, f.loc(c),
                   "`%s` (answer of %s(), 0 = none) is %stested before it is appended to %s" % (name, prod, "" if ok else "NOT ", short))
    ctx.floor("R11.7", "appends of looked-up indices to a type's lists", n, 8)


def _next_index_after_renumbering(ctx):
    """R11.8: the module definition compiled into the generated code carries [first_index, next_index) and
    InterrogateDatabase::read() refuses a file whose entry count differs ("out of date").  remap_indices() closes the
    gaps that remove_type() leaves, so a next_index taken BEFORE the renumbering can be too large.  (F-C11c, known.)"""
    db = ctx.db
    ctx.rule("R11.8", "in InterrogateBuilder::write_code no function that writes InterrogateDatabase::get_next_index() into the generated code (directly or through the interface makers' virtual write_* functions) is called before remap_indices(remaps)")
    f = db.fn("InterrogateBuilder::write_code")
    rm = [c for c in f.walk() if c.get("k") == "call" and c.get("f") == "InterrogateBuilder::remap_indices"]
    if len(rm) != 1:
        ctx.broken("R11.8: expected one remap_indices() call in write_code, found %d" % len(rm))
    rloc = f.cfg.locate(rm[0])
    bykey = db.by_key()
    g = db.callgraph
    # "reads" = writes it into the generated text (operand of an ostream <<); taking the next free index in order to
    # allocate an entry is what get_next_index() is for
    def emits(fn):
        for c in fn.walk():
            if c.get("k") == "call" and "operator<<" in (c.get("f") or ""):
                for a in c.get("a", []):
                    aa = strip_casts(peel(a))
                    if aa is not None and aa.get("k") == "call" and aa.get("f") == "InterrogateDatabase::get_next_index":
                        return True
        return False
    readers = {fn.key for fn in db.functions if "/interrogate/" in fn.file and emits(fn)}
    if not readers:
        ctx.ob("R11.8", "write_code|no-reader-of-next_index", True, f.loc(), "nothing in the generators reads get_next_index()")
        return
    by_ns = {}
    for fn in db.functions:
        by_ns.setdefault(fn.name + "|" + fn.sig, []).append(fn)
    n = 0
    seen_inst = set()
    for c in f.walk():
        if c.get("k") != "call" or "f" not in c:
            continue
        lc = f.cfg.locate(c)
        if lc is None or rloc is None:
            continue
        # before the renumbering: the renumbering call is reachable from this call and this call is not reachable from it
        before = (rloc[0] in f.cfg.reachable(lc[0]) and (lc[0] != rloc[0] or lc[1] < rloc[1])) and not (lc[0] in f.cfg.reachable(rloc[0]) and lc[0] != rloc[0])
        ks = c["f"] + "|" + c.get("s", "")
        targets = list(by_ns.get(ks, []))
        if c.get("virt") and not c.get("qual"):
            for o in db.overriders.get(ks, ()):
                targets += by_ns.get(o, [])
        for t in targets:
            reach = db.closure([t])
            hit = sorted(bykey[k].name for k in reach & readers)
            if not hit:
                continue
            n += 1
            inst = "write_code|%s|next_index-read-after-renumbering" % t.name
            if inst in seen_inst:
                continue
            seen_inst.add(inst)
            ctx.ob("R11.8", inst, not before, f.loc(c),
                   "%s() writes get_next_index() into the generated code (in %s) and is called %s remap_indices(remaps)" % (t.name, ", ".join(hit), "BEFORE" if before else "after"))
    ctx.floor("R11.8", "calls in write_code that reach a reader of get_next_index()", n, 1)


def _stale_loop_counters(ctx):
    """R11.9: after `for (i = 0; i < n; i++)` has finished, i equals n - the one value that is NOT a position of the list
    the loop walked.  A counter that outlives its loop (declared before it) and is then used as a position argument /
    subscript without being assigned again names either nothing or an unrelated entry; in record_object() such a slip
    records a synthesised downcast against the wrong base class (seed S6-C11): database and generated code then
    disagree about the wrapper's `this`."""
    db = ctx.db
    ctx.rule("R11.9", "in the generators and the database library, the control variable of a finished counted for-loop is not used as a position (argument of a by-position accessor, subscript) before it is assigned again")
    n_loops = 0
    for f in db.functions:
        if not any(d in f.file for d in ("/interrogate/", "/interrogatedb/")):
            continue
        loops = [lp for lp in f.walk() if lp.get("k") == "for" and lp.get("init") is not None]
        for lp in loops:
            t = assigned_target(peel(lp["init"])) if peel(lp["init"]) is not None else None
            v = local_ref(t[0]) if t else None
            if v is None:
                continue        # counter declared in the loop header: out of scope afterwards
            cond = lp.get("c")
            if cond is None or not any((local_ref(y) or {}).get("d") == v["d"] for y in walk(cond) if y.get("k") == "ref"):
                continue
            n_loops += 1
            d = v["d"]
            inside = {id(y) for y in walk(lp)}
            # blocks that assign the counter outside this loop (another loop's init, a plain assignment)
            reassign = set()
            for y in f.walk():
                if id(y) in inside:
                    continue
                ty = assigned_target(y)
                if ty and (local_ref(ty[0]) or {}).get("d") == d:
                    loc = f.cfg.locate(y)
                    if loc:
                        reassign.add(loc)
            # exit of the loop: false edge of its condition
            cl = None
            for y in walk(cond):
                cl = f.cfg.locate(y)
                if cl:
                    break
            if cl is None:
                continue
            exits = [s for s in f.cfg.blocks[cl[0]].succs if s is not None]
            body_first = None
            for y in walk(lp.get("body") or {}):
                body_first = f.cfg.locate(y)
                if body_first:
                    break
            after = [s for s in exits if body_first is None or s != body_first[0]]
            for use in f.walk():
                if id(use) in inside:
                    continue
                pos_arg = None
                if use.get("k") == "call" and use.get("a") and "this" in use:
                    for a in use["a"]:
                        if (local_ref(strip_casts(peel(a))) or {}).get("d") == d and (strip_casts(peel(a)) or {}).get("k") == "ref":
                            pos_arg = a
                elif use.get("k") == "idx":
                    ix = use.get("x")
                    if ix is not None and (local_ref(strip_casts(peel(ix))) or {}).get("d") == d:
                        pos_arg = ix
                if pos_arg is None:
                    continue
                lu = f.cfg.locate(use)
                if lu is None:
                    continue
                # dirty = reachable from the loop exit without passing a re-assignment of the counter; a block that holds a
                # re-assignment is dirty only up to that position and does not pass the dirt on
                first_re = {}
                for (bb, pp) in reassign:
                    first_re[bb] = min(pp, first_re.get(bb, pp))
                dirty_upto = {}
                stack = list(after)
                seen = set()
                while stack:
                    bb = stack.pop()
                    if bb in seen:
                        continue
                    seen.add(bb)
                    if bb in first_re:
                        dirty_upto[bb] = first_re[bb]
                        continue
                    dirty_upto[bb] = 1 << 30
                    if f.cfg.blocks[bb].noret:
                        continue
                    stack.extend(x for x in f.cfg.blocks[bb].succs if x is not None)
                stale = lu[0] in dirty_upto and lu[1] < dirty_upto[lu[0]]
                if stale:
                    ctx.ob("R11.9", "%s|%s|counter-of-finished-loop" % (f.name, show(use)[:50]), False, f.loc(use),
                           "`%s` uses `%s`, the counter of the loop at line %d that has already finished (its value is the loop's bound)" % (show(use)[:60], v.get("n"), f.line_of(lp)))
    ctx.ob("R11.9", "no-stale-counter-use", True, "src", "%d counted loops whose counter outlives them were examined" % n_loops)
    ctx.floor("R11.9", "counted loops whose counter is declared before the loop", n_loops, 10)


def _no_update_of_index_zero(ctx):
    """R11.10: InterrogateDatabase::update_<kind>(i) is `_<kind>_map[i]`: for an index that is not in the map it CREATES
    an entry.  For i == 0 ("none") that phantom entry is then renumbered like a real one and every field of the database
    that holds 0 is rewritten to its index (the assert that guards update_type is compiled out).  A local index that
    the function itself compares with 0 (its own statement that 0 occurs) may reach update_*() only on the non-zero side
    or after it was given a fresh index.  (Seed S7-C11.  A first version also distrusted every answer of get_function();
    that fired on get_getter(), where the 0 answer - a constructor of an abstract class - cannot occur: dropped.)"""
    db = ctx.db
    ctx.rule("R11.10", "in the builder and the generators, update_type/update_function/update_wrapper/update_manifest/update_element/update_make_seq(v) with a local v that can be 0 is behind a test that v is not 0")
    producers = set()
    for f in db.functions:
        if not f.name.startswith("InterrogateBuilder::"):
            continue
        rt = (f.sig or "").split("(")[0].strip()
        if any(rt.endswith(t) for t in INDEX_TYPES) and any(r.get("k") == "ret" and r.get("e") is not None and const_int(r["e"]) == 0 for r in f.walk()):
            producers.add(f.name)
    n = 0
    for f in db.functions:
        if "/interrogate/" not in f.file:
            continue
        for c in f.walk():
            if c.get("k") != "call" or not (c.get("f") or "").startswith("InterrogateDatabase::update_") or not c.get("a"):
                continue
            v = local_ref(strip_casts(peel(c["a"][0])))
            if v is None or v.get("dk") != "local":
                continue
            d = v["d"]
            can_be_zero = None
            for y in f.walk():
                cm = G.cmp_atom(y) if y.get("k") in ("bin",) else None
                if cm and cm[0] in ("==", "!=") and any((local_ref(z) or {}).get("d") == d for z in cm[1:] if z is not None) and any(const_int(z) == 0 for z in cm[1:] if z is not None):
                    can_be_zero = "the function itself compares `%s` with 0" % v.get("n")
                src = None
                if y.get("k") == "decls":
                    for dd in y["d"]:
                        if dd.get("d") == d and dd.get("init") is not None:
                            src = strip_casts(peel(dd["init"]))
                t = assigned_target(y)
                if t and (local_ref(t[0]) or {}).get("d") == d:
                    src = strip_casts(peel(t[1]))
            if can_be_zero is None:
                continue
            n += 1

            def nonzero(atom, truth, d=d):
                cc = G.cmp_atom(atom)
                if cc:
                    op, u, w = cc
                    if not truth:
                        op = G.NEG[op]
                    for p, q in ((u, w), (w, u)):
                        lr = local_ref(p)
                        if lr is not None and lr.get("d") == d and q is not None and const_int(q) == 0:
                            return op in ("!=", ">") if p is u else op in ("!=", "<")
                    return False
                lr = local_ref(atom)
                return lr is not None and lr.get("d") == d and truth
            # an assignment of a freshly allocated index (get_next_index()) also makes it non-zero
            fresh = []
            for y in f.walk():
                t = assigned_target(y)
                if t and (local_ref(t[0]) or {}).get("d") == d:
                    r = strip_casts(peel(t[1]))
                    if r is not None and r.get("k") == "call" and callee_short(r) == "get_next_index":
                        loc = f.cfg.locate(y)
                        if loc:
                            fresh.append(loc[0])
            lc = f.cfg.locate(c)
            ok = lc is None or lc[0] not in f.cfg.reachable(cut_edges=G.edges_where(f, nonzero), cut_blocks=[b for b in fresh if lc is None or b != lc[0]])
            ctx.ob("R11.10", "%s|%s(%s)|not-zero" % (f.name, callee_short(c), v.get("n")), ok, f.loc(c),
                   "%s; `%s` is %sbehind `%s != 0`" % (can_be_zero, show(c)[:50], "" if ok else "NOT ", v.get("n")))
    ctx.floor("R11.10", "update_*() calls with an index the function compares with 0", n, 2)


def _root_of(n):
    n = strip_casts(peel(n)) if n is not None else None
    while n is not None and n.get("k") in ("mem", "idx"):
        n = strip_casts(peel(n.get("b")))
    return n


def _copy_mutations(lp):
    """Mutations of the (by-value) loop variable of a range-for that nothing reads afterwards: non-const member calls on
    it or on a member of it, and assignments to its members."""
    vt = (lp.get("vt") or "").strip()
    if vt.endswith("&") or vt.endswith("*"):
        return []
    vd = lp.get("vd")
    body = list(walk(lp.get("body") or {}))
    muts = []
    for y in body:
        if y.get("k") == "call" and "this" in y and y.get("m") and not (y.get("s") or "").rstrip().endswith("const"):
            r = _root_of(y["this"])
            if r is not None and r.get("k") == "ref" and r.get("d") == vd:
                muts.append(y)
        t = assigned_target(y)
        if t:
            tgt = strip_casts(peel(t[0]))
            r = _root_of(tgt)
            if r is not None and r.get("k") == "ref" and r.get("d") == vd and tgt.get("k") != "ref":
                muts.append(y)
    if not muts:
        return []
    # a later read of the variable (by tree order) makes the copy a working value, not a lost update
    last = max(m.get("i", 0) for m in muts)
    inside = set()
    for m in muts:
        inside.update(z.get("i") for z in walk(m))
    for y in body:
        if y.get("k") == "ref" and y.get("d") == vd and y.get("i", 0) > last and y.get("i") not in inside:
            return []
    return muts


def _no_update_of_a_copy(ctx):
    """R11.11: `for (auto entry : _make_seq_map) entry.second.remap_indices(remap);` renumbers copies: the stored records
    keep their old indices and nothing warns.  In the database library and the generators, a range-for whose loop
    variable is a copy must not be the receiver of a non-const member call / the target of a member assignment unless
    the variable is read afterwards.  (Seed S8-C11.)"""
    db = ctx.db
    ctx.rule("R11.11", "a range-for over a container binds by reference when its body changes the element (non-const member call on it, or assignment to a member of it, with no later read of the variable)")
    # the detector must see the shape it is looking for (a zero count passes vacuously otherwise)
    probe = {"k": "forrange", "vd": 7, "vt": "std::pair<const int, R>", "body": {"i": 1, "k": "block", "s": [
        {"i": 2, "k": "call", "f": "R::remap_indices", "s": "void (const IndexRemapper &)", "m": 1,
         "this": {"i": 3, "k": "mem", "n": "std::pair::second", "b": {"i": 4, "k": "ref", "d": 7, "dk": "local"}}, "a": []}]}}
    probe_ref = dict(probe, vt="std::pair<const int, R> &")
    if len(_copy_mutations(probe)) != 1 or _copy_mutations(probe_ref):
        ctx.broken("R11.11: the detector no longer recognises its own example")
    n = n_val = 0
    for f in db.functions:
        if not any(d in f.file for d in ("/interrogatedb/", "/interrogate/", "/cppparser/")):
            continue
        for lp in f.walk():
            if lp.get("k") != "forrange":
                continue
            n += 1
            vt = (lp.get("vt") or "").strip()
            if vt.endswith("&") or vt.endswith("*"):
                continue
            n_val += 1
            muts = _copy_mutations(lp)
            what = ", ".join(sorted({(m.get("f") or "assignment").split("::")[-1] for m in muts}))
            ctx.ob("R11.11", "%s|for(%s)|no-update-of-a-copy" % (f.name, lp.get("var")), not muts, f.loc(lp),
                   "loop variable `%s` (%s) is a copy; %s" % (lp.get("var"), vt, ("%s on it is lost" % what) if muts else "the body does not change it"))
    ctx.floor("R11.11", "range-for loops examined", n, 60)
    ctx.floor("R11.11", "range-for loops binding by value", n_val, 5)
