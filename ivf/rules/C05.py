"""C05 — the database describes every exported entity truthfully.

Decided (role-flag plumbing only): the chain  C++ fact -> builder flag ->
stored flag -> accessor / text label  is wired name-to-name for the roles the
statement lists (kind, static/virtual/constructor/destructor/operator roles,
this/optional/named parameters, return value and ownership).
Not decided: scoped names, parameter lists, comment attachment, property and
sequence resolution (run-time data).
"""
import json
import os
import re

from ..facts import peel, strip_casts, show, walk, cond_atom
from . import gates as G
from .. import grammar as GR
from .common import (callee_short, field_of, base_of, assigned_target, const_int, local_ref, deref)
from .C04 import switch_arms

LEVEL = "other"
EXPLANATION = ("Name-to-name agreement of flag accessors, builder flag translations and text-dump labels; exhaustive over the flag "
               "enumerations of interrogatedb and the translation sites of the builder.  A table-agreement check, not a check of the "
               "recorded names/parameter lists themselves.")
TRUSTED = ["clang 14 AST", "enumerator and member names carry their role (the repo's naming convention)", "ivf/spec/roles.json (hand-written, member -> flag)"]
ASSUMPTIONS = ["a flag translation is written as `if (<one source fact>) dst |= FLAG` or as a switch arm"]

FILLER = {"is", "has", "value", "return", "parameter", "derivation", "get", "f", "pf", "df", "sc", "t", "function", "type"}


def toks(name):
    name = name.split("::")[-1]
    return [t for t in re.split(r"_+", name.lower()) if t]


def core(name, strip_prefix=True):
    t = toks(name)
    if strip_prefix and t and t[0] in ("f", "pf", "df", "sc", "t", "at", "st", "vc"):
        t = t[1:]
    return [x for x in t if x not in ("is", "has")] or t


def run(ctx):
    db = ctx.db
    ctx.rule("R05.1", "each flag accessor `(_flags & F_x) != 0` is named after its enumerator, and the enumerators of one flag word are distinct single bits")
    ctx.rule("R05.2", "each builder statement `if (source fact) dst |= FLAG` pairs a source enumerator/member with the stored flag of the same role")
    ctx.rule("R05.3", "each text-dump label printed under `if (_flags & F_x)` is the flag's role name")

    # ------------------------------------------------------------ R05.1
    n_acc = 0
    for f in db.functions:
        if "/interrogatedb/interrogate" not in f.file or "py_" in f.file:
            continue
        if f.name.split("::")[-1] in ("write", "output", "input", "merge_with", "remap_indices"):
            continue
        for r in f.walk():
            if r.get("k") != "ret" or r.get("e") is None:
                continue
            masks = []
            for x in walk(r["e"]):
                if x.get("k") == "bin" and x.get("op") == "&":
                    en = [y for y in walk(x) if y.get("k") == "ref" and y.get("dk") == "enumc"]
                    fl = [y for y in walk(x) if y.get("k") == "mem" and y["n"].split("::")[-1] in ("_flags", "_parameter_flags")]
                    if en and fl:
                        masks.append((en, fl[0]))
            for en, fl in masks:
                if len(en) != 1:
                    continue
                n_acc += 1
                acc = f.name.split("::")[-1]
                ft, at = set(core(en[0]["n"])), set(toks(acc))
                ok = ft <= at and (at - ft) <= FILLER | set(toks(en[0]["n"]))
                # the flag word and the enumerator belong to the same record
                same = en[0].get("en", "").rsplit("::", 1)[0] == fl["n"].rsplit("::", 1)[0] or en[0].get("en", "").rsplit("::", 1)[0] == fl["n"].rsplit("::", 2)[0]
                ctx.ob("R05.1", "%s|%s" % (f.name, en[0]["n"].split("::")[-1]), ok and same, f.loc(r),
                       "accessor %s tests %s%s" % (acc, en[0]["n"], "" if same else " (enumerator of another record's flag word)"))
    ctx.floor("R05.1", "flag accessors", n_acc, 55)
    for ename in ("InterrogateType::Flags", "InterrogateFunction::Flags", "InterrogateFunctionWrapper::Flags", "InterrogateElement::Flags",
                  "InterrogateManifest::Flags", "InterrogateFunctionWrapper::ParameterFlags", "InterrogateType::DerivationFlags"):
        e = db.enums.get(ename)
        if e is None:
            cands = [k for k in db.enums if k.startswith(ename.split("::")[0] + "::") and any(c["n"].startswith(("F_", "PF_", "DF_")) for c in db.enums[k]["consts"])]
            continue
        vals = [c["v"] for c in e["consts"]]
        ok = len(set(vals)) == len(vals) and all(v > 0 and v & (v - 1) == 0 for v in vals)
        ctx.ob("R05.1", "%s|distinct-single-bits" % ename, ok, "%s:%d" % (e["file"].replace("/repo/", ""), e["line"]), "values %s" % [hex(v) for v in vals])
    # all flag enums of interrogatedb records (whatever they are called)
    n_en = 0
    for k, e in db.enums.items():
        if "/interrogatedb/interrogate" not in e["file"] or "interface" in e["file"]:
            continue
        if not e["consts"] or not all(c["n"].startswith(("F_", "PF_", "DF_")) for c in e["consts"]):
            continue
        n_en += 1
        vals = [c["v"] for c in e["consts"]]
        ok = len(set(vals)) == len(vals) and all(v > 0 and v & (v - 1) == 0 for v in vals)
        ctx.ob("R05.1", "%s|distinct-single-bits" % k, ok, "%s:%d" % (e["file"].replace("/repo/", ""), e["line"]), "%d enumerators, values distinct single bits: %s" % (len(vals), ok))
    ctx.floor("R05.1", "flag enumerations", n_en, 7)

    # ------------------------------------------------------------ R05.2
    roles = json.load(open(os.path.join(os.path.dirname(os.path.dirname(__file__)), "spec", "roles.json")))
    member_rows = {(r["function"], r["flag"]): r for r in roles["member_rows"]}
    seen_rows = set()
    n_tr = 0
    builders = [f for f in db.functions if f.file.endswith(("interrogate/interrogateBuilder.cxx", "interrogate/functionRemap.cxx"))]
    for f in builders:
        for n in f.walk():
            if not (n.get("k") == "bin" and n.get("op") == "|="):
                continue
            fl = field_of(n["x"])
            if not fl or fl.split("::")[-1] not in ("_flags", "_parameter_flags") or not fl.startswith("Interrogate"):
                continue
            dst = [x for x in walk(n["y"]) if x.get("k") == "ref" and x.get("dk") == "enumc"]
            if len(dst) != 1:
                continue
            dflag = dst[0]["n"].split("::")[-1]
            short = f.name.split("::")[-1]
            # controlling fact: nearest enclosing if-condition or case label
            src_en, src_mem, neg, via = None, None, False, None
            prev = n
            for a in f.ancestors(n):
                if a.get("k") == "if":
                    in_then = any(x is prev or (x.get("i") == prev.get("i")) for x in [a.get("then")]) or _contains(a.get("then"), n)
                    atom, pos = cond_atom(f, a["c"])
                    neg = (not pos) != (not in_then)
                    ens = [x for x in walk(a["c"]) if x.get("k") == "ref" and x.get("dk") == "enumc" and x.get("en") != dst[0].get("en")]
                    mems = [x for x in walk(a["c"]) if (x.get("k") == "mem" and not x.get("method")) or (x.get("k") == "call" and "this" in x and not x.get("opc"))]
                    if len(ens) == 1 and any(y.get("k") == "bin" and y.get("op") == "&" for y in walk(a["c"])):
                        src_en = ens[0]
                    elif atom is not None and atom.get("k") == "mem":
                        src_mem = atom["n"]
                    elif atom is not None and atom.get("k") == "call" and "this" in atom:
                        src_mem = atom["f"]
                    elif atom is not None and atom.get("k") == "call" and atom.get("f"):
                        src_mem = atom["f"]
                    via = a
                    break
                if a.get("k") == "switch":
                    for labels, stmts in switch_arms(a):
                        if any(_contains(s, n) for s in stmts):
                            # find the case node(s) for the enumerator names
                            names = []
                            for c in walk(a["body"]):
                                if c.get("k") == "case" and c.get("v") in labels:
                                    l = strip_casts(c.get("lhs"))
                                    if l is not None and l.get("k") == "ref":
                                        names.append(l)
                            if len(names) >= 1:
                                src_en = names  # list: any label of the arm
                    via = a
                    break
                prev = a
            inst = "%s|%s" % (short, dflag)
            if src_en is not None:
                cands = src_en if isinstance(src_en, list) else [src_en]
                dcore = set(core(dflag))
                # a translation pair exists only if the source enumeration has an enumerator of that role
                senum = db.enums.get(cands[0].get("en", ""))
                twins = [c["n"] for c in (senum["consts"] if senum else []) if set(core(c["n"])) == dcore]
                if not twins:
                    ctx.info("R05.2 not a role pair (source enum %s has no enumerator named like %s): %s" % (cands[0].get("en"), dflag, f.loc(n)))
                    continue
                n_tr += 1
                ok = any(c["n"].split("::")[-1] in twins for c in cands)
                ctx.ob("R05.2", inst + "|from|" + "+".join(c["n"].split("::")[-1] for c in cands), ok, f.loc(n),
                       "%s is set under %s" % (dst[0]["n"], [c["n"] for c in cands]))
            elif src_mem is not None and (short, dflag) in member_rows:
                n_tr += 1
                row = member_rows[(short, dflag)]
                seen_rows.add((short, dflag))
                ok = src_mem == row["source"] and neg == bool(row.get("negated"))
                ctx.ob("R05.2", inst + "|from-member", ok, f.loc(n),
                       "%s is set when %s%s (spec: %s%s)" % (dst[0]["n"], "!" if neg else "", src_mem, "!" if row.get("negated") else "", row["source"]))
                if row.get("target_element"):
                    tgt = show(n["x"])
                    ctx.ob("R05.2", inst + "|on-" + row["target_element"], ("." + row["target_element"] + "()") in tgt.replace("->", "."), f.loc(n),
                           "flag applied to %s (spec: the %s() parameter)" % (tgt, row["target_element"]))
    # each member-controlled flag is set EXACTLY when its source holds: the sites are behind the source test (above, for
    # the nearest test; here for any nesting), and from the edge on which the source holds no path leaves the
    # iteration / the function without passing a site
    for key, row in member_rows.items():
        short, dflag = key
        fs = [f for f in builders if f.name.split("::")[-1] == short]
        sites = []
        for f in fs:
            for n in f.walk():
                if n.get("k") == "bin" and n.get("op") == "|=" and any(x.get("k") == "ref" and x.get("dk") == "enumc" and x["n"].split("::")[-1] == dflag for x in walk(n["y"])):
                    fl = field_of(n["x"]) or ""
                    if fl.startswith("Interrogate") and fl.split("::")[-1] in ("_flags", "_parameter_flags"):
                        sites.append((f, n))
        if not sites:
            ctx.broken("roles.json row %s: the flag is not set anywhere in %s (anchor moved?)" % (key, short))
        f = sites[0][0]
        cfg = f.cfg
        want_true = not row.get("negated")

        def source_holds(atom, truth, row=row):
            nm = atom.get("n") if atom.get("k") == "mem" else (atom.get("f") if atom.get("k") == "call" else None)
            return nm == row["source"] and truth == want_true
        edges = G.edges_where(f, source_holds)
        if not edges:
            ctx.ob("R05.2", "%s|%s|source-tested" % key, False, f.loc(sites[0][1]), "no branch tests %s%s in %s" % ("!" if row.get("negated") else "", row["source"], short))
            continue
        site_blocks = [cfg.locate(n)[0] for ff, n in sites if ff is f and cfg.locate(n) is not None]
        for ff, n in sites:
            if key not in seen_rows:
                ctx.ob("R05.2", "%s|%s|behind-source" % key, G.gated(ff, n, edges), ff.loc(n), "%s is set only when %s%s" % (dflag, "!" if row.get("negated") else "", row["source"]))
        miss = None
        for (b, idx) in edges:
            s0 = cfg.blocks[b].succs[idx]
            if s0 is None or s0 in site_blocks:
                continue
            reach = cfg.reachable(s0, cut_blocks=site_blocks)
            if cfg.exit in reach or b in reach:
                miss = b
        ctx.ob("R05.2", "%s|%s|whenever-source" % key, miss is None, f.loc(sites[0][1]),
               "%s is set on every path on which %s%s holds" % (dflag, "!" if row.get("negated") else "", row["source"]) if miss is None else
               "%s is NOT set on some path on which %s%s holds (a further condition lies between the test and the flag)" % (dflag, "!" if row.get("negated") else "", row["source"]))
        seen_rows.add(key)
    ctx.floor("R05.2", "flag translation sites judged", n_tr, 28)

    # ------------------------------------------------------------ R05.3
    n_lab = 0
    for f in db.functions:
        if "/interrogatedb/interrogate" not in f.file or f.name.split("::")[-1] != "write":
            continue
        for n in f.walk():
            if n.get("k") != "if":
                continue
            atom, pos = cond_atom(f, n["c"])
            if atom is None or atom.get("k") != "bin" or atom.get("op") != "&" or not pos:
                continue
            en = [x for x in walk(atom) if x.get("k") == "ref" and x.get("dk") == "enumc"]
            if len(en) != 1:
                continue
            lits = [x.get("v", "") for x in walk(n["then"]) if x.get("k") == "str"]
            lits = [l.strip() for l in lits if l.strip()]
            if len(lits) != 1 or not re.match(r"^\(?[a-z_ ]+\)?$", lits[0]):
                continue
            n_lab += 1
            lab = set(t for t in re.split(r"[_ ()]+", lits[0]) if t)
            ft = set(core(en[0]["n"]))
            ok = ft <= lab | {"is", "has"} and (lab - set(toks(en[0]["n"]))) <= {"is", "has"}
            ctx.ob("R05.3", "%s|%s|label" % (f.name, en[0]["n"].split("::")[-1]), ok, f.loc(n), "prints %r under %s" % (lits[0], en[0]["n"]))
    ctx.floor("R05.3", "text-dump flag labels", n_lab, 30)
    _derivations(ctx)
    _virtual_inference(ctx)
    _default_base_access(ctx)
    _by_name_keys(ctx)
    _base_specifiers(ctx)
    _accessors_do_not_shadow_methods(ctx)
    _semantic_values_always_set(ctx)
    _folded_into_the_base_only_without_adjustment(ctx)
    _signature_keys_keep_reference_constness(ctx)
    _operator_names_are_spelled_as_the_grammar_spells_them(ctx)
    # R05.13 = R06.16 applied to CPPInstance::operator<, which orders the parameter instances inside a function type: a
    # parameter WITH a default value must not tie with the same parameter without one, or CPPType::new_type() hands the second
    # function the first one's parameter list and the database records the wrong `optional` flags (seed S11-C05)
    from .C06 import nullable_members_are_ordered_when_only_one_is_null
    nullable_members_are_ordered_when_only_one_is_null(ctx, rid="R05.13", names=("CPPInstance::operator<",), floor=1)


def _contains(tree, node):
    if tree is None:
        return False
    for x in walk(tree):
        if x is node:
            return True
    return False


def _derivations(ctx):
    """R05.4: how define_struct_type records a base class: only accessible bases, the base's own index,
    upcast = cast *to the base from the derived class*, downcast the other way round, each flag next to the
    function it announces, no downcast through a virtual base; and wrapper parameters keep their names."""
    from . import gates as G
    from .common import enclosing_loops, loop_container
    db = ctx.db
    ctx.rule("R05.4", "a base is recorded only if its access is <= V_public, with upcast = get_cast_function(base, derived) and downcast = get_cast_function(derived, base), flags paired with the functions they announce; wrapper parameters carry the name and has-name bit of the same parameter")
    fd = db.fn("InterrogateBuilder::define_struct_type")
    p_cpp = [p for p in fd.params if "CPPStructType" in p["t"]]
    if not p_cpp:
        ctx.broken("define_struct_type: CPPStructType parameter not found")
    derived = p_cpp[0]["d"]
    casts = [c for c in fd.walk() if c.get("k") == "call" and callee_short(c) == "get_cast_function" and len(c.get("a", [])) == 3]
    ctx.floor("R05.4", "cast functions synthesised in define_struct_type", len(casts), 2)
    for c in casts:
        kind = None
        for x in walk(c["a"][2]):
            if x.get("k") == "str":
                kind = x["v"]
        to_, from_ = local_ref(c["a"][0]), local_ref(c["a"][1])
        par = next(fd.ancestors(c), None)
        t = assigned_target(par) if par is not None else None
        tgt = (field_of(t[0]) or "").split("::")[-1] if t else None
        if kind == "upcast":
            ok = from_ is not None and from_.get("d") == derived and to_ is not None and to_.get("d") != derived and tgt == "_upcast"
            ctx.ob("R05.4", "define_struct_type|upcast-roles", ok, fd.loc(c), "upcast = get_cast_function(to=%s, from=%s) stored in %s" % (show(c["a"][0]), show(c["a"][1]), tgt))
        elif kind == "downcast":
            ok = to_ is not None and to_.get("d") == derived and from_ is not None and from_.get("d") != derived and tgt == "_downcast"
            ctx.ob("R05.4", "define_struct_type|downcast-roles", ok, fd.loc(c), "downcast = get_cast_function(to=%s, from=%s) stored in %s" % (show(c["a"][0]), show(c["a"][1]), tgt))
            # never through a virtual base
            virt_false = G.edges_where(fd, lambda atom, truth: (field_of(atom) or "").endswith("_is_virtual") and not truth)
            ctx.ob("R05.4", "define_struct_type|no-downcast-through-virtual-base", G.gated(fd, c, virt_false), fd.loc(c), "the downcast is synthesised only when the base is not virtual")
        # the flag set in the same block announces the same direction
        blk = fd.cfg.locate(c)[0]
        flags = set()
        for e in fd.cfg.blocks[blk].elems:
            n = fd.nodes.get(e)
            if n is not None and n.get("k") == "bin" and n.get("op") == "|=":
                flags |= {x["n"].split("::")[-1] for x in walk(n["y"]) if x.get("k") == "ref" and x.get("dk") == "enumc"}
        ctx.ob("R05.4", "define_struct_type|%s-flag" % kind, ("DF_" + str(kind)) in flags, fd.loc(c), "%s is announced by %s" % (kind, sorted(flags)))
    # recording a base is behind `_vis <= V_public`
    pushes = [c for c in fd.walk() if c.get("k") == "call" and callee_short(c) == "push_back" and (field_of(c.get("this")) or "").endswith("_derivations")]
    pub = G.edges_where(fd, G.vis_le("V_public"))
    for i, pcall in enumerate(pushes):
        ctx.ob("R05.4", "define_struct_type|derivation#%d|accessible-only" % i, G.gated(fd, pcall, pub), fd.loc(pcall), "a base is recorded only behind `base._vis <= V_public`")
    ctx.floor("R05.4", "derivation recording sites", len(pushes), 2)
    # d._base is the index of the resolved base type of the same loop element
    bases = [n for n in fd.walk() if assigned_target(n) and (field_of(assigned_target(n)[0]) or "").endswith("Derivation::_base")]
    ok = bool(bases) and all(local_ref(assigned_target(n)[1]) is not None for n in bases)
    ctx.ob("R05.4", "define_struct_type|base-index", ok, fd.loc(bases[0]) if bases else fd.loc(), "d._base is the index returned by get_type() for that base")
    # parameter names
    fe = db.fn("FunctionRemap::make_wrapper_entry")
    nm = [n for n in fe.walk() if assigned_target(n) and (field_of(assigned_target(n)[0]) or "").endswith("Parameter::_name")]
    ok = False
    if len(nm) == 1:
        r = assigned_target(nm[0])[1]
        ok = (field_of(r) or "").endswith("FunctionRemap::Parameter::_name")
        # same loop element as the type
        lp = next(enclosing_loops(fe, nm[0]), None)
        ok = ok and lp is not None and (field_of(loop_container(fe, lp)) or "").endswith("_parameters")
        # ... read through the loop's own cursor, not some other element of the container
        if ok:
            hdr = [lp.get(k) for k in ("c", "inc", "var") if isinstance(lp.get(k), dict)]
            cursor = {x.get("d") for h in hdr for x in walk(h) if x.get("k") == "ref" and x.get("dk") == "local"}
            if lp.get("k") == "forrange":
                cursor = {lp.get("vd")}
            used = {x.get("d") for x in walk(r) if x.get("k") == "ref"}
            ok = bool(cursor & used) and not any(x.get("k") == "call" and callee_short(x) in ("front", "back", "at", "operator[]") for x in walk(r))
    ctx.ob("R05.4", "make_wrapper_entry|parameter-name", ok, fe.loc(nm[0]) if nm else fe.loc(), "each recorded parameter takes its name from the same element of _parameters")


def _virtual_inference(ctx):
    """R05.5: the `virtual` role of an override written without the keyword is inferred by
    CPPStructType::get_virtual_funcs(), which sets SC_virtual on the overriding member as a side effect.  The builder
    reads SC_virtual when it records the method, so the inference must already have run for the class on every path."""
    db = ctx.db
    ctx.rule("R05.5", "in define_struct_type, every call that can record a method (reaches get_function, which copies SC_virtual into F_virtual) is dominated by a call that runs CPPStructType::get_virtual_funcs on the class (the only place SC_virtual is inferred for keyword-less overrides)")
    gvf = db.fns("CPPStructType::get_virtual_funcs")
    gf = [f for f in db.fns("InterrogateBuilder::get_function")]
    if not gvf or not gf:
        ctx.broken("get_virtual_funcs / get_function not found")
    # get_function reads SC_virtual: confirm, else the rule's premise is gone
    reads = any(x.get("k") == "ref" and x.get("n", "").endswith("SC_virtual") for f in gf for x in f.walk())
    writes = any(x.get("k") == "bin" and x.get("op") == "|=" and any(y.get("k") == "ref" and y.get("n", "").endswith("SC_virtual") for y in walk(x["y"])) for f in gvf for x in f.walk())
    if not reads or not writes:
        ctx.broken("premise of R05.5 changed: get_function no longer reads SC_virtual (%s) or get_virtual_funcs no longer sets it (%s)" % (reads, writes))
    cg = db.callgraph
    rev = {}
    for k, outs in cg.items():
        for o in outs:
            rev.setdefault(o, set()).add(k)

    def reaching(targets, stop=()):
        seen = set()
        stack = [t.key for t in targets]
        while stack:
            k = stack.pop()
            if k in seen or k in stop:
                continue
            seen.add(k)
            stack.extend(rev.get(k, ()))
        return seen
    infer = reaching(gvf)
    # recording *this* class's members: paths that re-enter define_struct_type record another class, which runs its own
    # inference; a synthesised cast function is not a member
    dst = {f.key for f in db.fns("InterrogateBuilder::define_struct_type")} | {f.key for f in db.fns("InterrogateBuilder::get_cast_function")}
    record = reaching(gf, stop=dst)
    by_ns = {}
    for f in db.functions:
        by_ns.setdefault(f.name + "|" + f.sig, []).append(f.key)
    fd = db.fn("InterrogateBuilder::define_struct_type")
    cfg = fd.cfg
    struct_param = [p for p in fd.params if "CPPStructType" in p["t"]][0]["d"]
    inf_blocks, sinks = set(), []
    for c in fd.walk():
        if c.get("k") != "call" or "f" not in c:
            continue
        keys = by_ns.get(c["f"] + "|" + c.get("s", ""), [])
        if any(k in infer for k in keys) and "this" in c and (local_ref(c["this"]) or {}).get("d") == struct_param:
            loc = cfg.locate(c)
            if loc is not None:
                # only an unconditional evaluation counts: not the right operand of && / ||, not a ?: branch
                par_conditional = any(a.get("k") == "cond" or (a.get("k") == "bin" and a.get("op") in ("&&", "||") and not any(x is c for x in walk(a["x"]))) for a in fd.ancestors(c) if a.get("k") in ("cond", "bin"))
                if not par_conditional:
                    inf_blocks.add(loc[0])
        if any(k in record for k in keys) and c["f"] != "InterrogateBuilder::define_struct_type":
            sinks.append(c)
    n_sink = [0]
    reach = cfg.reachable(cut_blocks=inf_blocks)
    seen = set()
    for c in sinks:
        nm = callee_short(c)
        loc = cfg.locate(c)
        ok = loc is None or loc[0] not in reach
        key = "define_struct_type|%s" % nm
        if key in seen and ok:
            continue
        seen.add(key)
        n_sink[0] += 1
        ctx.ob("R05.5", key, ok, fd.loc(c), "%s() is %sdominated by the virtual-function inference on the class" % (nm, "" if ok else "NOT "))
    ctx.floor("R05.5", "method-recording calls in define_struct_type", n_sink[0], 2)


def _default_base_access(ctx):
    """R05.6: [class.access.base]/2 - without an access specifier a base is public when the class being defined uses the
    class-key struct and private when it uses class.  Which bases are `accessible` (R05.4, R10.1's B clauses, the
    builder's inherited-method export) all read Base::_vis as append_derivation stored it."""
    from . import gates as G
    db = ctx.db
    ctx.rule("R05.6", "append_derivation gives an unspecified base access V_private iff the DERIVING class's own _type is T_class, V_public otherwise, on every path where the access was left unspecified")
    fn = db.fn("CPPStructType::append_derivation")
    pv = [p for p in fn.params if "CPPVisibility" in p["t"]]
    if not pv:
        ctx.broken("append_derivation: visibility parameter not found")
    vis = pv[0]["d"]
    asg = []
    for x in fn.walk():
        t = assigned_target(x)
        if t and (local_ref(t[0]) or {}).get("d") == vis:
            r = strip_casts(peel(t[1]))
            nm = r.get("n", "").split("::")[-1] if r is not None and r.get("k") == "ref" else None
            asg.append((x, nm))
    ctx.floor("R05.6", "default-access assignments", len(asg), 2)

    def own_key_is_class(want):
        def holds(atom, truth):
            c = G.cmp_atom(atom)
            if not c:
                return False
            op, a, b = c
            if not truth:
                op = G.NEG[op]
            for u, v in ((a, b), (b, a)):
                u = strip_casts(peel(u))
                v = strip_casts(peel(v))
                if u is None or v is None or u.get("k") != "mem" or not u.get("n", "").endswith("CPPExtensionType::_type"):
                    continue
                base = strip_casts(peel(u.get("b")))
                if base is None or base.get("k") != "this":
                    continue   # somebody else's class-key (e.g. the base's)
                if v.get("k") == "ref" and v.get("n", "").split("::")[-1] == "T_class":
                    return (op == "==") == want
                if v.get("k") == "ref" and v.get("n", "").split("::")[-1] == "T_struct":
                    return (op == "==") != want
            return False
        return holds

    def unspecified(atom, truth):
        c = G.cmp_atom(atom)
        if not c:
            return False
        op, a, b = c
        if not truth:
            op = G.NEG[op]
        for u, v in ((a, b), (b, a)):
            if (local_ref(u) or {}).get("d") == vis and v is not None and strip_casts(v).get("k") == "ref" and strip_casts(v).get("n", "").endswith("V_unknown"):
                return op == "=="
        return False
    e_unspec = G.edges_where(fn, unspecified)
    for x, nm in asg:
        if nm not in ("V_private", "V_public"):
            ctx.ob("R05.6", "append_derivation|default|other", False, fn.loc(x), "unexpected default access: %s" % show(x))
            continue
        want_class = nm == "V_private"
        ok1 = G.gated(fn, x, G.edges_where(fn, own_key_is_class(want_class)))
        ok2 = G.gated(fn, x, e_unspec)
        ctx.ob("R05.6", "append_derivation|%s|own-class-key" % nm, ok1, fn.loc(x),
               "`%s` is %sdecided by the deriving class's own class-key (this->_type %s T_class)" % (show(x), "" if ok1 else "NOT ", "==" if want_class else "!="))
        ctx.ob("R05.6", "append_derivation|%s|only-when-unspecified" % nm, ok2, fn.loc(x), "`%s` happens only when no access specifier was written" % show(x))
    # every unspecified access gets a default before the base is recorded
    pushes = [c for c in fn.walk() if c.get("k") == "call" and callee_short(c) == "push_back" and (field_of(c.get("this")) or "").endswith("_derivation")]
    if not pushes or not e_unspec:
        ctx.broken("append_derivation: push_back on _derivation or the `vis == V_unknown` test not found")
    cfg = fn.cfg
    ablocks = [cfg.locate(x)[0] for x, _ in asg if cfg.locate(x) is not None]
    reach = set()
    for (b, i) in e_unspec:
        s0 = cfg.blocks[b].succs[i]
        if s0 is not None:
            reach |= cfg.reachable(s0, cut_blocks=ablocks)
    for pcall in pushes:
        ok = cfg.locate(pcall)[0] not in reach
        ctx.ob("R05.6", "append_derivation|always-defaulted", ok, fn.loc(pcall),
               "the base is %srecorded with an unspecified access on some path" % ("never " if ok else ""))


def _by_name_keys(ctx):
    """R05.7: the builder finds an already recorded type / function / property / sequence by name.  Members of different
    classes keep separate records only if that name is the globally scoped one."""
    db = ctx.db
    ctx.rule("R05.7", "every key of InterrogateBuilder's _*_by_name tables is a globally scoped name: <decl>->get_local_name(&parser), TypeManager::get_function_name(), get_fully_scoped_name() or a literal - never a name relative to the class's own scope")
    n = 0
    for f in db.functions:
        if not f.name.startswith("InterrogateBuilder::"):
            continue
        for c in f.walk():
            if c.get("k") != "call" or callee_short(c) not in ("find", "operator[]", "count", "insert", "emplace"):
                continue
            subj = c.get("this") if "this" in c else (c["a"][0] if c.get("a") else None)
            fl = field_of(subj) or ""
            if not (fl.startswith("InterrogateBuilder::_") and fl.endswith("_by_name")):
                continue
            keyargs = c["a"][1:] if (callee_short(c) == "operator[]" and c.get("opc")) else c.get("a", [])
            if not keyargs:
                continue
            key = strip_casts(peel(keyargs[0]))
            lr = local_ref(key)
            roots = []

            def collect(e, depth=0):
                e = strip_casts(peel(e))
                if e is None or depth > 6:
                    return
                if e.get("k") == "str":
                    roots.append(("literal", e))
                    return
                if e.get("k") == "call":
                    nm = callee_short(e)
                    if nm in ("get_local_name", "get_simple_name", "get_fully_scoped_name", "get_function_name", "get_function_signature", "get_preferred_name"):
                        roots.append((nm, e))
                        return
                    if nm.startswith("operator+") or nm in ("operator+=", "basic_string"):
                        for a in e.get("a", []):
                            collect(a, depth + 1)
                        return
                if e.get("k") == "ctor":
                    for a in e.get("a", []):
                        if a.get("k") != "defarg":
                            collect(a, depth + 1)
                    return
                r = local_ref(e)
                if r is not None and r.get("dk") == "local":
                    for st in f.walk():
                        if st.get("k") == "decls":
                            for d in st["d"]:
                                if d.get("d") == r["d"] and d.get("init") is not None:
                                    collect(d["init"], depth + 1)
                    return
                roots.append(("other", e))
            collect(key)
            if not roots:
                continue
            n += 1
            bad = []
            for kind, e in roots:
                if kind in ("literal", "get_function_name", "get_function_signature", "get_fully_scoped_name"):
                    continue
                if kind == "get_local_name":
                    a = [x for x in e.get("a", []) if x.get("k") != "defarg"]
                    a0 = strip_casts(peel(a[0])) if a else None
                    if a0 is not None and a0.get("k") == "un" and a0.get("op") == "&" and (strip_casts(peel(a0["e"])) or {}).get("n") == "parser":
                        continue
                    bad.append("get_local_name(%s)" % (show(a0) if a0 is not None else ""))
                elif kind == "other":
                    continue       # parameters etc.: judged at the caller's site
                else:
                    bad.append(kind + "()")
            ctx.ob("R05.7", "%s|%s|key" % (f.name, fl.split("::")[-1]), not bad, f.loc(c),
                   "%s is keyed by %s" % (fl.split("::")[-1], "a globally scoped name" if not bad else "%s: members of different classes share it" % ", ".join(bad)))
    ctx.floor("R05.7", "by-name table accesses with a traceable key", n, 8)


def _base_specifiers(ctx):
    """R05.8: what the grammar hands to append_derivation() for `: [virtual] [access] Base`: the access named by the
    keyword (V_unknown when none is written - R05.6 then applies the class-key default) and is_virtual exactly when the
    production contains KW_VIRTUAL; and every combination of {virtual, no virtual} x {public, protected, private, none}
    in either keyword order has an alternative."""
    from .. import grammar as GR
    import re
    db = ctx.db
    ctx.rule("R05.8", "each alternative of base_specification calls append_derivation($name, <access of its keyword | V_unknown>, <true iff KW_VIRTUAL occurs>); all keyword combinations are covered")
    g = GR.Grammar(db.meta["grammar"])
    alts = g.rules.get("base_specification")
    if not alts:
        ctx.broken("grammar: base_specification not found")
    ACC = {"KW_PUBLIC": "V_public", "KW_PROTECTED": "V_protected", "KW_PRIVATE": "V_private"}
    seen = set()
    for a in alts:
        syms = [x for x in a.syms if x != "@action"]
        kws = [x for x in syms if x.startswith("KW_")]
        names = [i + 1 for i, x in enumerate(syms) if not x.startswith("KW_")]
        m = re.search(r"append_derivation\(\s*\$(\d+)\s*,\s*(V_\w+)\s*,\s*(true|false)\s*\)", a.action or "")
        site = "src/cppparser/cppBison.yxx:%d" % a.line
        inst = "base_specification|%s" % ("_".join(kws) or "plain")
        if not m:
            ctx.ob("R05.8", inst, False, site, "action does not call append_derivation($n, V_x, bool): %s" % (a.action or "").strip()[:60])
            continue
        want_acc = next((ACC[k] for k in kws if k in ACC), "V_unknown")
        want_virt = "true" if "KW_VIRTUAL" in kws else "false"
        ok = int(m.group(1)) in names and m.group(2) == want_acc and m.group(3) == want_virt
        seen.add((want_virt == "true", want_acc, tuple(kws)))
        ctx.ob("R05.8", inst, ok, site, "`%s` records (%s, virtual=%s); the keywords say (%s, virtual=%s)" % (" ".join(syms), m.group(2), m.group(3), want_acc, want_virt))
    for virt in (False, True):
        for acc in ("V_unknown", "V_public", "V_protected", "V_private"):
            have = any(v == virt and a == acc for v, a, _ in seen)
            ctx.ob("R05.8", "base_specification|covers|%s%s" % ("virtual+" if virt else "", acc), have, "src/cppparser/cppBison.yxx:%d" % alts[0].line,
                   "%s%s base is %s" % ("virtual " if virt else "", acc[2:] if acc != "V_unknown" else "unspecified-access", "accepted" if have else "a syntax error: no alternative"))
    # cross-check with the compiled parser: the same number of append_derivation calls
    calls = sum(1 for f in db.functions if f.file.endswith("cppBison.cxx") for c in f.walk() if c.get("k") == "call" and callee_short(c) == "append_derivation")
    ctx.ob("R05.8", "base_specification|reader-agrees-with-compiler", calls == len(alts), "src/cppparser/cppBison.yxx:%d" % alts[0].line, "%d alternatives read from the grammar, %d append_derivation calls in the generated parser" % (len(alts), calls))


def _accessors_do_not_shadow_methods(ctx):
    """R05.9: a synthesised `get_<member>` / `set_<member>` and a user-written method of the same name land in the same
    database function (they are keyed by name).  If the accessor is made first, the user's method is recorded as a
    getter with the member as its expression and its wrapper never calls it.  The builder must therefore consult, before
    it synthesises, both what it has already scanned (_functions_by_name) and what the declaring scope declares
    (CPPScope::_functions) - the latter is complete after parsing whatever the declaration order.  (F-C05b.)"""
    db = ctx.db
    ctx.rule("R05.9", "get_getter()/get_setter() reach get_function() only when neither _functions_by_name nor the declaring scope's _functions holds the accessor's name")
    n = 0
    for short in ("get_getter", "get_setter"):
        f = db.fn("InterrogateBuilder::" + short)
        sinks = [c for c in f.walk() if c.get("k") == "call" and c.get("f") == "InterrogateBuilder::get_function"]
        if not sinks:
            ctx.broken("R05.9: %s no longer calls get_function()" % short)

        def absent_in(suffix):
            def holds(atom, truth):
                c = G.cmp_atom(atom)
                if not c:
                    return False
                op, u, v = c
                if not truth:
                    op = G.NEG[op]
                for p, q in ((u, v), (v, u)):
                    pp = strip_casts(peel(p)) if p is not None else None
                    if pp is not None and pp.get("k") == "call" and callee_short(pp) in ("count", "find") and "this" in pp \
                            and (field_of(strip_casts(peel(pp["this"]))) or "").endswith(suffix):
                        if callee_short(pp) == "count":
                            return q is not None and const_int(q) == 0 and op == "=="
                        return (strip_casts(peel(q)) or {}).get("k") == "call" and callee_short(strip_casts(peel(q))) == "end" and op == "=="
                return False
            return holds
        for suffix, what in (("InterrogateBuilder::_functions_by_name", "already-scanned"), ("CPPScope::_functions", "declared-in-scope")):
            pred = absent_in(suffix)
            if suffix.startswith("CPPScope::"):
                # no declaring scope at all: nothing is declared in it
                sp = [p for p in f.params if p["t"].replace(" ", "") == "CPPScope*"]
                if sp:
                    pred = G.any_of(pred, G.local_is_null(sp[0]["d"]))
            edges = G.edges_where(f, pred)
            for s in sinks:
                n += 1
                ok = bool(edges) and G.gated(f, s, edges)
                ctx.ob("R05.9", "%s|synthesis|only-if-name-not-%s" % (short, what), ok, f.loc(s),
                       "get_function() for the synthesised accessor is %sbehind `%s` not holding the name" % ("" if ok else "NOT ", suffix.split("::")[-1]))
    ctx.floor("R05.9", "name-collision obligations of the accessor synthesis", n, 4)


def _strip_comments(t):
    t = re.sub(r"/\*.*?\*/", " ", t, flags=re.S)
    t = re.sub(r"//[^\n]*", " ", t)
    t = re.sub(r'"(?:\\.|[^"\\])*"', '""', t)
    return t


def _assigns_on_all_paths(text):
    """True iff every path through the C++ action text executes `$$ = ...` (if / else-if / else with braces; a chain
    without a final else has a path that skips it)."""
    i = 0
    n = len(text)

    def skip_ws(j):
        while j < n and text[j].isspace():
            j += 1
        return j

    def match(j, open_c, close_c):
        depth = 0
        while j < n:
            if text[j] == open_c:
                depth += 1
            elif text[j] == close_c:
                depth -= 1
                if depth == 0:
                    return j
            j += 1
        return n - 1

    def block(j, end):
        """does the statement sequence text[j:end] assign on all paths?"""
        while j < end:
            j = skip_ws(j)
            if j >= end:
                break
            m = re.match(r"if\s*\(", text[j:end])
            if m:
                branches = []
                has_else = False
                while True:
                    p = text.index("(", j)
                    q = match(p, "(", ")")
                    k = skip_ws(q + 1)
                    if k < end and text[k] == "{":
                        e = match(k, "{", "}")
                        branches.append(block(k + 1, e))
                        j = e + 1
                    else:
                        e = text.find(";", k, end)
                        e = end - 1 if e < 0 else e
                        branches.append(bool(re.search(r"\$\$\s*=[^=]", text[k:e + 1])))
                        j = e + 1
                    k = skip_ws(j)
                    m2 = re.match(r"else\s+if\s*\(", text[k:end])
                    if m2:
                        j = k + text[k:end].index("if")
                        continue
                    m3 = re.match(r"else\b", text[k:end])
                    if m3:
                        k2 = skip_ws(k + 4)
                        if k2 < end and text[k2] == "{":
                            e = match(k2, "{", "}")
                            branches.append(block(k2 + 1, e))
                            j = e + 1
                        else:
                            e = text.find(";", k2, end)
                            e = end - 1 if e < 0 else e
                            branches.append(bool(re.search(r"\$\$\s*=[^=]", text[k2:e + 1])))
                            j = e + 1
                        has_else = True
                    break
                if has_else and all(branches):
                    return True
                continue
            if text[j] == "{":
                e = match(j, "{", "}")
                if block(j + 1, e):
                    return True
                j = e + 1
                continue
            e = text.find(";", j, end)
            e = end - 1 if e < 0 else e
            stmt = text[j:e + 1]
            # a nested brace (for/while/switch body) inside the statement: treat its content as conditional
            if "{" in stmt:
                b = j + stmt.index("{")
                e = match(b, "{", "}")
                j = e + 1
                continue
            if re.search(r"\$\$\s*=[^=]", stmt):
                return True
            j = e + 1
        return False
    t = text.strip()
    if t.startswith("{") and t.endswith("}"):
        t = t[1:-1]
        text = t
        n = len(text)
    return block(0, n)


def _semantic_values_always_set(ctx):
    """R05.10: bison copies $1 into $$ before an action runs.  An action that assigns $$ only on some paths therefore
    hands on $1 on the others - fine for `function_post: function_post KW_NOEXCEPT_LPAREN ...` (the flags collected so
    far), garbage when $1 is a keyword token: `explicit(false) constexpr A(int);` took its storage-class bits from the
    semantic value of the `explicit(` token.  (F-C05c; storage class feeds the static / explicit / deleted / virtual
    roles recorded in the database.)"""
    db = ctx.db
    ctx.rule("R05.10", "a grammar action that assigns $$ at all assigns it on every path, unless the alternative's first symbol is the rule's own nonterminal (bison's default $$ = $1 then carries the accumulated value)")
    g = GR.Grammar(db.meta["grammar"])
    n = 0
    for nt, alts in g.rules.items():
        for a in alts:
            act = _strip_comments(a.action or "")
            if not re.search(r"\$\$\s*=[^=]", act):
                continue
            n += 1
            syms = [x for x in a.syms if x != "@action"]
            total = _assigns_on_all_paths(act)
            ok = total or (syms and syms[0] == nt)
            ctx.ob("R05.10", "%s|%s|value-set-on-every-path" % (nt, "_".join(syms)[:60]), ok, "src/cppparser/cppBison.yxx:%d" % a.line,
                   "assigns $$ on every path" if total else ("leaves $$ = $1 on some path; $1 is %s" % (("the accumulated " + nt) if ok else ("`%s`, not a %s" % (syms[0] if syms else "?", nt)))))
    ctx.floor("R05.10", "actions that assign a semantic value", n, 400)


def _folded_into_the_base_only_without_adjustment(ctx):
    """R05.11: define_method() leaves an overriding virtual method out of a class's record ("already inherited"), and marks
    the destructor F_inherited_destructor, so that clients call the base class's wrapper with the derived object.  That
    is only truthful when a Derived* IS a Base* without adjustment and the relation is public and unique - the very
    condition under which define_struct_type() records the derivation without an upcast function: one base, public,
    not virtual.  (Seed S8-C05: the `!_is_virtual` conjunct dropped; `struct S : virtual public B` lost its overrides
    and its destructor was recorded as B's.)"""
    db = ctx.db
    ctx.rule("R05.11", "in define_method, marking F_inherited_destructor and returning on is_inherited_published() happen only where SC_inherited_virtual is set, _derivation.size() == 1, _derivation[0]._vis <= V_public and _derivation[0]._is_virtual is false")
    fs = [g for g in db.functions if g.name == "InterrogateBuilder::define_method" and
          any(z.get("k") == "ref" and (z.get("n") or "").endswith("F_inherited_destructor") for z in g.walk())]
    if not fs:
        ctx.broken("R05.11: InterrogateBuilder::define_method not found")
        return
    f = fs[0]

    def size_is_one(atom, truth):
        ca = G.cmp_atom(atom)
        if not ca:
            return False
        op, x, y = ca
        op = op if truth else G.NEG[op]
        for a, b in ((x, y), (y, x)):
            a = strip_casts(peel(a)) if a is not None else None
            if a is not None and a.get("k") == "call" and callee_short(a) == "size" and (field_of(strip_casts(peel(a.get("this")))) or "").endswith("::_derivation") and const_int(b) == 1:
                return op == "=="
        return False

    def not_virtual(atom, truth):
        return (not truth) and (field_of(strip_casts(peel(atom))) or "").endswith("::_is_virtual")

    def inherited_virtual(atom, truth):
        a = strip_casts(peel(atom))
        ca = G.cmp_atom(a) if a is not None and a.get("k") == "bin" and a.get("op") in ("==", "!=") else None
        want_set = truth
        if ca:
            op, x, y = ca
            if const_int(y) != 0:
                return False
            if op == "==":
                want_set = not want_set
            a = strip_casts(peel(x))
        if a is None or a.get("k") != "bin" or a.get("op") != "&":
            return False
        names = [(strip_casts(peel(z)) or {}).get("n", "") for z in (a["x"], a["y"])]
        return want_set and any(n.endswith("SC_inherited_virtual") for n in names)
    facts = [("SC_inherited_virtual set", G.edges_where(f, inherited_virtual)), ("_derivation.size() == 1", G.edges_where(f, size_is_one)),
             ("_derivation[0]._vis <= V_public", G.edges_where(f, G.vis_le("V_public"))), ("!_derivation[0]._is_virtual", G.edges_where(f, not_virtual))]
    sinks = []
    for y in f.walk():
        if y.get("k") == "bin" and y.get("op") in ("|=", "=") and any(z.get("k") == "ref" and (z.get("n") or "").endswith("F_inherited_destructor") for z in walk(y.get("y") or {})):
            sinks.append(("marks F_inherited_destructor", y))
    pub = G.edges_where(f, lambda atom, truth: truth and (strip_casts(peel(atom)) or {}).get("k") == "call" and callee_short(strip_casts(peel(atom))) == "is_inherited_published")
    for r in f.walk():
        if r.get("k") == "ret" and pub and G.gated(f, r, pub):
            sinks.append(("returns because the base's declaration is published", r))
    for what, y in sinks:
        missing = [name for name, edges in facts if not (edges and G.gated(f, y, edges))]
        ctx.ob("R05.11", "define_method|%s|sole-public-nonvirtual-base" % what.split(" because")[0].replace(" ", "-"), not missing, f.loc(y),
               "%s only for a sole, public, non-virtual base" % what if not missing else "%s without: %s" % (what, ", ".join(missing)))
    ctx.floor("R05.11", "places where define_method folds a member into the base class", len(sinks), 2)


def _signature_keys_keep_reference_constness(ctx):
    """R05.12: InterrogateFunction::_instances is keyed by TypeManager::get_function_signature(); two overloads with the same
    key are ONE variant for the database - the second is dropped without a word and its comment lands on the first.
    The key may identify `f(const T &)` with `f(T)` (C++ cannot tell the calls apart) but not `f(T &)` with them: the
    parameter is replaced by unwrap_const_reference() - which strips ANY reference - only where is_const_ref_to_anything()
    said it is a const one.  (Seed S9-C05: the guard removed as "any other type comes back unchanged".)"""
    db = ctx.db
    ctx.rule("R05.12", "in TypeManager::get_function_signature, unwrap_const_reference(p) is applied only behind is_const_ref_to_anything(p) for the same p")
    fs = [g for g in db.functions if g.name == "TypeManager::get_function_signature"]
    if not fs:
        ctx.broken("R05.12: TypeManager::get_function_signature not found")
        return
    n = 0
    for f in fs:
        for c in f.walk():
            if not (c.get("k") == "call" and callee_short(c) == "unwrap_const_reference" and c.get("a")):
                continue
            n += 1
            r = local_ref(c["a"][0])
            ok = False
            if r is not None:
                e = G.edges_where(f, lambda atom, truth, d=r["d"]: truth and (strip_casts(peel(atom)) or {}).get("k") == "call" and
                                  callee_short(strip_casts(peel(atom))) == "is_const_ref_to_anything" and strip_casts(peel(atom)).get("a") and
                                  (local_ref(strip_casts(peel(atom))["a"][0]) or {}).get("d") == d)
                ok = bool(e) and G.gated(f, c, e)
            ctx.ob("R05.12", "get_function_signature|unwrap_const_reference(%s)|only-const-references" % (r or {}).get("n", "?"), ok, f.loc(c),
                   "only a const reference is replaced by its target in the signature key" if ok else
                   "every reference is stripped from the key: f(T &) and f(const T &) become one variant")
    ctx.floor("R05.12", "unwrap_const_reference in get_function_signature", n, 1)


def _operator_names_are_spelled_as_the_grammar_spells_them(ctx):
    """R05.14: operator roles (unary, assignment, comparison, call, index ...) are decided by comparing a function's name
    with string literals.  The names are made in one place, the grammar: "operator " + the text a function_operator
    action assigns (`operator ()`, `operator []`, `operator <=>` ...).  A literal that is compared with a name - operand of
    ==, !=, compare() or a by-name find() - and begins with "operator" must be such a name or a prefix of one; any other
    spelling never matches and the branch it guards is dead.  (Seed S12-C05: add_func_modifier's exclusion list spelled
    "operator()"; a nullary call operator was recorded as a unary operator, apart from its overloads.)"""
    db = ctx.db
    ctx.rule("R05.14", "every operator-name literal compared with a function name is a name (or a prefix of a name) the grammar produces")
    yys = [g for g in db.functions if g.name.endswith("cppyyparse")]
    if not yys:
        ctx.broken("R05.14: generated parser not found")
        return
    yy = yys[0]
    bc = db.meta.get("bison_cases", {})
    ops = set()
    for cs in yy.walk():
        if cs.get("k") == "case" and (bc.get(cs.get("v")) or ("",))[0] == "function_operator":
            for y in walk(cs.get("sub") or {}):
                if y.get("k") == "str" and y.get("v"):
                    ops.add(y["v"])
    names = {"operator " + o for o in ops} | {"operator typecast", 'operator "" '}
    if len(ops) < 30:
        ctx.broken("R05.14: only %d function_operator spellings found in the generated parser" % len(ops))
        return
    n = 0
    for f in db.functions:
        if f is yy or not ("/cppparser/" in f.file or "/interrogate/" in f.file):
            continue
        for y in f.walk():
            if y.get("k") != "str" or not (y.get("v") or "").startswith("operator"):
                continue
            how = None
            for a in list(f.ancestors(y))[:4]:
                if a.get("k") == "call":
                    fn = a.get("f") or ""
                    if fn in ("std::operator==", "std::operator!=", "std::basic_string::compare") or fn.endswith("::find") or fn.endswith("::count"):
                        how = fn
                    break
                if a.get("k") not in ("ctor", "cast", "temp", "bind"):
                    break
            if how is None:
                continue
            n += 1
            v = y["v"]
            ok = any(nm.startswith(v) for nm in names) or v.startswith("operator typecast ") or v.startswith('operator "" ')
            ctx.ob("R05.14", "%s|\"%s\"@%s|a-spelling-the-grammar-produces" % (f.name, v, f.loc(y).split(":")[-1]), ok, f.loc(y),
                   "compared via %s" % how if ok else "\"%s\" is no name the grammar makes (it writes \"operator \" + one of %d spellings): this comparison never matches" % (v, len(ops)))
    ctx.floor("R05.14", "operator-name literals in comparisons", n, 60)
