"""C14 — output is a pure function of the inputs (reproducible builds).

Decided (an effect analysis): which sources of run-to-run variation exist in
the three tools and whether they can reach the output.
  R14.1 clock/random/pid: only time(nullptr) in interrogate's main, on the
        path where SOURCE_DATE_EPOCH is unset, flowing only to file_identifier.
  R14.2 one identifier for the code and the database of a run.
  R14.3 getenv only with the literal name SOURCE_DATE_EPOCH.
  R14.4 no locale is ever installed (the C/C++ locales stay "C").
  R14.5 addresses: (a) no pointer is printed into an output; (b) no
        pointer-keyed unordered container is iterated; (c) every traversal of
        an address-ordered container (std::set<T*>, std::map<T*,…> with the
        default comparator) is order-insensitive, or re-sorted by a total
        address-free comparator, or listed as a finding.
Not decided: byte identity itself.
"""
import json
import os
import re

from ..facts import peel, strip_casts, show, walk, cond_atom
from .common import (base_of, callee_short, field_of, assigned_target, const_int, local_ref, enclosing_loops, loop_container, resolve_typedef)
from . import gates as G

LEVEL = "other"
EXPLANATION = ("Effect analysis over the call-graph closure of the three main()s: clock/random/pid/env/locale sources and their flow, "
               "printed addresses, and a classification of every traversal of an address-ordered container as order-insensitive or "
               "order-reaching-output.")
TRUSTED = ["clang 14 AST/CFG/call graph", "std::map/std::set iterate in comparator order", "libc getopt's own POSIXLY_CORRECT lookup is outside the analysed source"]
ASSUMPTIONS = ["functions not reachable from a main() cannot affect its output", "a given binary hashes std::string keys identically in every run"]

CLOCKS = ("time", "clock", "gettimeofday", "clock_gettime", "rand", "random", "srand", "srandom", "getpid", "getppid", "tmpnam", "mkstemp", "mktemp",
          "localtime", "gmtime", "ctime", "getuid", "gethostname", "uname", "drand48", "lrand48")
LOCALE = ("setlocale", "newlocale", "uselocale", "std::locale::global", "std::ios_base::imbue", "std::basic_ios::imbue", "std::setlocale")
ENV = ("getenv", "secure_getenv", "std::getenv")
# pointer printers that may stay, with the reason
PTR_PRINT_OK = {"CPPExpression::Result::output": "prints an evaluation result in a diagnostic / parse_file's interactive mode, never into -oc/-od/-oh"}


def _split_targs(inner):
    depth, parts, cur = 0, [], ""
    for ch in inner:
        if ch == "<":
            depth += 1
        if ch == ">":
            depth -= 1
        if ch == "," and depth == 0:
            parts.append(cur.strip())
            cur = ""
        else:
            cur += ch
    parts.append(cur.strip())
    return parts


IDENTITY_COMPARATORS = {"CPPTypeCompare"}


def container_kind(ct):
    """('ordered-by-address' | 'unordered-ptr' | None) for a canonical type spelling."""
    t = (ct or "").replace("const ", "").strip().rstrip("&").strip()
    m = re.match(r"std::(set|multiset|map|multimap|unordered_set|unordered_map|unordered_multiset|unordered_multimap)<(.*)>$", t)
    if not m:
        return None
    kind, inner = m.group(1), m.group(2)
    parts = _split_targs(inner)
    key = parts[0]
    if not key.endswith("*"):
        return None
    if kind.startswith("unordered"):
        return "unordered-ptr"
    ncmp = 2 if kind in ("set", "multiset") else 3
    if len(parts) >= ncmp:
        # CPPTypeCompare orders by CPPDeclaration::operator<, whose is_less() is pointer identity for struct, enum and
        # other named types (R06.1 lists them): distinct classes come out in address order
        if parts[ncmp - 1].strip() in IDENTITY_COMPARATORS:
            return "ordered-by-address"
        return None       # custom comparator
    return "ordered-by-address"


class Typer:
    """Canonical container type of an expression (locals, params, members, map[] results)."""
    def __init__(self, db, fn):
        self.db = db
        self.lt = {}
        for n in fn.walk():
            if n.get("k") == "decls":
                for d in n["d"]:
                    self.lt[d["d"]] = d.get("ct", "")
            if n.get("k") == "forrange" and "vd" in n:
                self.lt[n["vd"]] = n.get("vt", "")
        for p in fn.params:
            self.lt[p["d"]] = p["t"]

    def canon(self, t):
        t = (t or "").strip()
        if "std::" in t and "::" not in t.replace("std::", "").split("<")[0]:
            return t
        r = resolve_typedef(self.db, t)
        if r != t:
            td = self.db.typedefs.get(t.replace("const ", "").replace("&", "").strip())
            if td:
                return td.get("ct", r)
        return r

    def of(self, n):
        n = peel(n)
        if n is None:
            return ""
        if n.get("k") == "ref" and n.get("d") in self.lt:
            return self.canon(self.lt[n["d"]])
        if n.get("k") == "mem":
            rec = self.db.records.get(n["n"].rsplit("::", 1)[0])
            if rec:
                for f in rec["fields"]:
                    if f["n"] == n["n"].split("::")[-1]:
                        return f.get("ct", "")
            return self.canon(n.get("t", ""))
        if n.get("k") == "call" and callee_short(n) == "operator[]" and n.get("a"):
            t = self.of(n["a"][0])
            m = re.match(r"(?:const )?std::(?:map|unordered_map)<(.*)>\s*&?$", t)
            if m:
                parts = _split_targs(m.group(1))
                if len(parts) >= 2:
                    return parts[1]
        if n.get("k") == "mem" or n.get("k") == "call":
            return n.get("t", "")
        if n.get("k") == "un" and n.get("op") == "*":
            return self.of(n["e"]).rstrip("*").strip()
        return ""


def writes_output(db, node, depth=0):
    """Does the subtree contain a stream insertion, a call receiving an ostream, or an append to a sequence?"""
    for x in walk(node):
        if x.get("k") == "call":
            f = x.get("f", "")
            short = callee_short(x)
            if short == "operator<<" and x.get("opc"):
                return "writes to a stream: %s" % show(x)[:60]
            if short in ("push_back", "emplace_back", "append", "operator+=", "insert") and "this" in x:
                tt = (x["this"].get("t") or "")
                if short == "insert":
                    # insert into an associative container does not record order; into a vector/string it does
                    a = x.get("a", [])
                    if len(a) >= 2:
                        return "inserts a range/position into a sequence: %s" % show(x)[:60]
                    continue
                return "appends to a sequence: %s" % show(x)[:60]
            if short == "operator+=" and x.get("opc"):
                return "appends to a string: %s" % show(x)[:60]
            sig = x.get("s", "")
            if "ostream" in sig or "ostringstream" in sig:
                return "passes a stream to %s" % f
            if f and not f.startswith("std::") and not x.get("opc") and short not in (
                    "get_simple_name", "get_local_name", "size", "empty", "count", "find", "begin", "end", "is_const", "get_orig_type", "get_new_type"):
                # a repository function that receives the element: conservatively order-sensitive unless it is a pure accessor
                fns = db.fns(f)
                if fns and depth < 2:
                    for g in fns:
                        if g.body is not None:
                            w = writes_output(db, g.body, depth + 1)
                            if w:
                                return "calls %s, which %s" % (f, w)
    return None


def run(ctx):
    db = ctx.db
    ctx.rule("R14.1", "clock/random/pid calls reachable from a main(): only time() in interrogate's main on the path where SOURCE_DATE_EPOCH is unset, its value flowing only into file_identifier")
    ctx.rule("R14.2", "file_identifier -> make_module_def -> the one def passed to both write_code and InterrogateDatabase::write")
    ctx.rule("R14.3", "getenv reachable from a main() only with the literal name SOURCE_DATE_EPOCH")
    ctx.rule("R14.4", "no locale is installed in any function reachable from a main()")
    ctx.rule("R14.6", "every scalar data member (integer, enum, bool, floating, pointer) of a class of the parser, the generators or the database is given a value on every path through every constructor (mem-initialiser, default member initialiser, or assignments that cover all paths): no output can depend on indeterminate memory")
    ctx.rule("R14.7", "the constant evaluator never turns the address of a parser object into a value: CPPExpression::Result(void *) is constructed only from nullptr or from another result's as_pointer(); as_integer() of such a value would record (part of) a heap address")
    ctx.rule("R14.5a", "no pointer value is printed by a function that can write an output file")
    ctx.rule("R14.5b", "no unordered container keyed by a pointer is iterated")
    ctx.rule("R14.5c", "every traversal of an address-ordered container is order-insensitive or re-sorted by a total address-free comparator")
    ctx.rule("R14.5d", "comparators given to std::sort over ranges built from address-ordered containers are total")

    mains = [f for f in db.functions if f.name == "main"]
    if len(mains) != 3:
        ctx.broken("expected three main() functions, found %d" % len(mains))
    clos = db.closure(mains)
    bk = db.by_key()
    ctx.extra["closure_functions"] = len(clos)
    ctx.floor("R14.1", "functions reachable from the mains", len(clos), 1200)

    imain = db.fn("main", file_contains="/interrogate/interrogate.cxx")
    n_time = 0
    for k in sorted(clos):
        f = bk[k]
        for c in f.walk():
            if c.get("k") != "call":
                continue
            fn_ = c.get("f", "")
            if fn_ in CLOCKS or "chrono" in fn_ or "random_device" in fn_ or "mt19937" in fn_:
                n_time += 1
                ok = f is imain and fn_ == "time"
                why = "allowed only in interrogate's main"
                if ok:
                    # on the path where SOURCE_DATE_EPOCH is unset/empty
                    env_vars = set()
                    for n in f.walk():
                        if n.get("k") == "decls":
                            for d in n["d"]:
                                i = strip_casts(d.get("init")) if d.get("init") else None
                                if i is not None and i.get("k") == "call" and i.get("f") in ENV and any(x.get("k") == "str" and x.get("v") == "SOURCE_DATE_EPOCH" for x in walk(i)):
                                    env_vars.add(d["d"])

                    def epoch_unset(atom, truth):
                        cc = G.cmp_atom(atom)
                        if not cc:
                            return False
                        op, a, b = cc
                        o = op if truth else G.NEG[op]
                        for x, y in ((a, b), (b, a)):
                            r = local_ref(x)
                            if r is not None and r.get("d") in env_vars and y is not None and y.get("k") == "nullp":
                                return o == "=="
                            # source_date_epoch[0] == 0
                            if x is not None and x.get("k") == "idx" and (local_ref(x["b"]) or {}).get("d") in env_vars and const_int(y) == 0:
                                return o == "=="
                        return False
                    ok = bool(env_vars) and G.gated(f, c, G.edges_where(f, epoch_unset))
                    why = "time() is reached only when SOURCE_DATE_EPOCH is unset or empty" if ok else "time() can be reached although SOURCE_DATE_EPOCH is set"
                    # flows only to file_identifier
                    par = next(f.ancestors(c), None)
                    t = assigned_target(par) if par is not None else None
                    tgt = local_ref(t[0]) if t else None
                    ok2 = tgt is not None
                    ctx.ob("R14.1", "interrogate.cxx::main|time|flows-to-identifier-only", ok2, f.loc(c), "time() is assigned to %s" % (tgt["n"] if tgt else "?"))
                    if tgt is not None:
                        uses = [x for x in f.walk() if x.get("k") == "ref" and x.get("d") == tgt["d"]]
                        consumers = set()
                        for u in uses:
                            p = next(f.ancestors(u), None)
                            while p is not None and p.get("k") in ("cast",):
                                p = next(f.ancestors(p), None)
                            if p is not None and p.get("k") == "call":
                                consumers.add(p.get("f"))
                            elif p is not None and assigned_target(p) and peel(assigned_target(p)[0]) is u:
                                pass
                            elif p is not None and p.get("k") == "bin" and p.get("op") == "=":
                                pass
                            else:
                                consumers.add("<%s>" % (p.get("k") if p else "?"))
                        ctx.ob("R14.2", "interrogate.cxx::main|identifier-consumers", consumers == {"InterrogateBuilder::make_module_def"}, f.loc(c),
                               "file_identifier is used by %s" % sorted(consumers))
                ctx.ob("R14.1", "%s|%s" % (f.name if f is not imain else "interrogate.cxx::main", fn_), ok, f.loc(c), why)
            if fn_ in ENV:
                lits = [x.get("v") for x in walk(c) if x.get("k") == "str"]
                ok = lits == ["SOURCE_DATE_EPOCH"]
                ctx.ob("R14.3", "%s|getenv|%s" % (f.name if f is not imain else "interrogate.cxx::main", lits[0] if lits else "non-literal"), ok, f.loc(c),
                       "getenv(%s) reachable from a main()" % (lits if lits else show(c)))
            if fn_ in LOCALE or fn_.endswith("::imbue"):
                ctx.ob("R14.4", "%s|%s" % (f.name, fn_), False, f.loc(c), "installs a locale: %s" % show(c)[:80])
            if fn_ == "std::basic_ostream::operator<<" and "void *" in c.get("s", "").split("(", 1)[-1]:
                ok = f.name in PTR_PRINT_OK
                ctx.ob("R14.5a", "%s|prints-pointer" % f.name, ok, f.loc(c), "prints the address %s: %s" % (show(c["a"][1]) if len(c.get("a", [])) > 1 else "", PTR_PRINT_OK.get(f.name, "NOT a frozen diagnostic printer")))
            if fn_ in ("printf", "fprintf", "sprintf", "snprintf"):
                if any("%p" in (x.get("v") or "") for x in walk(c) if x.get("k") == "str"):
                    ctx.ob("R14.5a", "%s|printf-%%p" % f.name, False, f.loc(c), "prints an address with %p")
    ctx.floor("R14.1", "clock calls in the closure", n_time, 1)
    ctx.ob("R14.4", "no-locale-installed", True, "closure of the three mains", "%d reachable functions scanned for setlocale/imbue/locale::global" % len(clos))
    # R14.2: one def for both writers
    defs = [n for n in imain.walk() if n.get("k") == "decls" and any("init" in d and any(c.get("k") == "call" and c.get("f") == "InterrogateBuilder::make_module_def" for c in walk(d["init"])) for d in n["d"])]
    ok = False
    if len(defs) == 1:
        dd = defs[0]["d"][0]["d"]
        wc = [c for c in imain.walk() if c.get("k") == "call" and c.get("f") in ("InterrogateBuilder::write_code", "InterrogateDatabase::write")]
        ok = len(wc) == 2 and all(any((local_ref(a) or {}).get("d") == dd for a in c.get("a", [])) for c in wc)
    ctx.ob("R14.2", "interrogate.cxx::main|one-module-def", ok, imain.loc(defs[0]) if defs else imain.loc(), "the module def made from file_identifier is the one passed to write_code() and to InterrogateDatabase::write()")
    wr = db.fn("InterrogateDatabase::write")
    ok = any(n.get("k") == "mem" and n["n"].endswith("InterrogateModuleDef::file_identifier") for n in wr.walk())
    ctx.ob("R14.2", "InterrogateDatabase::write|reads-def-identifier", ok, wr.loc(), "the database header carries def->file_identifier")

    # ------------------------------------------------------------ R14.5 b, c, d
    spec_path = os.path.join(os.path.dirname(os.path.dirname(__file__)), "spec", "address_order_sites.json")
    spec = json.load(open(spec_path))
    triaged = {(r["function"], r["container"], r["kind"]): r for r in spec["sites"]}
    n_trav = 0
    n_unordered = 0
    seen_keys = set()
    for k in sorted(clos):
        f = bk[k]
        if "bison" in f.file:
            continue
        ty = Typer(db, f)
        for n in f.walk():
            trav = None
            if n.get("k") == "forrange":
                kind = container_kind(ty.of(n["range"]))
                if kind:
                    trav = ("range-for", n["range"], kind, n)
            elif n.get("k") == "call" and "this" in n and callee_short(n) in ("begin", "rbegin", "cbegin", "crbegin"):
                obj = peel(n["this"])
                if obj is not None and obj.get("k") == "ref" and obj.get("n", "").startswith("__range"):
                    continue    # the hidden part of a range-for, judged above
                kind = container_kind(ty.of(n["this"]))
                if kind:
                    trav = ("begin()", n["this"], kind, n)
            if not trav:
                continue
            how, cont, kind, node = trav
            cs = re.sub(r"\s+", "", show(cont))
            if kind == "unordered-ptr":
                n_unordered += 1
                ctx.ob("R14.5b", "%s|%s" % (f.name, cs), False, f.loc(node), "iterates the pointer-keyed unordered container %s (hash order of addresses)" % cs)
                continue
            n_trav += 1
            inst = "%s|%s|%s" % (f.name, cs, how)
            arm = _enclosing_case(db, f, node)
            if arm:
                inst += "|" + arm
            # disambiguate repeated sites in one function by order of appearance
            i = 1
            base = inst
            while inst in seen_keys:
                i += 1
                inst = "%s#%d" % (base, i)
            seen_keys.add(inst)
            verdict, why = classify(db, f, how, cont, node)
            row = triaged.get((f.name, cs, how))
            if verdict == "insensitive":
                ctx.ob("R14.5c", inst, True, f.loc(node), "order-insensitive: " + why)
            elif row is not None and row.get("verdict") == "insensitive":
                ctx.ob("R14.5c", inst, True, f.loc(node), "order-insensitive (triaged by hand): " + row["reason"])
            else:
                ctx.ob("R14.5c", inst, False, f.loc(node), "address order of %s can reach the output: %s" % (cs, why))
    ctx.floor("R14.5c", "traversals of address-ordered containers", n_trav, 20)
    # the one pointer-keyed unordered type must exist and never be iterated (positive control for the matcher)
    ign = db.typedefs.get("CPPManifest::Ignores")
    ctx.ob("R14.5b", "CPPManifest::Ignores|is-pointer-keyed-unordered", ign is not None and container_kind(ign.get("ct")) == "unordered-ptr",
           "src/cppparser/cppManifest.h", "matcher recognises %s as a pointer-keyed unordered container; %d traversals of such containers found" % (ign.get("ct") if ign else None, n_unordered))

    # std::sort comparators
    n_sorts = 0
    for k in sorted(clos):
        f = bk[k]
        for c in f.walk():
            if c.get("k") == "call" and c.get("f") in ("std::sort", "std::stable_sort") and len(c.get("a", [])) == 3:
                cmpf = strip_casts(c["a"][2])
                if cmpf is None or cmpf.get("k") != "ref" or cmpf.get("dk") != "func":
                    continue
                n_sorts += 1
                fns = db.fns(cmpf["n"])
                if not fns:
                    continue
                g = fns[0]
                total, why = comparator_total(g)
                ctx.ob("R14.5d", "%s|std::sort|%s" % (f.name, cmpf["n"]), total, f.loc(c), "comparator %s %s" % (cmpf["n"], why))
    ctx.floor("R14.5d", "std::sort calls with a named comparator", n_sorts, 1)
    definite_initialisation(ctx)
    no_address_results(ctx)
    outputs_are_truncated(ctx)
    number_text_is_terminated(ctx)
    serialised_records_are_filled_before_use(ctx)
    no_pointer_into_a_temporary_is_kept(ctx)

def _enclosing_case(db, f, node):
    """Names of the case labels of the innermost switch arm containing node (a stable site context)."""
    from .C04 import switch_arms
    for a in f.ancestors(node):
        if a.get("k") == "switch":
            en = db.enums.get((a.get("ct") or "").replace("const ", "").strip())
            names = {c["v"]: c["n"] for c in en["consts"]} if en else {}
            for labs, stmts in switch_arms(a):
                if any(any(x is node for x in walk(st)) for st in stmts):
                    return "+".join(str(names.get(v, v)) for v in labs)
    return None


def classify(db, f, how, cont, node):
    """('insensitive'|'sensitive', reason)"""
    if how == "range-for":
        w = writes_output(db, node.get("body"))
        if w:
            return "sensitive", "the loop body " + w
        # last-wins assignments of the element to an outer variable
        vd = node.get("vd")
        for x in walk(node.get("body")):
            t = assigned_target(x)
            if t:
                r = local_ref(t[1])
                l = local_ref(t[0])
                if r is not None and r.get("d") == vd and l is not None:
                    return "sensitive", "keeps one element (`%s`): which one depends on the order" % show(x)
        return "insensitive", "the body only tests elements, sets flags or inserts into associative containers"
    # begin(): how is the iterator used?
    anc = list(f.ancestors(node))
    cs = show(cont)
    # (1) the range is copied into a vector
    vec = None
    for a in anc[:5]:
        if a.get("k") == "decls":
            for d in a["d"]:
                if "vector" in d.get("ct", "") and any(x is node for x in walk(d.get("init") or {})):
                    vec = d
        if a.get("k") == "call" and callee_short(a) in ("insert", "assign") and "this" in a and "vector" in (a.get("ot") or ""):
            r = local_ref(a["this"])
            if r is not None:
                vec = {"d": r["d"], "n": r["n"]}
    if vec is not None:
        ok, why = vector_order_lost(db, f, vec)
        return ("insensitive" if ok else "sensitive"), "copied into the vector %s, %s" % (vec["n"], why)
    # (2) std::includes / set algebra over two ranges with the same ordering
    for a in anc[:3]:
        if a.get("k") == "call" and a.get("f") in ("std::includes", "std::set_intersection", "std::set_union", "std::set_difference", "std::equal"):
            if a.get("f") == "std::includes":
                return "insensitive", "std::includes over ranges sorted by the same ordering computes set inclusion"
    # (3) first element
    first = False
    for a in anc[:3]:
        if (a.get("k") == "un" and a.get("op") == "*") or (a.get("k") == "call" and a.get("opc") and callee_short(a) == "operator*"):
            first = True
    it_var = None
    if not first:
        t = None
        for a in anc[:3]:
            t = assigned_target(a)
            if t:
                it_var = local_ref(t[0])
                break
            if a.get("k") == "decls":
                for d in a["d"]:
                    if any(x is node for x in walk(d.get("init") or {})):
                        it_var = {"d": d["d"], "n": d["n"]}
    # iterator loop: for (it = C.begin(); it != C.end(); ++it)
    lp = None
    for a in anc:
        if a.get("k") == "for" and a.get("init") is not None and any(x is node for x in walk(a["init"])):
            lp = a
            break
    if lp is not None:
        w = writes_output(db, lp.get("body"))
        if w:
            return "sensitive", "the loop body " + w
        for x in walk(lp.get("body")):
            t = assigned_target(x)
            if t and local_ref(t[0]) is not None and any((y.get("k") == "ref" and it_var and y.get("d") == it_var["d"]) for y in walk(t[1])):
                pass
        return "insensitive", "the loop only tests elements / sets flags"
    # single-element use: fine when the container is known to hold at most one element
    def at_most_one(atom, truth):
        c = G.cmp_atom(atom)
        if not c:
            return False
        op, a, b = c
        o = op if truth else G.NEG[op]
        for x, y, oo in ((a, b, o), (b, a, G.SWAP[o])):
            x = strip_casts(x)
            if x is not None and x.get("k") == "call" and callee_short(x) == "size" and "this" in x and show(peel(x["this"])) == cs:
                k = const_int(y)
                if k is not None and ((oo == "==" and k == 1) or (oo == "<=" and k <= 1) or (oo == "<" and k <= 2)):
                    return True
        return False
    if G.gated(f, node, G.edges_where(f, at_most_one)):
        return "insensitive", "reached only when %s.size() <= 1" % cs
    return "sensitive", "uses the first element in address order (which element that is depends on the heap layout when the set holds several)"


def vector_order_lost(db, f, vec):
    """After copying an address-ordered range into vector `vec`: is the order
    discarded (total address-free sort) or never observed (only passed to
    functions whose use of it is order-insensitive)?"""
    uses = [x for x in f.walk() if x.get("k") == "ref" and x.get("d") == vec["d"]]
    sorted_total = False
    for c in f.walk():
        if c.get("k") == "call" and c.get("f") in ("std::sort", "std::stable_sort") and len(c.get("a", [])) == 3:
            if any(x.get("k") == "ref" and x.get("d") == vec["d"] for x in walk(c["a"][0])):
                cmpf = strip_casts(c["a"][2])
                g = None
                if cmpf is not None and cmpf.get("k") == "ref" and cmpf.get("dk") == "func":
                    fns = db.fns(cmpf["n"])
                    g = fns[0] if fns else None
                    tot, why = comparator_total(g) if g else (False, "unknown comparator")
                elif cmpf is not None and cmpf.get("k") == "lambda":
                    tot, why = comparator_total_tree(cmpf.get("body"))
                else:
                    tot, why = False, "unrecognised comparator"
                if tot:
                    sorted_total = True
                else:
                    return False, "then sorted with a comparator that %s" % why
    if sorted_total:
        return True, "then sorted with a total, address-free comparator"
    # passed on to other functions?
    callees = []
    for c in f.walk():
        if c.get("k") == "call" and c.get("f") and not c["f"].startswith("std::"):
            for idx, a in enumerate(c.get("a", [])):
                r = local_ref(a)
                if r is not None and r.get("d") == vec["d"]:
                    callees.append((c, idx))
    other = [u for u in uses if not any(any(y is u for y in walk(c)) for c, _ in callees)]
    # the uses that are not arguments: the defining insert/ctor only
    for u in other:
        p = next(f.ancestors(u), None)
        if p is not None and p.get("k") == "call" and callee_short(p) in ("insert", "end", "begin", "reserve", "size", "empty") and (callee_short(p) != "begin"):
            continue
        if p is not None and p.get("k") == "call" and callee_short(p) in ("begin",):
            return False, "and then traversed in place"
    if not callees:
        return False, "and the vector's order is observable"
    for c, idx in callees:
        for g in db.fns(c["f"]):
            if len(g.params) <= idx:
                continue
            pd = g.params[idx]["d"]
            for lp in [n for n in g.walk() if n.get("k") in ("for", "forrange")]:
                cont = loop_container(g, lp)
                r = local_ref(cont) if cont is not None else None
                if r is not None and r.get("d") == pd:
                    w = writes_output(db, lp.get("body"))
                    if w:
                        return False, "passed to %s, whose loop over it %s" % (c["f"], w)
            for x in g.walk():
                if x.get("k") == "call" and callee_short(x) in ("front", "back", "operator[]", "at") and any((local_ref(y) or {}).get("d") == pd for y in ([x.get("this")] if "this" in x else x.get("a", [])[:1])):
                    return False, "passed to %s, which picks an element by position" % c["f"]
    return True, "only passed to %s, which just redistributes the elements into associative containers" % ", ".join(sorted({c["f"].split("::")[-1] for c, _ in callees}))


# keys that distinct elements can share: a comparator whose last word is one of these ties, and std::sort then keeps
# the incoming (address) order of the tied elements
NON_INJECTIVE_KEYS = {
    "get_simple_name": "the unscoped name: classes of the same name in different namespaces/classes share it",
    "get_name": "the unscoped name",
    "size": "a size is shared by many elements",
    "get_num_parameters": "a count is shared by many elements",
}


def _tie_key(e):
    """The non-injective accessor a final comparison `a->K() < b->K()` rests on, if any."""
    c = G.cmp_atom(peel(e))
    if not c:
        return None
    for side in (c[1], c[2]):
        s = strip_casts(peel(side))
        if s is not None and s.get("k") == "call" and callee_short(s) in NON_INJECTIVE_KEYS:
            return callee_short(s)
    return None


def comparator_total_tree(body):
    rets = [r for r in walk(body) if r.get("k") == "ret" and r.get("e") is not None] if body else []
    if not rets:
        return False, "has no return"
    last = rets[-1]
    if const_int(last["e"]) == 0:
        return False, "ends in `return false`"
    e = peel(last["e"])
    c = G.cmp_atom(e)
    if c and c[1] is not None and c[2] is not None and "*" in (c[1].get("t") or "") and c[1].get("k") == "ref":
        return False, "compares the pointers themselves"
    k = _tie_key(e)
    if k:
        return False, "ends in a comparison of %s() (%s): distinct elements tie and keep their incoming address order" % (k, NON_INJECTIVE_KEYS[k])
    return True, "ends in a comparison of a final key"


def comparator_total(g):
    """A comparator that ends in `return false` after comparing only derived
    classes of its arguments can tie on distinct elements."""
    rets = [r for r in g.walk() if r.get("k") == "ret" and r.get("e") is not None]
    if not rets:
        return False, "has no return"
    last = max(rets, key=lambda r: g.line_of(r))
    if const_int(last["e"]) == 0:
        return False, "ends in `return false`: elements that agree on every compared key tie, so std::sort keeps their incoming (address) order"
    pids = {p["d"] for p in g.params}
    for x in g.walk():
        c = G.cmp_atom(x) if x.get("k") in ("bin", "call") else None
        if c and c[0] in ("<", ">") and all((local_ref(y) or {}).get("d") in pids for y in (c[1], c[2])):
            return False, "compares its pointer arguments themselves (address order)"
    k = _tie_key(last["e"])
    if k:
        return False, "ends in a comparison of %s() (%s): distinct elements tie and keep their incoming address order" % (k, NON_INJECTIVE_KEYS[k])
    return True, "ends in a comparison of a final key and never compares the pointers themselves"



UNINIT_EXEMPT = {
    ("CPPPreprocessor::InputFile", "_prev_last_c"): "assigned by each of the three creators (push_file, push_string, push_expansion) right after `new InputFile`, read only when the file is popped",
    ("CPPInstanceIdentifier::Modifier", "_trailing_return_type"): "read only for IIT_func modifiers, which are made by Modifier::func_type() and that assigns it",
}
_SCALAR_WORDS = {"int", "bool", "unsigned", "long", "short", "char", "float", "double", "size_t", "signed"}


def _is_scalar(db, t, ct):
    t = (ct or t or "").replace("const ", "").replace("volatile ", "").strip()
    if t.endswith("*"):
        return True
    if t in db.enums:
        return True
    return bool(t) and all(w in _SCALAR_WORDS for w in t.replace("std::", "").split())


def definite_initialisation(ctx):
    db = ctx.db
    n = 0
    for name, r in sorted(db.records.items()):
        if not any(d in r["file"] for d in ("/cppparser/", "/interrogate/", "/interrogatedb/")) or "bison" in r["file"].lower():
            continue
        fields = [fl for fl in r["fields"] if not fl.get("static") and _is_scalar(db, fl.get("t"), fl.get("ct"))]
        if not fields:
            continue
        short = name.split("::")[-1]
        for c in db.fns(name + "::" + short):
            if len(c.params) == 1 and short in c.params[0]["t"] and "&" in c.params[0]["t"]:
                continue      # copy / move constructor: copies whatever the source has
            inits = c.d.get("inits", [])
            if any(i.get("delegating") for i in inits):
                continue
            done = {i["m"].split("::")[-1] for i in inits if i.get("m")}
            cfg = c.cfg
            for fl in fields:
                n += 1
                if fl["n"] in done:
                    continue
                blocks = []
                for x in c.walk():
                    t = assigned_target(x)
                    if t and (field_of(t[0]) or "") == name + "::" + fl["n"]:
                        b = base_of(t[0])
                        if b is None or b.get("k") == "this":
                            loc = cfg.locate(x)
                            if loc:
                                blocks.append(loc[0])
                ok = bool(blocks) and cfg.exit not in cfg.reachable(cut_blocks=blocks)
                key = (name, fl["n"])
                if not ok and key in UNINIT_EXEMPT:
                    ctx.ob("R14.6", "%s|%s|exception" % key, True, c.loc(), "reasoned exception: " + UNINIT_EXEMPT[key])
                    continue
                if not ok:
                    ctx.ob("R14.6", "%s(%s)|%s" % (name, ",".join(p["t"] for p in c.params)[:60], fl["n"]), False, c.loc(),
                           "%s %s::%s is %s" % (fl.get("t"), name, fl["n"], "assigned only on some paths through this constructor" if blocks else "not given a value by this constructor"))
    ctx.ob("R14.6", "all-constructors", True, "src", "%d (constructor, scalar member) pairs examined" % n)
    ctx.floor("R14.6", "(constructor, scalar member) pairs", n, 200)




def no_address_results(ctx):
    """R14.7: Result has a non-explicit Result(void *) and no Result(bool), so `Result(x->as_enum_type())` compiles and
    stores a heap address; Result::as_integer() then yields its low 32 bits, which end up as an enumerator value."""
    db = ctx.db
    n = 0
    for f in db.functions:
        if not any(d in f.file for d in ("/cppparser/", "/interrogate/")):
            continue
        for c in f.walk():
            if c.get("k") == "ctor" and c.get("f") == "CPPExpression::Result::Result" and "void *" in (c.get("s") or ""):
                n += 1
                a = strip_casts(c["a"][0]) if c.get("a") else None
                ok = a is not None and (a.get("k") == "nullp" or (a.get("k") == "call" and a.get("f") == "CPPExpression::Result::as_pointer"))
                ctx.ob("R14.7", "%s|Result(void*)|%s" % (f.name, "propagated" if ok else show(a)[:40] if a is not None else "?"), ok, f.loc(c),
                       "Result(void *) is built from %s" % ("nullptr / another result's pointer" if ok else "`%s`: the address of an object" % show(a)[:50]))
    ctx.floor("R14.7", "Result(void *) constructions", n, 2)



def outputs_are_truncated(ctx):
    """R14.8: an output file is a function of this run's inputs only if it is opened TRUNCATING: written in place, a
    shorter output keeps the tail of whatever an earlier run left in the file.  Every Filename::open_write() of the two
    tools must pass truncate = true - explicitly or through the declaration's default.  (Seed S7-C14: the default in
    filename.h flipped to false.)"""
    db = ctx.db
    ctx.rule("R14.8", "every Filename::open_write(stream[, truncate]) call in interrogate and interrogate_module has truncate == true (explicit argument or the default argument of the declaration)")
    n = 0
    for f in db.functions:
        if "/interrogate/" not in f.file:
            continue
        for c in f.walk():
            if c.get("k") != "call" or c.get("f") != "Filename::open_write":
                continue
            n += 1
            args = c.get("a", [])
            t = args[1] if len(args) > 1 else None
            how = "explicit"
            if t is not None and t.get("k") == "defarg":
                t = t.get("e")
                how = "default argument"
            v = const_int(t) if t is not None else None
            ctx.ob("R14.8", "%s|open_write(%s)|truncates" % (f.name, show(args[0])[:30] if args else "?"), v == 1, f.loc(c),
                   "truncate = %s (%s)" % (show(t) if t is not None else "?", how))
    ctx.floor("R14.8", "open_write calls of the tools", n, 5)


TERMINATING_CALLEES = {"Prettify": "judged by this rule", "WriteExponent": "R18.8 runs it for every exponent and compares with str(K) + NUL"}


def _leaf_arms(node):
    """The leaf arms of an if / else-if chain (a missing final else is an arm of its own: None)."""
    node = node if node is None or node.get("k") != "block" or len(node.get("s", [])) != 1 else node["s"][0]
    if node is not None and node.get("k") == "if":
        return _leaf_arms(node.get("then")) + _leaf_arms(node.get("else"))
    return [node]


def number_text_is_terminated(ctx):
    """R14.9: pdtoa() fills a caller's UNINITIALISED stack buffer (CPPExpression::output, the generators) which is then
    streamed as a C string.  If an arm leaves out the NUL, what follows the digits in the output is whatever the stack
    held - bytes of return addresses, different under every address-space layout.  Every leaf arm of pdtoa and of
    Prettify therefore ends its text: its last write is a 0 byte (for constant texts: at the index that follows the
    last character), or it ends in a call that is itself shown to terminate the text.
    (Seed S8-C14: the inf/nan arms became memcpy(buffer, "inf", 3).)"""
    db = ctx.db
    ctx.rule("R14.9", "every leaf arm of pdtoa()/Prettify() ends with `buffer[k] = 0` (k = the number of characters before it when they are constants), a strcpy/memcpy that includes the terminator, or a call of Prettify/WriteExponent")
    n = 0
    for short in ("pdtoa", "Prettify"):
        fs = [g for g in db.functions if g.name.split("::")[-1] == short and g.file.endswith("pdtoa.cxx")]
        if not fs:
            ctx.broken("R14.9: %s not found in pdtoa.cxx" % short)
            continue
        f = fs[0]
        chain = [y for y in (f.body.get("s") or []) if y.get("k") == "if"]
        if not chain:
            ctx.broken("R14.9: %s has no if-chain" % short)
            continue
        arms = _leaf_arms(chain[-1])
        for i, arm in enumerate(arms):
            n += 1
            inst = "%s|arm#%d|terminated" % (short, i)
            if arm is None:
                ctx.ob("R14.9", inst, False, f.loc(chain[-1]), "an input for which no arm writes anything")
                continue
            stmts = arm.get("s") if arm.get("k") == "block" else [arm]
            stores = {}
            last = None
            ok, why = False, "the arm's last write is not a terminator"
            for st in stmts:
                t = assigned_target(st)
                if t:
                    tgt = strip_casts(peel(t[0]))
                    if tgt is not None and tgt.get("k") == "idx":
                        ix = const_int(tgt.get("x"))
                        v = const_int(t[1])
                        stores[ix] = v
                        last = ("store", ix, v)
                        continue
                c = strip_casts(peel(st)) if st is not None else None
                if c is not None and c.get("k") == "call":
                    cs = callee_short(c)
                    if cs in TERMINATING_CALLEES:
                        last = ("call", cs)
                        continue
                    if cs in ("memcpy", "strcpy", "__builtin_memcpy", "__builtin_strcpy") and len(c.get("a", [])) >= 2:
                        lit = strip_casts(peel(c["a"][1]))
                        text = lit.get("v") if lit is not None and lit.get("k") == "str" else None
                        cnt = const_int(c["a"][2]) if len(c["a"]) > 2 else None
                        if text is not None and (cs.endswith("strcpy") or (cnt is not None and cnt == len(text) + 1)):
                            last = ("copy-with-nul", text)
                        else:
                            last = ("copy", text)
                        continue
                if st is not None and st.get("k") in ("for", "decls"):
                    continue
                last = ("other", st.get("k") if st else None)
            if last and last[0] == "call":
                ok, why = True, "ends in %s(), %s" % (last[1], TERMINATING_CALLEES[last[1]])
            elif last and last[0] == "copy-with-nul":
                ok, why = True, "copies %r including its terminator" % last[1]
            elif last and last[0] == "store" and last[2] == 0:
                const_idx = [k for k in stores if k is not None]
                if last[1] is None:
                    ok, why = True, "the last write is a 0 byte (at a computed index)"
                else:
                    chars = sorted(k for k in const_idx if stores[k] not in (0, None))
                    ok = chars == list(range(last[1]))
                    why = "%d constant character(s) and the 0 byte at index %d" % (len(chars), last[1]) if ok else \
                        "the 0 byte is at index %d but the characters are at %s" % (last[1], chars)
            ctx.ob("R14.9", inst, ok, f.loc(arm), why)
    ctx.floor("R14.9", "leaf arms of pdtoa and Prettify", n, 10)


def serialised_records_are_filled_before_use(ctx):
    """R14.10: the database's small record classes that have no constructor (InterrogateType::Derivation, ::EnumValue,
    InterrogateFunctionWrapper::Parameter) are made as locals, filled field by field and pushed into a vector that
    output() later writes to the .in file.  A scalar field that is not assigned on some path holds stack bytes - under
    ASLR typically half of an address - and the file differs from run to run.  Every such local has each of its scalar
    fields assigned on every path from its declaration to the push_back / copy that stores it.
    (Seed S10-C14: `d._flags = 0;` dropped in the branch that records the bases of a class publishing nothing.)"""
    db = ctx.db
    ctx.rule("R14.10", "a local of a constructor-less, serialised record class of the database has every scalar field assigned on every path before it is stored in a container")
    recs = {}
    for name, r in db.records.items():
        if "/interrogatedb/" not in r["file"]:
            continue
        short = name.split("::")[-1]
        if db.fns(name + "::" + short):
            continue
        if not any(m.get("n", "").endswith("::output") for m in r.get("methods", [])):
            continue
        fields = [fl["n"] for fl in r["fields"] if not fl.get("static") and _is_scalar(db, fl.get("t"), fl.get("ct"))]
        if fields:
            recs[name] = fields
    ctx.floor("R14.10", "constructor-less serialised record classes", len(recs), 2)
    n = 0
    for f in db.functions:
        if not any(d in f.file for d in ("/interrogate/", "/interrogatedb/")):
            continue
        locs = {}
        for y in f.walk():
            if y.get("k") == "decls":
                for dd in y["d"]:
                    t = (dd.get("t") or "").replace("class ", "").replace("struct ", "").strip()
                    for name in recs:
                        if t == name or t == name.split("::", 1)[-1] or (dd.get("ct") or "").strip() == name:
                            init = strip_casts(peel(dd.get("init"))) if dd.get("init") is not None else None
                            if init is None or (init.get("k") == "ctor" and not init.get("a")):
                                locs[dd["d"]] = (name, y, dd.get("n"))
        if not locs:
            continue
        for c in f.walk():
            if not (c.get("k") == "call" and callee_short(c) in ("push_back", "insert", "emplace_back") and c.get("a")):
                continue
            r = local_ref(c["a"][-1])
            if r is None or r.get("d") not in locs:
                continue
            name, decl, vname = locs[r["d"]]
            # a reader fills the whole object through its extraction operator / input()
            filled = [y for y in f.walk() if y.get("k") == "call" and (callee_short(y) in ("operator>>", "input")) and
                      any((local_ref(a) or {}).get("d") == r["d"] for a in ([y.get("this")] if "this" in y else []) + list(y.get("a", [])))]
            if filled and not G.reaches_avoiding(f, decl, filled, c):
                continue
            for fld in recs[name]:
                n += 1
                sets = [y for y in f.walk() if assigned_target(y) and (field_of(strip_casts(peel(assigned_target(y)[0]))) or "") == name + "::" + fld and
                        (local_ref(strip_casts(peel(assigned_target(y)[0])).get("b")) or {}).get("d") == r["d"]]
                sets += [y for y in f.walk() if y.get("k") == "bin" and y.get("op") in ("|=", "&=", "+=") and False]
                ok = bool(sets) and not G.reaches_avoiding(f, decl, sets, c)
                ctx.ob("R14.10", "%s|%s.%s|assigned-before-stored@%s" % (f.name, vname, fld, f.loc(c).split(":")[-1]), ok, f.loc(c),
                       "`%s.%s` is assigned on every path from the declaration to this %s" % (vname, fld, callee_short(c)) if ok else
                       "`%s.%s` can reach this %s unassigned: the field is written to the database as it lies on the stack" % (vname, fld, callee_short(c)))
    ctx.floor("R14.10", "field x store obligations", n, 8)



def _kept_temporaries(f):
    out = []
    cands = []
    for y in f.walk():
        t = assigned_target(y)
        if t:
            cands.append((y, t[1]))
        if y.get("k") == "decls":
            for dd in y["d"]:
                if dd.get("init") is not None and (dd.get("t") or "").rstrip().endswith("*"):
                    cands.append((y, dd["init"]))
    for y, val in cands:
        v = strip_casts(peel(val)) if val is not None else None
        if v is None or v.get("k") != "call" or callee_short(v) not in ("c_str", "data") or "this" not in v:
            continue
        obj = v["this"]
        o = obj
        # see through copy-elision wrappers
        while o is not None and o.get("k") in ("temp", "bind", "mat", "paren") and o.get("e") is not None:
            o = o["e"]
        o = strip_casts(o) if o is not None else None
        if o is not None and o.get("k") in ("call", "ctor") and not (o.get("t") or "").rstrip().endswith("&"):
            out.append((y, v))
    return out


def no_pointer_into_a_temporary_is_kept(ctx):
    """R14.11: `p = f().c_str();` keeps a pointer into a std::string that dies at the end of the statement.  What the
    pointer later shows is whatever the allocator or the stack put there: for short strings (stored inside the object)
    bytes of the dead temporary's stack slot, different under every address-space layout.  The generators write such
    pointers into the output (`_in_module_def`'s database_filename).  No assignment or pointer initialisation in the tools
    takes c_str()/data() of a call result returned by value.  (Seed S11-C14.)"""
    db = ctx.db
    ctx.rule("R14.11", "in the tools no pointer is assigned or initialised from c_str()/data() of a temporary (a call result returned by value)")

    class _P:
        def walk(self):
            return [{"k": "bin", "op": "=", "x": {"k": "mem", "n": "D::name", "b": {"k": "ref", "d": 1, "dk": "local"}},
                     "y": {"k": "call", "f": "std::basic_string::c_str", "this": {"k": "call", "f": "Filename::get_basename", "t": "std::string", "a": []}, "a": []}}]
    if len(_kept_temporaries(_P())) != 1:
        ctx.broken("R14.11: the detector no longer recognises its own example")
    n = 0
    for f in db.functions:
        if not any(d in f.file for d in ("/interrogate/", "/interrogatedb/", "/cppparser/")):
            continue
        n += 1
        for y, v in _kept_temporaries(f):
            ctx.ob("R14.11", "%s|%s@%s|not-a-temporary" % (f.name, show(v)[:40].replace(" ", ""), f.loc(y).split(":")[-1]), False, f.loc(y),
                   "a pointer into `%s`, a temporary, outlives the statement" % show(v.get("this"))[:50])
    ctx.ob("R14.11", "tools|no-pointer-into-a-temporary", True, "src", "%d functions examined" % n)
    ctx.floor("R14.11", "functions examined", n, 800)
