"""C06 — valid C++ is accepted and every printed type is the type written.

Decided (one necessary condition): the type/expression uniquifier cannot
identify two distinct declarations.  CPPType::new_type() merges two objects
when neither is_less() the other, and the merged object is what gets printed,
so every identity-carrying field must take part in is_less() (and in
is_equal(), which the comparison operators of containing types use).
  R06.1 classes of the CPPDeclaration hierarchy with a structural comparison:
        every field initialised from a (non-copy) constructor parameter is
        read by is_less and by is_equal.
  R06.2 CPPExpression, a tagged union: for every variant, every member that
        the constructor/factory of that variant fills from a parameter is read
        in that variant's arm of is_less and of is_equal.
Not decided: acceptance of valid C++, declarator unrolling, name lookup,
printing, template substitution.
"""
from ..facts import peel, strip_casts, show, walk, cond_atom
from .common import callee_short, field_of, base_of, assigned_target, const_int, local_ref
from .C04 import switch_arms

LEVEL = "other"
EXPLANATION = ("Comparison completeness of the CPPDeclaration hierarchy (fields initialised from constructor parameters vs fields read by "
               "is_less/is_equal) and per-variant completeness for the CPPExpression tagged union; a necessary condition for 'the printed "
               "type is the type written' because new_type() merges what the comparison cannot tell apart.")
TRUSTED = ["clang 14 AST", "constructor-parameter data flow identifies the identity-carrying fields"]
ASSUMPTIONS = ["classes that delegate to CPPDeclaration::is_less (pointer identity) are never merged and need no field comparison"]

# identity fields that need not be compared, with the reason
EXEMPT = {
    ("CPPTypedefType", "_attributes"): "attributes do not change which type the typedef denotes",
    ("CPPTypedefType", "_native_scope"): "not a field of the class (sets the identifier's scope)",
    ("CPPManifest", "_loc"): "source location, not identity", ("CPPManifest", "_parser"): "back pointer",
}


PRINT_VARIANT_EXEMPT = {
    ("T_trinary_operation", "_u._op._operator"): "there is one ternary operator: every construction passes the literal '?' (checked), so the member carries no information",
}

VARIANT_EXEMPT = {
    "_u._typeid._std_type_info": "the std::type_info type is the same for every typeid expression",
}


def _reads(fn, cls):
    """field short names of cls read through `this` and through another object."""
    own, other = set(), set()
    for n in fn.walk():
        if n.get("k") == "mem" and not n.get("method") and n["n"].rsplit("::", 1)[0] == cls:
            b = peel(n.get("b"))
            (own if (b is None or b.get("k") == "this") else other).add(n["n"].split("::")[-1])
    return own, other


def _delegates_to_identity(fn):
    for c in fn.walk():
        if c.get("k") == "call" and c.get("f") in ("CPPDeclaration::is_less", "CPPDeclaration::is_equal") and c.get("qual"):
            return True
    # `return this < other` / `this == other`
    for r in fn.walk():
        if r.get("k") == "ret" and r.get("e") is not None:
            e = peel(r["e"])
            if e.get("k") == "bin" and e.get("op") in ("<", "==") and peel(e["x"]).get("k") == "this":
                return True
    return False


def _leaf_members(node):
    """Innermost member names of `_u.<path>` / `_str` accesses in node: '_op._operator' style paths."""
    out = set()
    for n in walk(node):
        if n.get("k") == "mem" and not n.get("method"):
            path = []
            m = n
            while m is not None and m.get("k") == "mem":
                path.append(m["n"].split("::")[-1])
                m = peel(m.get("b"))
            path.reverse()
            if path and path[0] in ("_u", "_str"):
                out.add(".".join(path))
    # keep only maximal paths
    return {p for p in out if not any(q != p and q.startswith(p + ".") for q in out)}


# classes whose substitute_decl()/resolve_type() build a fresh object on purpose, with the reason
REBUILD_EXEMPT = {
    "CPPScope": "a scope is re-populated declaration by declaration through add_declaration(); it is not an attribute carrier of a printed type",
}


def rebuild_rules(ctx, RID="R06.5", only_types=False):
    """X::substitute_decl / X::resolve_type return a modified copy of *this*.  The copy must keep every attribute it does not
    deliberately replace: either it is copy-constructed from *this, or each data member X declares is passed to the
    constructor or written through the new object."""
    db = ctx.db
    ctx.rule(RID, "a type/declaration rebuilt by substitute_decl()/resolve_type() is copy-constructed from *this, or every data member of its class is carried over explicitly")
    n = 0
    for f in db.functions:
        short = f.name.split("::")[-1]
        if short not in ("substitute_decl", "resolve_type") or "/cppparser/" not in f.file or "::" not in f.name:
            continue
        cls = f.name.rsplit("::", 1)[0]
        if only_types and not cls.endswith("Type"):
            continue
        rec = db.records.get(cls)
        if rec is None:
            continue
        for nw in f.walk():
            if nw.get("k") != "new" or nw.get("ty") != cls:
                continue
            ctor = nw.get("e") or {}
            args = ctor.get("a", [])
            inst = "%s|%s" % (f.name, "new")
            if cls in REBUILD_EXEMPT:
                ctx.info("%s not judged: %s::%s: %s" % (RID, cls, short, REBUILD_EXEMPT[cls]))
                continue
            n += 1
            a0 = peel(args[0]) if len(args) == 1 else None
            from_this = a0 is not None and a0.get("k") == "un" and a0.get("op") == "*" and (peel(a0.get("e")) or {}).get("k") == "this"
            if from_this:
                ctx.ob(RID, inst, True, f.loc(nw), "copy-constructed from *this")
                continue
            # which local holds the new object?
            holder = None
            for st in f.walk():
                if st.get("k") == "decls":
                    for d in st["d"]:
                        if "init" in d and any(x is nw for x in walk(d["init"])):
                            holder = d["d"]
                t = assigned_target(st)
                if t and any(x is nw for x in walk(t[1])):
                    lr = local_ref(t[0])
                    holder = lr.get("d") if lr else holder
            fields = [fl["n"] for fl in rec["fields"] if not fl.get("static")]
            inherited = []
            todo = [b["n"] for b in rec.get("bases", [])]
            while todo:
                bn = todo.pop()
                br = db.records.get(bn)
                if br is None:
                    continue
                inherited += [bn + "::" + fl["n"] for fl in br["fields"] if not fl.get("static")]
                todo += [b["n"] for b in br.get("bases", [])]
            if inherited:
                ctx.info("%s %s: inherited members %s are not judged (set by the base constructor from the new object's own arguments)" % (RID, inst, inherited))
            carried = set()
            for a in args:
                for x in walk(a):
                    if x.get("k") == "mem" and x.get("n", "").rsplit("::", 1)[0] == cls:
                        carried.add(x["n"].split("::")[-1])
            # members the called constructor fills from a parameter that the call really passes (not a default argument)
            for c in db.fns(ctor.get("f", "")):
                if c.sig != ctor.get("s"):
                    continue
                passed = {p["d"] for p, a in zip(c.params, args) if (a or {}).get("k") != "defarg"}
                for ini in c.d.get("inits", []):
                    if ini.get("m") and ini.get("e") is not None and any(x.get("k") == "ref" and x.get("d") in passed for x in walk(ini["e"])):
                        carried.add(ini["m"].split("::")[-1])
                for x in c.walk():
                    t = assigned_target(x)
                    if t and (field_of(t[0]) or "").rsplit("::", 1)[0] == cls and any(y.get("k") == "ref" and y.get("d") in passed for y in walk(t[1])):
                        carried.add(field_of(t[0]).split("::")[-1])
            if holder is not None:
                for x in f.walk():
                    if x.get("k") == "mem" and x.get("n", "").rsplit("::", 1)[0] == cls:
                        b = local_ref(x.get("b"))
                        if b is not None and b.get("d") == holder:
                            carried.add(x["n"].split("::")[-1])
            missing = [fl for fl in fields if fl not in carried]
            ctx.ob(RID, inst, not missing, f.loc(nw),
                   "built afresh; members carried over: %s; dropped: %s" % (sorted(carried) or "none", missing or "none"))
    ctx.floor(RID, "rebuild sites", n, 12 if only_types else 18)


def changed_flag_rules(ctx, RID="R06.6"):
    """The substitute/resolve functions return the rebuilt object iff *any* operand changed, and `this` otherwise.  The
    flag that accumulates "something changed" must therefore be monotone: once set, no later assignment may clear it."""
    db = ctx.db
    ctx.rule(RID, "in substitute_decl()/resolve_type()/copy_substitute_decl(), a bool local that accumulates `something changed` is only ever set (`= true`, `x = x || e`, `x |= e`) once it may already be set; a plain `x = e` must not be reachable from an earlier assignment")
    n_flags = n_asg = 0
    for f in db.functions:
        short = f.name.split("::")[-1]
        if short not in ("substitute_decl", "resolve_type", "copy_substitute_decl", "instantiate") or "/cppparser/" not in f.file:
            continue
        flags = {}
        for st in f.walk():
            if st.get("k") == "decls":
                for d in st["d"]:
                    if d.get("t") == "bool":
                        flags[d["d"]] = d
        if not flags:
            continue
        cfg = f.cfg
        asg = {}  # decl -> [(node, kind)]
        for x in f.walk():
            if x.get("k") != "bin" or x.get("op") not in ("=", "|=", "&="):
                continue
            tgt = local_ref(x.get("x"))
            if tgt is None or tgt.get("d") not in flags:
                continue
            d = tgt["d"]
            rhs = strip_casts(peel(x.get("y")))
            kind = "plain"
            if x["op"] == "|=":
                kind = "or"
            elif x["op"] == "&=":
                kind = "and"
            elif rhs is not None and rhs.get("k") == "bool":
                kind = "true" if rhs.get("v") else "false"
            elif rhs is not None and rhs.get("k") == "bin" and rhs.get("op") in ("||", "&&"):
                # x = x || e   /  x = e || x
                def chain(n, op):
                    n = strip_casts(peel(n))
                    if n is not None and n.get("k") == "bin" and n.get("op") == op:
                        return chain(n["x"], op) + chain(n["y"], op)
                    return [n]
                if any((local_ref(o) or {}).get("d") == d for o in chain(rhs, rhs["op"])):
                    kind = "or" if rhs["op"] == "||" else "and"
            asg.setdefault(d, []).append((x, kind))
        for d, lst in asg.items():
            kinds = {k for _, k in lst}
            # polarity: a positive accumulator starts false and is set true; a negative one (`unchanged`) the reverse
            if "true" in kinds or "or" in kinds:
                mono, bad_kinds = ("true", "or"), ("plain", "false", "and")
            elif "false" in kinds or "and" in kinds:
                mono, bad_kinds = ("false", "and"), ("plain", "true", "or")
            else:
                continue
            if len(lst) < 2 and not any(k in bad_kinds for _, k in lst):
                pass
            n_flags += 1
            lst.sort(key=lambda t: (f.line_of(t[0]), t[0]["i"]))
            for ordn, (x, k) in enumerate(lst):
                n_asg += 1
                if k in mono:
                    ctx.ob(RID, "%s|%s|assignment#%d" % (f.name, flags[d]["n"], ordn), True, f.loc(x), "monotone: %s" % show(x)[:70])
                    continue
                # may an earlier assignment already have set the flag?
                lx = cfg.locate(x)
                earlier = None
                for y, ky in lst:
                    if y is x and not _self_reachable(cfg, lx):
                        continue
                    ly = cfg.locate(y)
                    if ly is None or lx is None:
                        continue
                    if y is x or _after(cfg, ly, lx):
                        earlier = y
                        break
                ctx.ob(RID, "%s|%s|assignment#%d" % (f.name, flags[d]["n"], ordn), earlier is None, f.loc(x),
                       "`%s` %s" % (show(x)[:70], "is the first assignment on every path" if earlier is None else
                                    "can discard the change recorded at line %d" % f.line_of(earlier)))
    ctx.floor(RID, "change-accumulator flags", n_flags, 6)
    ctx.floor(RID, "assignments to change accumulators", n_asg, 25)


def _after(cfg, la, lb):
    """Can control reach location lb after executing location la?"""
    if la[0] == lb[0] and lb[1] > la[1]:
        return True
    seen = set()
    for s in cfg.blocks[la[0]].succs:
        if s is not None:
            seen |= cfg.reachable(s)
    return lb[0] in seen


def _self_reachable(cfg, l):
    return _after(cfg, l, (l[0], -1)) if l is not None else False


# fields a printer reads that the uniquifier may ignore, with the reason
PRINT_EXEMPT = {}


def nesting_tests(ctx):
    """R06.7: while template arguments are lexed, `,` and `>` end an argument when they are outside all parentheses.
    The scanner's counter _paren_nesting can be negative there (get_identifier() swallows the `(` of `noexcept(` /
    `decltype(` style keywords without counting it, the matching `)` is counted), so `outside` is `<= 0`; a test that
    fails for -1 misses the terminator and the rest of the file is swallowed by error recovery."""
    db = ctx.db
    ctx.rule("R06.7", "every test of _paren_nesting that ends a template argument (guards `_state = S_end_nested`, or is conjoined with _parsing_template_params) also holds for a negative counter")
    n = 0
    for f in db.functions:
        if not f.file.endswith("cppPreprocessor.cxx"):
            continue
        for node in f.walk():
            if node.get("k") != "if":
                continue
            atoms = []

            def leaves(e):
                e = peel(e)
                if e is not None and e.get("k") == "bin" and e.get("op") in ("&&", "||"):
                    leaves(e["x"])
                    leaves(e["y"])
                elif e is not None:
                    atoms.append(e)
            leaves(node["c"])
            pn = [a for a in atoms if (lambda c: c and ((field_of(c[1]) or "").endswith("_paren_nesting") or (field_of(c[2]) or "").endswith("_paren_nesting")))(_cmp(a))]
            if not pn:
                continue
            ends = any((field_of((assigned_target(x) or [None])[0]) or "").endswith("CPPPreprocessor::_state") and "S_end_nested" in show(x) for x in walk(node.get("then") or {}))
            tmpl = any((field_of(a) or "").endswith("_parsing_template_params") for a in atoms)
            if not (ends or tmpl):
                continue
            for a in pn:
                n += 1
                op, l, r = _cmp(a)
                if (field_of(r) or "").endswith("_paren_nesting"):
                    op, l, r = {"<": ">", "<=": ">=", ">": "<", ">=": "<=", "==": "==", "!=": "!="}[op], r, l
                k = const_int(r)
                holds_neg = k is not None and {"<": -1 < k, "<=": -1 <= k, ">": -1 > k, ">=": -1 >= k, "==": -1 == k, "!=": -1 != k}[op]
                ctx.ob("R06.7", "%s|%s|holds-for-negative-nesting" % (f.name, "ends-argument" if ends else "template-params"), bool(holds_neg), f.loc(a),
                       "`%s` %s for _paren_nesting == -1" % (show(a), "holds" if holds_neg else "does NOT hold"))
    ctx.floor("R06.7", "argument-terminator tests of _paren_nesting", n, 3)


def _cmp(a):
    a = peel(a)
    if a is not None and a.get("k") == "bin" and a.get("op") in ("<", "<=", ">", ">=", "==", "!="):
        return a["op"], strip_casts(peel(a["x"])), strip_casts(peel(a["y"]))
    return None


def base_scope_lookups(ctx):
    """R06.8: unqualified lookup searches a class, then its bases' members, then the scopes ENCLOSING the class - never
    the scopes enclosing a base ([basic.lookup.unqual], [class.member.lookup]).  CPPScope's find_* functions do this with
    a `recurse` flag: the call on a base's scope must pass false, or a same-named type from the base's namespace shadows
    the one C++ selects."""
    db = ctx.db
    ctx.rule("R06.8", "in CPPScope::find_type / find_symbol / find_template, every lookup made on a base class's scope (st->_scope->find_X(...)) passes recurse = false")
    n = 0
    for f in db.functions:
        if not f.name.startswith("CPPScope::find_"):
            continue
        short = f.name.split("::")[-1]
        for c in f.walk():
            if c.get("k") != "call" or callee_short(c) != short or "this" not in c:
                continue
            subj = strip_casts(peel(c["this"]))
            # through a struct's _scope member (a base), not through _parent_scope
            if not (subj is not None and subj.get("k") == "mem" and subj.get("n", "").endswith("CPPStructType::_scope")):
                continue
            n += 1
            # the recurse parameter of the callee: the bool one
            callee = [g for g in db.fns(c.get("f", "")) if g.sig == c.get("s")]
            idx = None
            if callee:
                for i, pp in enumerate(callee[0].params):
                    if pp["t"] == "bool":
                        idx = i
            arg = c["a"][idx] if idx is not None and idx < len(c.get("a", [])) else None
            if arg is not None and arg.get("k") == "defarg":
                arg = arg.get("e")
            ok = arg is not None and const_int(arg) == 0
            ctx.ob("R06.8", "%s(%s)|base-scope-lookup|non-recursive" % (f.name, len(f.params)), ok, f.loc(c),
                   "the lookup on the base's scope passes recurse = %s" % (show(arg) if arg is not None else "?"))
    ctx.floor("R06.8", "lookups on base-class scopes", n, 4)


def literal_operator_recorded(ctx):
    """R06.9: a user-defined literal is printed as value + suffix of the literal operator recorded in the expression
    (`_u._literal._operator`); with a null operator the suffix is silently dropped and `T<12_x>` is printed as `T<12>`.
    A contradiction rule: the pointer handed to CPPExpression::literal()/raw_literal() must not be a local that is known
    to be null on every path to the call.  (F-C06g: the raw fallback passed `instance` - necessarily null there - instead
    of `raw_instance`.)"""
    db = ctx.db
    from . import gates as G
    ctx.rule("R06.9", "the literal operator passed to CPPExpression::literal()/raw_literal() is not a local pointer that is null on every path reaching the call")
    n = 0
    for f in db.functions:
        if "/cppparser/" not in f.file or "bison" in f.file:
            continue
        for c in f.walk():
            if c.get("k") != "call" or c.get("f") not in ("CPPExpression::literal", "CPPExpression::raw_literal") or not c.get("a"):
                continue
            n += 1
            arg = c["a"][-1]
            r = local_ref(arg)
            inst = "%s|%s(%s)" % (f.name, callee_short(c), show(arg))
            if r is None:
                ctx.ob("R06.9", inst, (strip_casts(peel(arg)) or {}).get("k") != "nullp", f.loc(c), "operator argument `%s`" % show(arg))
                continue
            d = r["d"]
            cfg = f.cfg
            lc = cfg.locate(c)
            nonnull_edges = G.edges_where(f, G.local_is_null(d, null=False))
            # blocks that give the local a value that is not the null literal
            setters = []
            null_init = False
            for y in f.walk():
                t = assigned_target(y)
                lr = local_ref(t[0]) if t else None
                if lr is not None and lr.get("d") == d and (strip_casts(peel(t[1])) or {}).get("k") != "nullp":
                    setters.append(y)
                if y.get("k") == "decls":
                    for dd in y["d"]:
                        if dd.get("d") == d and "init" in dd and (strip_casts(peel(dd["init"])) or {}).get("k") == "nullp":
                            null_init = True
            # the call can be reached with a non-null value if: (a) from a setter, or from a non-null edge's target, the
            # call is reachable without crossing an edge that establishes `local == nullptr`
            null_edges = G.edges_where(f, G.local_is_null(d, null=True))
            starts = [cfg.locate(y)[0] for y in setters if cfg.locate(y)]
            starts += [cfg.blocks[b].succs[i] for (b, i) in nonnull_edges if cfg.blocks[b].succs[i] is not None]
            if not null_init:
                starts.append(cfg.entry)
            can = lc is None or any(lc[0] in cfg.reachable(s, cut_edges=null_edges) for s in starts)
            ctx.ob("R06.9", inst, can, f.loc(c), "`%s` %s at this call" % (show(arg), "may be non-null" if can else "is null on EVERY path: the literal loses its suffix"))
    ctx.floor("R06.9", "constructions of user-defined-literal expressions", n, 2)


def run(ctx):
    db = ctx.db
    nesting_tests(ctx)
    base_scope_lookups(ctx)
    literal_operator_recorded(ctx)
    sign_printing(ctx)
    scope_peels_const_and_typedef_together(ctx)
    comparisons_pair_this_with_other(ctx)
    function_scopes_hang_under_the_declarators_scope(ctx)
    nullable_members_are_ordered_when_only_one_is_null(ctx)
    identity_compares_whole_members(ctx)
    pointer_members_are_compared_by_value_too(ctx)
    defaults_see_the_arguments_filled_in_so_far(ctx)
    rebuild_rules(ctx, "R06.5")
    changed_flag_rules(ctx, "R06.6")
    ctx.rule("R06.1", "every field a (non-copy) constructor initialises from a parameter is read by the class's structural is_less() and is_equal()")
    ctx.rule("R06.2", "for every CPPExpression variant, every union member its constructor/factory fills from a parameter is read in that variant's arm of is_less() and is_equal()")

    n_cls = 0
    n_ob = 0
    printers = [f for f in db.functions if "/cppparser/" in f.file and f.name.split("::")[-1] in ("output", "output_instance", "output_function", "output_template_specialization")]
    if len(printers) < 20:
        ctx.broken("printer functions (output/output_instance) not found: %d" % len(printers))
    for name, r in sorted(db.records.items()):
        if "/cppparser/" not in r["file"] or name in ("CPPExpression", "CPPDeclaration"):
            continue
        ls = db.fns(name + "::is_less")
        eq = db.fns(name + "::is_equal")
        if not ls:
            continue
        short = name.split("::")[-1]
        if _delegates_to_identity(ls[0]):
            ctx.info("R06.1 %s::is_less is pointer identity: never merged" % name)
            continue
        n_cls += 1
        fields = {f["n"] for f in r["fields"] if not f.get("static")}
        ident = {}
        for c in db.fns(name + "::" + short):
            # skip copy / move constructors
            if len(c.params) == 1 and short in c.params[0]["t"] and "&" in c.params[0]["t"]:
                continue
            pids = {p["d"] for p in c.params}
            for ini in c.d.get("inits", []):
                if ini.get("m") and ini.get("e") is not None and ini["m"].rsplit("::", 1)[0] == name:
                    if any(x.get("k") == "ref" and x.get("d") in pids for x in walk(ini["e"])):
                        ident.setdefault(ini["m"].split("::")[-1], c)
            for n in c.walk():
                t = assigned_target(n)
                if t and field_of(t[0]) and field_of(t[0]).rsplit("::", 1)[0] == name:
                    b = base_of(t[0])
                    if (b is None or b.get("k") == "this") and any(x.get("k") == "ref" and x.get("d") in pids for x in walk(t[1])):
                        ident.setdefault(field_of(t[0]).split("::")[-1], c)
        # ... and every field some printer reads: two objects that print differently must not be identified
        printed = {}
        for pf in printers:
            for x in pf.walk():
                if x.get("k") == "mem" and not x.get("method") and x.get("n", "").rsplit("::", 1)[0] == name:
                    printed.setdefault(x["n"].split("::")[-1], pf)
        for which, fns in (("is_less", ls), ("is_equal", eq)):
            if not fns:
                continue
            if _delegates_to_identity(fns[0]):
                ctx.info("R06.1 %s::%s is pointer identity" % (name, which))
                continue
            own, other = _reads(fns[0], name)
            for f in sorted(set(ident) | set(printed)):
                if f not in fields:
                    continue
                if (name, f) in EXEMPT:
                    continue
                if f not in ident and (name, f) in PRINT_EXEMPT:
                    ctx.info("R06.1 %s::%s is read by %s but need not be compared: %s" % (name, f, printed[f].name, PRINT_EXEMPT[(name, f)]))
                    continue
                n_ob += 1
                ok = f in own and f in other
                why = "set from a constructor parameter" if f in ident else "read by the printer %s" % printed[f].name
                ctx.ob("R06.1", "%s::%s|%s" % (name, which, f), ok, fns[0].loc(),
                       "%s (%s) is %scompared by %s()" % (f, why, "" if ok else "NOT ", which))
    ctx.floor("R06.1", "classes with a structural is_less", n_cls, 8)
    ctx.floor("R06.1", "identity-field obligations", n_ob, 24)

    # ------------------------------------------------------------ R06.2
    en = db.enum("CPPExpression::Type")
    val = {c["n"]: c["v"] for c in en["consts"]}
    names = {c["v"]: c["n"] for c in en["consts"]}
    variant_members = {}   # T_x -> {member path: site}
    for f in db.methods_of("CPPExpression"):
        pids = {p["d"] for p in f.params}
        if not pids:
            continue
        tys = []
        for n in f.walk():
            t = assigned_target(n)
            if t and (field_of(t[0]) or "") == "CPPExpression::_type":
                v = strip_casts(t[1])
                if v is not None and v.get("k") == "ref" and v.get("dk") == "enumc":
                    tys.append(v["n"].split("::")[-1])
        if len(tys) != 1:
            continue   # functions that retag conditionally (substitute_decl) are not construction sites
        written = {}
        for n in f.walk():
            t = assigned_target(n)
            if not t:
                continue
            paths = _leaf_members(t[0])
            if not paths:
                continue
            rhs = t[1]
            if any(x.get("k") == "ref" and x.get("d") in pids for x in walk(rhs)):
                for p in paths:
                    written[p] = f.loc(n)
        for ini in f.d.get("inits", []):
            if ini.get("m") == "CPPExpression::_str" and ini.get("e") is not None and any(x.get("k") == "ref" and x.get("d") in pids for x in walk(ini["e"])):
                written["_str"] = f.loc()
        # a function that sets several types conditionally: attribute members to all of them
        for ty in set(tys):
            variant_members.setdefault(ty, {}).update(written)
    ctx.floor("R06.2", "expression variants with parameter-filled members", len(variant_members), 16)
    n2 = 0
    for which in ("is_less", "is_equal"):
        fn = db.fn("CPPExpression::" + which)
        sw = [n for n in fn.walk() if n.get("k") == "switch" and (field_of(n["c"]) or "") == "CPPExpression::_type"]
        if len(sw) != 1:
            ctx.broken("CPPExpression::%s: switch on _type not found" % which)
        arms = switch_arms(sw[0])
        arm_of = {}
        for labs, stmts in arms:
            for v in labs:
                if v != "default":
                    arm_of[names.get(v)] = stmts
        for ty, members in sorted(variant_members.items()):
            stmts = arm_of.get(ty)
            if stmts is None:
                ctx.ob("R06.2", "%s|%s|arm" % (which, ty), False, fn.loc(sw[0]), "no case %s in %s()" % (ty, which))
                continue
            read = set()
            for st in stmts:
                read |= _leaf_members(st)
            rets = [x for st in stmts for x in walk(st) if x.get("k") == "ret"]
            never_equal = which == "is_equal" and rets and all(const_int(x.get("e")) == 0 for x in rets)
            for m, site in sorted(members.items()):
                if m in VARIANT_EXEMPT:
                    continue
                n2 += 1
                ok = m in read or never_equal
                ctx.ob("R06.2", "%s|%s|%s" % (which, ty, m), ok, fn.loc(stmts[0]) if stmts else fn.loc(),
                       "%s (filled from a parameter at %s) is %sread by the %s arm of %s()" % (m, site, "" if ok else "NOT ", ty, which))
    ctx.floor("R06.2", "variant-member obligations", n2, 40)
    # ------------------------------------------------------------ R06.10: the same members are printed
    ctx.rule("R06.10", "for every CPPExpression variant, every union member its constructor/factory fills from a parameter is read in that variant's arm of output(): what distinguishes two expressions is visible in their printed form")
    fn = db.fn("CPPExpression::output")
    sw = [n for n in fn.walk() if n.get("k") == "switch" and (field_of(n["c"]) or "") == "CPPExpression::_type"]
    if not sw:
        ctx.broken("CPPExpression::output: switch on _type not found")
    sw = [max(sw, key=lambda n: len(switch_arms(n)))]       # the printing switch (an earlier, small one handles parentheses)
    arm_of = {}
    for labs, stmts in switch_arms(sw[0]):
        for v in labs:
            if v != "default":
                arm_of[names.get(v)] = stmts
    n3 = 0
    for ty, members in sorted(variant_members.items()):
        stmts = arm_of.get(ty)
        if stmts is None:
            ctx.ob("R06.10", "output|%s|arm" % ty, False, fn.loc(sw[0]), "no case %s in output()" % ty)
            continue
        read = set()
        for st in stmts:
            read |= _leaf_members(st)
        for m, site in sorted(members.items()):
            if m in VARIANT_EXEMPT or (ty, m) in PRINT_VARIANT_EXEMPT:
                continue
            n3 += 1
            ok = m in read
            ctx.ob("R06.10", "output|%s|%s" % (ty, m), ok, fn.loc(stmts[0]) if stmts else fn.loc(),
                   "%s (filled from a parameter at %s) is %sread by the %s arm of output()" % (m, site, "" if ok else "NOT ", ty))
    ctx.floor("R06.10", "variant-member obligations of the printer", n3, 20)
    # premise of the exemption
    tern = [c for f in db.functions for c in f.walk() if c.get("k") == "ctor" and c.get("f") == "CPPExpression::CPPExpression"
            and (c.get("s") or "").replace(" ", "") == "void(int,CPPExpression*,CPPExpression*,CPPExpression*)"]
    bad = [c for c in tern if const_int(c["a"][0]) != 63]
    ctx.ob("R06.10", "trinary-constructions|operator-is-always-?", bool(tern) and not bad, "src/cppparser/cppBison.yxx",
           "%d constructions of a ternary expression, %d with an operator other than '?'" % (len(tern), len(bad)))
    _keyword_round_trip(ctx)


TYPE_KW = ["bool", "char", "wchar_t", "char8_t", "char16_t", "char32_t", "int", "float", "double", "void", "auto"]
MOD_KW = ["short", "long", "unsigned", "signed"]


def _keyword_round_trip(ctx):
    """R06.4: keyword -> (type, flags) in the grammar and (type, flags) -> keyword in the printers agree
    with the keyword's own name; the declarator printers emit their own token."""
    import re
    from .. import grammar as GR
    from . import gates as G
    db = ctx.db
    ctx.rule("R06.4", "fundamental-type keywords map to the enumerator of their own name in the grammar and back to the same keyword in CPPSimpleType::output; reference/const/pointer printers emit `&&` iff rvalue, `const`, `*`")
    g = GR.Grammar(db.meta["grammar"])
    n = 0
    for nt in ("simple_int_type", "simple_float_type", "simple_void_type", "simple_auto_type"):
        for a in g.rules.get(nt, []):
            syms = [x for x in a.syms if x != "@action"]
            kws = [x[3:].lower() for x in syms if x.startswith("KW_")]
            if not kws:
                continue
            act = a.action or ""
            types = re.findall(r"CPPSimpleType::T_(\w+)", act)
            flags = re.findall(r"CPPSimpleType::F_(\w+)", act)
            site = "src/cppparser/cppBison.yxx:%d" % a.line
            inst = "grammar|%s|%s" % (nt, "_".join(syms))
            if len(syms) == len(kws) and "new CPPSimpleType" in act:
                n += 1
                want_t = [k for k in kws if k in TYPE_KW] or ["int"]
                want_f = [k for k in kws if k in MOD_KW]
                ctx.ob("R06.4", inst, types == want_t[-1:] and sorted(flags) == sorted(want_f), site,
                       "`%s` builds CPPSimpleType(T_%s%s); expected T_%s%s" % (" ".join(kws), ",".join(types), "".join(", F_" + f for f in flags), want_t[-1], "".join(", F_" + f for f in want_f)))
            elif len(kws) == 1 and kws[0] in MOD_KW and len(syms) == 2:
                n += 1
                want = {kws[0]} | ({"longlong"} if kws[0] == "long" else set())
                ctx.ob("R06.4", inst, set(flags) == want, site, "`%s <int type>` sets %s; expected %s" % (kws[0], sorted(set(flags)), sorted(want)))
    ctx.floor("R06.4", "fundamental-type alternatives in the grammar", n, 18)
    # printer
    fn = db.fn("CPPSimpleType::output")
    sw = [x for x in fn.walk() if x.get("k") == "switch" and (field_of(x["c"]) or "").endswith("CPPSimpleType::_type")]
    if not sw:
        ctx.broken("CPPSimpleType::output: switch on _type not found")
    en = db.enum("CPPSimpleType::Type")
    names = {c["v"]: c["n"] for c in en["consts"]}
    special = {"T_nullptr": "decltype(nullptr)", "T_va_list": "__builtin_va_list"}
    m = 0
    for labs, stmts in switch_arms(sw[0]):
        lits = [x.get("v", "") for st in stmts for x in walk(st) if x.get("k") == "str"]
        for v in labs:
            nm = names.get(v)
            if nm is None:
                continue
            kw = nm[2:]
            if kw in TYPE_KW or nm in special:
                m += 1
                want = special.get(nm, kw)
                ctx.ob("R06.4", "printer|%s" % nm, lits == [want], fn.loc(stmts[0]) if stmts else fn.loc(), "case %s prints %s (expected \"%s\")" % (nm, lits, want))
    ctx.floor("R06.4", "type keywords printed", m, 12)
    for x in fn.walk():
        if x.get("k") != "if":
            continue
        atom, pos = cond_atom(fn, x["c"])
        en_ = [y for y in walk(x["c"]) if y.get("k") == "ref" and y.get("dk") == "enumc" and y["n"].split("::")[-1].startswith("F_")]
        if len(en_) != 1 or any(y.get("k") == "ref" and y["n"].endswith("T_int") for y in walk(x["c"])):
            continue
        lits = [y.get("v", "") for y in walk(x["then"]) if y.get("k") == "str"]
        flag = en_[0]["n"].split("::")[-1][2:]
        want = {"longlong": "long long "}.get(flag, flag + " ")
        ctx.ob("R06.4", "printer|F_%s" % flag, lits[:1] == [want], fn.loc(x), "flag F_%s prints %s (expected \"%s\")" % (flag, lits[:1], want))
    # declarator printers
    fr = db.fn("CPPReferenceType::output_instance")
    ok = False
    for x in fr.walk():
        if x.get("k") == "cond":
            c = G.cmp_atom(peel(x["c"]))
            if c and c[0] == "==" and (field_of(c[1]) or "").endswith("_value_category") and c[2] is not None and c[2].get("n", "").endswith("VC_rvalue"):
                t = [y.get("v") for y in walk(x["x"]) if y.get("k") == "str"]
                f = [y.get("v") for y in walk(x["y"]) if y.get("k") == "str"]
                ok = t == ["&&"] and f == ["&"]
        if x.get("k") == "if":
            pass
    ctx.ob("R06.4", "printer|reference", ok, fr.loc(), "a reference prints `&&` exactly when its value category is VC_rvalue, else `&`")
    for cls, tok, inner in (("CPPConstType", "const", "_wrapped_around"), ("CPPPointerType", "*", "_pointing_at")):
        f = db.fn(cls + "::output_instance")
        lits = [y.get("v", "") for y in f.walk() if y.get("k") == "str"]
        deleg = any(c.get("k") == "call" and callee_short(c) == "output_instance" and (field_of(c.get("this")) or "").endswith(inner) for c in f.walk())
        ctx.ob("R06.4", "printer|%s" % cls, any(tok in l for l in lits) and deleg, f.loc(), "%s::output_instance emits `%s` and delegates to %s" % (cls, tok, inner))


def sign_printing(ctx):
    """R06.11: the printed form is read again (by a compiler, by interrogate_module, by people).  `-` directly followed by
    an operand text that starts with `-` is the decrement operator: `A<-(-1)>` printed as `A< --1 >` names no type, and
    `-(-x)` printed as `--x` is another expression.  The other unary arms print `(op ` first; the two sign arms must
    either do the same or look at the operand's text before they join it to the sign.  (F-C06i.)"""
    db = ctx.db
    ctx.rule("R06.11", "in CPPExpression::output the UNARY_MINUS / UNARY_PLUS arm does not write the operand straight after the sign: it writes a separator first, or renders the operand into a buffer and tests its first character")
    from . import C07
    tv = C07.token_values(db)
    fn = db.fn("CPPExpression::output")
    want = {tv.get("UNARY_MINUS"): "UNARY_MINUS", tv.get("UNARY_PLUS"): "UNARY_PLUS"}
    if None in want:
        ctx.broken("R06.11: token values of UNARY_MINUS / UNARY_PLUS not found")
    n = 0
    outp = [p for p in fn.params if "ostream" in p["t"]]
    for sw in [y for y in fn.walk() if y.get("k") == "switch" and show(y["c"]).endswith("_operator")]:
        for labs, stmts in switch_arms(sw):
            hit = [want[v] for v in labs if v in want]
            if not hit:
                continue
            # only the unary switch: its arms print _op1 and never _op2
            if any("_op2" in show(x) for st in stmts for x in walk(st) if x.get("k") == "mem"):
                continue
            n += 1
            calls = [c for st in stmts for c in walk(st) if c.get("k") == "call" and callee_short(c) == "output" and "_op1" in show(c.get("this") or {})]
            direct = [c for c in calls if c.get("a") and (local_ref(c["a"][0]) or {}).get("d") == outp[0]["d"]]
            lits = [x.get("v") for st in stmts for x in walk(st) if x.get("k") == "str"] + [chr(const_int(x)) for st in stmts for x in walk(st) if x.get("k") == "chr" and const_int(x) is not None]
            ok = bool(calls)
            why = "operand rendered into a buffer and inspected"
            if direct:
                seps = [l for l in lits if l and (l.endswith(" ") or l.endswith("("))]
                ok = bool(seps)
                why = "operand written straight to the stream after %s" % (("the separator %r" % seps[0]) if seps else "the bare sign")
            else:
                tests = [y for st in stmts for y in walk(st) if y.get("k") == "if"]
                ok = ok and bool(tests)
                why += "" if tests else " - but never tested"
            ctx.ob("R06.11", "output|%s|sign-kept-apart" % "+".join(hit), ok, fn.loc(stmts[0]), why)
    ctx.floor("R06.11", "sign arms of the unary printer", n, 1)


def scope_peels_const_and_typedef_together(ctx):
    """R06.12: `typename C::value_type` is resolved by looking `value_type` up in the scope of the class C names.  C may
    be written through any stack of typedef and const layers (`const TraitsAlias`, a typedef of a const type, ...);
    CPPScope::find_scope - both overloads, the plain one and the one used while a template is instantiated - reduces the
    type with ONE loop that continues while the type is const OR a typedef.  Peeling "typedefs, then one const" misses
    `const <typedef-name>`; the dependent name then stays unresolved and the member is printed with the template
    parameter's spelling.  (Seed S6-C06.)"""
    db = ctx.db
    ctx.rule("R06.12", "in every CPPScope::find_scope overload each step that strips a typedef (->_type) or a const (->_wrapped_around) from the type found sits in a loop whose condition tests for both ST_typedef and ST_const")
    n = 0
    for f in db.fns("CPPScope::find_scope"):
        loops = [lp for lp in f.walk() if lp.get("k") in ("while", "for", "do")]
        for y in f.walk():
            t = assigned_target(y)
            if not t:
                continue
            kinds = set()
            for z in walk(t[1]):
                if z.get("k") == "mem":
                    nm = z.get("n") or ""
                    if nm.endswith("CPPTypedefType::_type"):
                        kinds.add("typedef")
                    elif nm.endswith("CPPConstType::_wrapped_around"):
                        kinds.add("const")
            if not kinds:
                continue
            n += 1
            ok = False
            for lp in loops:
                if not any(x is y for x in walk(lp.get("body") or {})):
                    continue
                names = {(z.get("n") or "").split("::")[-1] for z in walk(lp.get("c") or {}) if z.get("k") == "ref" and z.get("dk") == "enumc"}
                if {"ST_const", "ST_typedef"} <= names:
                    ok = True
            ctx.ob("R06.12", "CPPScope::find_scope(%d)|strip-%s|in-joint-loop" % (len(f.params), "+".join(sorted(kinds))), ok, f.loc(y),
                   "`%s` is %sinside a loop that runs while the type is const or a typedef" % (show(y)[:60], "" if ok else "NOT "))
    ctx.floor("R06.12", "const/typedef stripping steps in find_scope", n, 4)


def _cmp_side(n):
    """(root, member path, deref?) of one operand of a comparison: root is 'this' / the name of a local / None."""
    n = strip_casts(peel(n)) if n is not None else None
    deref = False
    while n is not None and n.get("k") == "un" and n.get("op") == "*":
        deref = True
        n = strip_casts(peel(n.get("e")))
    path = []
    while n is not None and n.get("k") == "mem":
        path.append((n.get("n") or "").split("::")[-1])
        n = strip_casts(peel(n.get("b")))
    if not path or n is None:
        return None
    root = "this" if n.get("k") == "this" else (n.get("n") if n.get("k") == "ref" else None)
    if root is None:
        return None
    return root, ".".join(reversed(path)), deref


def comparisons_pair_this_with_other(ctx):
    """R06.13 / R06.14: new_type() merges what is_less()/is_equal() cannot tell apart.  Two ways a comparison can be
    present and still tell nothing apart: (R06.13) it compares a member with ITSELF (`*_u._op._op3 == *_u._op._op3`)
    or with a different member of the other object; (R06.14) in is_less the guard and the ordering disagree about
    depth - `if (a != b) return *a < *b` with a POINTER guard makes two structurally equal operands "unequal", the deep
    `<` then answers false both ways and the pair is equivalent whatever the remaining members are.
    (Seeds S7-C07, S7-C06.)"""
    db = ctx.db
    ctx.rule("R06.13", "in the is_equal()/is_less() of every comparable parser class, a comparison whose operands are both member paths pairs the member of *this with the SAME member of the other object")
    ctx.rule("R06.14", "in is_less(), `if (X != Y) return X' < Y'` uses the same depth on both lines: a dereferenced ordering is guarded by a dereferenced inequality")
    n13 = n14 = 0
    for f in db.functions:
        if "/cppparser/" not in f.file or f.name.split("::")[-1] not in ("is_equal", "is_less"):
            continue
        cls = f.name.split("::")[0]
        for c in f.walk():
            sides = None
            op = None
            if c.get("k") == "call" and c.get("opc") and callee_short(c) in ("operator==", "operator!=", "operator<") and len(c.get("a", [])) == 2:
                sides = (c["a"][0], c["a"][1])
                op = callee_short(c)[8:]
            elif c.get("k") == "bin" and c.get("op") in ("==", "!=", "<"):
                sides = (c["x"], c["y"])
                op = c["op"]
            if sides is None:
                continue
            a, b = _cmp_side(sides[0]), _cmp_side(sides[1])
            if a is None or b is None:
                continue
            n13 += 1
            ok = a[1] == b[1] and a[0] != b[0] and "this" in (a[0], b[0])
            ctx.ob("R06.13", "%s|%s %s|pairs-this-with-other" % (f.name, a[1], op), ok, f.loc(c),
                   "`%s` compares %s.%s with %s.%s" % (show(c)[:70], a[0], a[1], b[0], b[1]))
        if f.name.endswith("is_less"):
            for n in f.walk():
                if n.get("k") != "if" or n.get("c") is None:
                    continue
                g = strip_casts(peel(n["c"]))
                gs = None
                if g is not None and g.get("k") == "call" and g.get("opc") and callee_short(g) == "operator!=" and len(g.get("a", [])) == 2:
                    gs = (g["a"][0], g["a"][1])
                elif g is not None and g.get("k") == "bin" and g.get("op") == "!=":
                    gs = (g["x"], g["y"])
                if gs is None:
                    continue
                ga, gb = _cmp_side(gs[0]), _cmp_side(gs[1])
                if ga is None or gb is None:
                    continue
                for r in walk(n.get("then") or {}):
                    if r.get("k") != "ret" or r.get("e") is None:
                        continue
                    nearest = next((a for a in f.ancestors(r) if a.get("k") == "if"), None)
                    if nearest is not n:
                        continue        # guarded more closely by a nested test, judged there
                    e = strip_casts(peel(r["e"]))
                    rs = None
                    if e is not None and e.get("k") == "call" and e.get("opc") and callee_short(e) == "operator<" and len(e.get("a", [])) == 2:
                        rs = (e["a"][0], e["a"][1])
                    elif e is not None and e.get("k") == "bin" and e.get("op") == "<":
                        rs = (e["x"], e["y"])
                    if rs is None:
                        continue
                    ra, rb = _cmp_side(rs[0]), _cmp_side(rs[1])
                    if ra is None or rb is None or ra[1] != ga[1]:
                        continue
                    n14 += 1
                    ok = (ra[2] == ga[2]) and (rb[2] == gb[2])
                    ctx.ob("R06.14", "%s|%s|guard-and-order-same-depth" % (f.name, ga[1]), ok, f.loc(n),
                           "guard `%s` (%s) / order `%s` (%s)" % (show(n["c"])[:50], "deep" if ga[2] else "by address", show(r["e"])[:50], "deep" if ra[2] else "by address"))
    ctx.floor("R06.13", "member-to-member comparisons in is_equal/is_less", n13, 60)
    ctx.floor("R06.14", "guarded orderings in is_less", n14, 15)


def function_scopes_hang_under_the_declarators_scope(ctx):
    """R06.15: while a function's parameter list, trailing return type or constructor initialisers are parsed, names are
    looked up in a scope the grammar makes for the function.  For `auto S::make(int) -> Item *` (valid C++) `Item` is a
    member of S: the new scope's parent must be the scope the declarator names (`$n->get_scope(current_scope,
    global_scope)`), with current_scope only added to `_using` for template parameters.  Every action that builds such
    a scope - recognised by that `_using.insert(current_scope)` - must take its parent from the declarator; with
    current_scope as parent the insert would be pointless, which is the contradiction this rule looks for.
    (Seed S8-C06: the trailing-return-type site parented to current_scope; its four siblings kept the declarator's scope.)"""
    db = ctx.db
    ctx.rule("R06.15", "in the generated parser, a `new CPPScope(P, ...)` whose `_using` receives current_scope has P = <value-stack item>->get_scope(current_scope, global_scope)")
    fs = [g for g in db.functions if g.file.endswith("cppBison.cxx") and g.name.endswith("yyparse")]
    if not fs:
        ctx.broken("R06.15: generated parser not found")
        return
    f = fs[0]
    made = {}       # local decl id -> (ctor node, site)
    for y in f.walk():
        if y.get("k") == "decls":
            for dd in y["d"]:
                init = strip_casts(peel(dd.get("init"))) if dd.get("init") is not None else None
                if init is not None and init.get("k") == "new" and init.get("ty") == "CPPScope":
                    made[dd["d"]] = (init, y, dd.get("n"))
    n = 0
    for c in f.walk():
        if not (c.get("k") == "call" and callee_short(c) == "insert" and "this" in c and c.get("a")):
            continue
        t = strip_casts(peel(c["this"]))
        if not (t is not None and t.get("k") == "mem" and (t.get("n") or "").endswith("CPPScope::_using")):
            continue
        owner = local_ref(t.get("b"))
        arg = strip_casts(peel(c["a"][0]))
        if owner is None or owner.get("d") not in made or not (arg is not None and arg.get("k") == "ref" and arg.get("n") == "current_scope"):
            continue
        n += 1
        new, site, name = made[owner["d"]]
        ctor = strip_casts(peel(new.get("e"))) if new.get("e") is not None else None
        a0 = strip_casts(peel(ctor["a"][0])) if ctor is not None and ctor.get("a") else None
        ok = a0 is not None and a0.get("k") == "call" and callee_short(a0) == "get_scope" and "yyvsp" in show(a0.get("this") or {})
        ctx.ob("R06.15", "yyparse|function-scope#%d|parent-is-the-declarators-scope" % n, ok, "src/cppparser/cppBison.yxx (generated line %s)" % f.loc(site).split(":")[-1],
               "parent = %s" % (show(a0)[:80] if a0 is not None else "?"))
    ctx.floor("R06.15", "function scopes made by the grammar", n, 5)


def nullable_members_are_ordered_when_only_one_is_null(ctx, rid="R06.16", names=("::is_less",), floor=3):
    """R06.16: CPPType::new_type() interns types in a std::set ordered by is_less(); two types are ONE type if neither is
    less than the other.  Where a member pointer may be null (an array without a bound, a function type without an owner
    class) is_equal() says "different" when exactly one side is null - so is_less() must order that case too, with a
    return that compares the two pointers (or their nullness), not only the pointees when both exist.  Otherwise `T[]`
    and `T[4]` fall through to the element type, tie, and whichever was parsed first replaces the other.
    (Seed S9-C06: CPPArrayType::is_less lost its `(_bounds == nullptr) != (ot->_bounds == nullptr)` branch.)"""
    from . import gates as G
    db = ctx.db
    ctx.rule(rid, "in every is_less() of the parser's declaration classes, a member that the function tests against nullptr is also ordered at pointer level: some return compares the member of this with the member of the other object (or their nullness) without dereferencing")
    n = 0
    for f in db.functions:
        if not f.name.endswith(tuple(names)) or "/cppparser/" not in f.file:
            continue
        nullable = {}
        for y in f.walk():
            ca = G.cmp_atom(y) if y.get("k") == "bin" and y.get("op") in ("==", "!=") else None
            if not ca:
                continue
            for u, v in ((ca[1], ca[2]), (ca[2], ca[1])):
                if u is not None and v is not None and (strip_casts(peel(v)) or {}).get("k") == "nullp":
                    fl = field_of(strip_casts(peel(u)))
                    if fl:
                        nullable.setdefault(fl, y)
        for fl, where in sorted(nullable.items()):
            n += 1
            ok = False
            for r in f.walk():
                if r.get("k") != "ret" or r.get("e") is None:
                    continue
                for b in walk(r["e"]):
                    if b.get("k") != "bin" or b.get("op") not in ("<", ">", "!=", "=="):
                        continue
                    x, y = strip_casts(peel(b["x"])), strip_casts(peel(b["y"]))
                    if x is not None and y is not None and x.get("k") == "mem" and y.get("k") == "mem" and x.get("n") == fl and y.get("n") == fl:
                        ok = True       # pointer-level comparison of the two members
                    for p_, q_ in ((x, y), (y, x)):
                        if p_ is not None and q_ is not None and p_.get("k") == "mem" and p_.get("n") == fl and q_.get("k") == "nullp":
                            ok = True   # `return ot->_m != nullptr;` style
            ctx.ob(rid, "%s|%s|ordered-when-one-side-is-null" % (f.name, fl.split("::")[-1]), ok, f.loc(where),
                   "a return orders the two objects by the pointers themselves" if ok else
                   "%s is tested against nullptr but no return orders an object that has it against one that has not" % fl.split("::")[-1])
    ctx.floor(rid, "nullable members in ordering functions", n, floor)


def _masked_member_comparisons(f):
    out = []
    for y in f.walk():
        if y.get("k") == "bin" and y.get("op") in ("==", "!=", "<", ">", "<=", ">="):
            for side in (y.get("x"), y.get("y")):
                s0 = strip_casts(peel(side)) if side is not None else None
                if s0 is not None and s0.get("k") == "bin" and s0.get("op") in ("&", "|", ">>", "<<", "%", "/") and any(z.get("k") == "mem" for z in walk(s0)):
                    out.append(y)
                    break
    return out


def identity_compares_whole_members(ctx):
    """R06.17: is_equal()/is_less() decide which types are ONE type for CPPType::new_type().  A comparison that looks at a
    member only through a mask (`_flags & ~F_signed`) declares every bit outside the mask irrelevant to identity - for
    every type the class can represent.  `signed` is redundant for int; for char it is the whole difference between
    `char` and `signed char`.  The identity functions of the parser's classes compare members whole.  (Seed S10-C06.)"""
    db = ctx.db
    ctx.rule("R06.17", "no comparison in an is_equal()/is_less() of the parser's declaration classes takes a member through a mask, shift or division")
    probe_fn = type("P", (), {"walk": lambda self: [{"k": "bin", "op": "==", "x": {"k": "bin", "op": "&", "x": {"k": "mem", "n": "C::_flags"}, "y": {"k": "int", "v": 3}}, "y": {"k": "int", "v": 0}}]})()
    if len(_masked_member_comparisons(probe_fn)) != 1:
        ctx.broken("R06.17: the detector no longer recognises its own example")
    n = 0
    for f in db.functions:
        if "/cppparser/" not in f.file or not (f.name.endswith("::is_equal") or f.name.endswith("::is_less")):
            continue
        n += 1
        bad = _masked_member_comparisons(f)
        ctx.ob("R06.17", "%s|whole-members" % f.name, not bad, f.loc(bad[0]) if bad else f.loc(),
               "members are compared whole" if not bad else "`%s`: part of the member is excluded from the type's identity" % show(bad[0])[:70])
    ctx.floor("R06.17", "identity functions examined", n, 25)


def pointer_members_are_compared_by_value_too(ctx):
    """R06.18: a pointer member that takes part in a type's identity must be able to tell two DIFFERENT non-null values
    apart.  `if ((m == nullptr) != (ot->m == nullptr)) return m < ot->m;` orders "has one" against "has none" and then
    lets any two types that both have one tie.  For every pointer member that an is_equal()/is_less() of the parser's
    classes mentions, some comparison of the member of this with the member of the other object (the pointers, or the
    pointees) stands outside a "nullness differs" branch.  (Seed S11-C06: the default type of a template type parameter
    compared by presence only; a later template silently inherited an earlier template's default argument.)"""
    from . import gates as G
    db = ctx.db
    ctx.rule("R06.18", "in every is_equal()/is_less() of the parser's declaration classes, each pointer member mentioned is compared with the other object's (pointer or pointee) somewhere outside a branch taken only when exactly one of the two is null")

    def member_of(n):
        n = strip_casts(peel(n)) if n is not None else None
        if n is not None and n.get("k") == "un" and n.get("op") == "*":
            n = strip_casts(peel(n.get("e")))
        if n is not None and n.get("k") == "call" and callee_short(n) in ("operator*",) and n.get("a"):
            n = strip_casts(peel(n["a"][0]))
        if n is not None and n.get("k") == "mem" and (n.get("t") or "").rstrip().endswith("*"):
            b = strip_casts(peel(n.get("b")))
            return n.get("n"), (b is not None and b.get("k") == "this")
        return None, None

    def nullness_differs(c):
        c = strip_casts(peel(c)) if c is not None else None
        if c is None or c.get("k") != "bin" or c.get("op") not in ("!=", "^"):
            return False
        def is_null_test(x):
            x = strip_casts(peel(x)) if x is not None else None
            ca = G.cmp_atom(x) if x is not None and x.get("k") == "bin" else None
            return bool(ca) and any((strip_casts(peel(z)) or {}).get("k") == "nullp" for z in ca[1:] if z is not None)
        return is_null_test(c.get("x")) and is_null_test(c.get("y"))
    n = 0
    for f in db.functions:
        if "/cppparser/" not in f.file or not (f.name.endswith("::is_equal") or f.name.endswith("::is_less")):
            continue
        mentioned = {}
        for y in f.walk():
            if y.get("k") == "mem" and (y.get("t") or "").rstrip().endswith("*") and (y.get("n") or "").split("::")[-1].startswith("_"):
                b = strip_casts(peel(y.get("b")))
                if b is not None and b.get("k") == "this":
                    mentioned.setdefault(y["n"], y)
        for m, where in sorted(mentioned.items()):
            comps = []
            for y in f.walk():
                x_, y_ = None, None
                if y.get("k") == "bin" and y.get("op") in ("==", "!=", "<", ">"):
                    x_, y_ = y.get("x"), y.get("y")
                elif y.get("k") == "call" and callee_short(y) in ("operator==", "operator!=", "operator<") and (len(y.get("a", [])) == 2 or ("this" in y and y.get("a"))):
                    ops = ([y["this"]] if "this" in y else []) + list(y["a"])
                    x_, y_ = ops[0], ops[1]
                if x_ is None:
                    continue
                (m1, t1), (m2, t2) = member_of(x_), member_of(y_)
                if m1 == m and m2 == m and t1 != t2:
                    comps.append(y)
            if not comps:
                continue        # the member is only read for another purpose
            n += 1
            free = []
            for c in comps:
                gated = False
                for a in f.ancestors(c):
                    if a.get("k") == "if" and any(z is c for z in walk(a.get("then") or {})) and nullness_differs(a["c"]):
                        gated = True
                if not gated:
                    free.append(c)
            ctx.ob("R06.18", "%s|%s|compared-by-value" % (f.name, m.split("::")[-1]), bool(free), f.loc(where),
                   "two different non-null values of %s are told apart" % m.split("::")[-1] if free else
                   "%s is compared only where exactly one side is null: two objects that both have one tie" % m.split("::")[-1])
    ctx.floor("R06.18", "pointer members compared in identity functions", n, 20)


def defaults_see_the_arguments_filled_in_so_far(ctx):
    """R06.19: a default template argument may name every earlier parameter - given explicitly or itself defaulted
    (`template<int N, int M = N*2, int K = M+1>`).  CPPTemplateParameterList::build_subst_decl() fills one substitution map:
    every substitute_decl() it calls to instantiate a default must be handed THAT map (the one its insert() calls write
    to), not a copy taken earlier.  (Seed S12-C06: non-type defaults were substituted against a snapshot `given`; `K`
    printed as `(M + 1)`.)"""
    db = ctx.db
    ctx.rule("R06.19", "in build_subst_decl every default is substituted with the map that the filled-in arguments are inserted into")
    fs = [g for g in db.functions if g.name.endswith("CPPTemplateParameterList::build_subst_decl")]
    if not fs:
        ctx.broken("R06.19: CPPTemplateParameterList::build_subst_decl not found")
        return
    f = fs[0]
    sinks = set()
    for c in f.walk():
        if c.get("k") == "call" and (c.get("f") or "").endswith("::insert"):
            t = peel(c.get("this") or {})
            if t.get("k") == "ref":
                sinks.add((t.get("n"), t.get("d")))
    n = 0
    for c in f.walk():
        if c.get("k") != "call" or not callee_short(c).startswith("substitute_"):
            continue
        a = c.get("a") or []
        if not a:
            continue
        n += 1
        m = strip_casts(a[0])
        ok = m is not None and m.get("k") == "ref" and (m.get("n"), m.get("d")) in sinks and m.get("dk") == "param"
        ctx.ob("R06.19", "build_subst_decl|%s@%s|live-map" % (callee_short(c), f.loc(c).split(":")[-1]), ok, f.loc(c),
               "substituted with the map being filled" if ok else "substituted with `%s`, which is not the map the arguments are inserted into" % show(a[0]))
    ctx.floor("R06.19", "substitutions of default template arguments", n, 2)
    ctx.floor("R06.19", "maps filled by build_subst_decl", len(sinks), 1)
