"""C19 — a failed or incomplete output write gives a non-zero exit status.

Typestate analysis of every std::ofstream local of the two main()s over all
CFG paths (so over every fault point at once):

  o1  the result of open_write(S) is tested and the failure edge forces a
      non-zero exit status;
  o2  on every path from a write to S to a possibly-zero exit there is a
      close()/flush() of S followed by a failure test of S (a test before the
      flush does not count: the destructor's implicit flush loses errors);
  o3  once a failure edge was taken, every reachable exit is non-zero
      (exit(k) with k != 0, return of a non-zero constant, or `return status`
      with status assigned a non-zero constant on every path and not reset).

Not decided: that libstdc++ sets failbit/badbit on every failing write(2)/
close(2) (trusted base).
"""
from ..facts import peel, strip_casts, show, walk, cond_atom
from .common import callee_short, const_int, local_ref, assigned_target, field_of

LEVEL = "proof"
EXPLANATION = ("Stream typestate (unopened/opened/dirty/flushed/checked/failed) and exit-status must-analysis over every CFG path of "
               "interrogate.cxx main and interrogate_module.cxx main; obligations = streams x {o1,o2} + failure edges (o3).")
TRUSTED = ["clang 14 CFG (trivially false edges pruned)", "libstdc++ reports write/close failures through failbit/badbit",
           "Filename::open_write returns false / leaves the stream failed when the file cannot be opened"]
ASSUMPTIONS = ["functions receiving the stream by reference only write to it (they do not clear its error state)"]

MAINS = [("interrogate.cxx", 3), ("interrogate_module.cxx", 1)]

TEST_FAIL_TRUE = ("fail", "bad", "operator!")
TEST_FAIL_FALSE = ("good", "operator bool", "is_open")


def _is_ofstream(t):
    return "ofstream" in (t or "")


class StreamInfo:
    def __init__(self, decl):
        self.decl = decl
        self.d = decl["d"]
        self.name = decl["n"]
        self.aliases = set()


def _refers(n, S):
    """n denotes stream S: ref S, &S, *alias, alias."""
    n = peel(n)
    while n is not None and n.get("k") == "un" and n.get("op") in ("&", "*"):
        n = peel(n["e"])
    if n is not None and n.get("k") == "ref" and (n.get("d") == S.d or n.get("d") in S.aliases):
        return True
    return False


def _leftmost_stream(n):
    n = peel(n)
    while n is not None and n.get("k") == "call" and n.get("opc") and callee_short(n) == "operator<<" and len(n.get("a", [])) == 2:
        n = peel(n["a"][0])
    return n


def classify_elem(fn, n, S):
    """-> 'open' | 'write' | 'flush' | None for one CFG element (a call)."""
    if n is None or n.get("k") not in ("call", "ctor"):
        return None
    short = callee_short(n)
    if short == "open_write" and any(_refers(a, S) for a in n.get("a", [])):
        return "open"
    if short == "open" and "this" in n and _refers(n["this"], S):
        return "open"
    if "this" in n and _refers(n["this"], S):
        if short == "close":
            return "close"
        if short == "flush":
            return "flush"
        if short in TEST_FAIL_TRUE or short in TEST_FAIL_FALSE or short in ("rdstate", "eof", "tellp", "clear"):
            return None
        return "write"      # write(), put(), ...
    if n.get("opc") and short == "operator<<":
        if len(n.get("a", [])) == 2 and _refers(_leftmost_stream(n), S):
            # only the outermost position matters; every link is a write anyway
            return "write"
        return None
    if n.get("opc") and short in ("operator!", "operator bool"):
        return None
    for a in n.get("a", []):
        if _refers(a, S):
            return "write"
    return None


def test_kind(fn, cond, S):
    """'bad' if the test only looks at badbit (S.bad()), else 'fail' (fail(), !S, good(), …)."""
    atom, pos = cond_atom(fn, cond)
    if atom is not None and atom.get("k") == "call" and callee_short(atom) == "bad":
        return "bad"
    return "fail"


def test_on(fn, cond, S):
    """If the branch condition tests S (or the open_write(S) result):
       returns index of the *failure* edge (0 = true edge, 1 = false edge)."""
    atom, pos = cond_atom(fn, cond)
    if atom is None:
        return None
    if _refers(atom, S) and atom.get("k") == "ref":
        # `if (S)` / `if (!S)` (cond_atom already folded operator! into the polarity)
        return 1 if pos else 0
    if atom.get("k") == "call":
        short = callee_short(atom)
        if short == "open_write" and any(_refers(a, S) for a in atom.get("a", [])):
            # open_write() true = success
            return 1 if pos else 0
        obj = atom.get("this") or (atom["a"][0] if atom.get("a") else None)
        if obj is not None and _refers(obj, S):
            if short in ("fail", "bad"):
                return 0 if pos else 1
            if short in ("good", "operator bool", "is_open"):
                return 1 if pos else 0
            if short == "operator!":
                return 0 if pos else 1
    return None


def exits(fn):
    """[(block id, pos, kind, node)] for return statements and exit()/_exit()/abort() calls."""
    out = []
    cfg = fn.cfg
    for bid, b in cfg.blocks.items():
        for pos, e in enumerate(b.elems):
            n = fn.nodes.get(e)
            if n is None:
                continue
            if n.get("k") == "ret":
                out.append((bid, pos, "ret", n))
            elif n.get("k") == "call" and n.get("f") in ("exit", "_exit", "std::exit", "quick_exit", "_Exit"):
                out.append((bid, pos, "exit", n))
            elif n.get("k") == "call" and n.get("f") in ("abort", "std::abort"):
                out.append((bid, pos, "abort", n))
    return out


def status_var(fn):
    for n in fn.walk():
        if n.get("k") == "ret" and n.get("e") is not None:
            r = local_ref(strip_casts(n["e"]))
            if r is not None and r.get("dk") == "local":
                return r["d"], r["n"]
    return None, None


def exit_status(fn, kind, node, sv, status_set):
    """'nonzero' | 'zero' | 'maybe' for an exit given whether status var is known non-zero."""
    if kind == "abort":
        return "nonzero"
    e = node.get("e") if kind == "ret" else (node["a"][0] if node.get("a") else None)
    if e is None:
        return "zero" if kind == "ret" else "maybe"
    c = const_int(e)
    if c is not None:
        return "nonzero" if c != 0 else "zero"
    r = local_ref(strip_casts(e))
    if r is not None and r.get("d") == sv:
        return "nonzero" if status_set else "maybe"
    return "maybe"


def status_effect(fn, n, sv):
    """Effect of one element on 'status var known non-zero': True / False / None (no effect)."""
    t = assigned_target(n) if n is not None else None
    if t:
        l = local_ref(t[0])
        if l is not None and l.get("d") == sv:
            c = const_int(t[1])
            return bool(c is not None and c != 0)
    if n is not None and n.get("k") == "bin" and n.get("op") in ("|=", "+=", "-=", "&=", "^=", "*="):
        l = local_ref(n["x"])
        if l is not None and l.get("d") == sv:
            return False
    if n is not None and n.get("k") == "un" and n.get("op") in ("++", "--", "post++", "post--"):
        l = local_ref(n["e"])
        if l is not None and l.get("d") == sv:
            return False
    return None


def failure_forces_nonzero(fn, start_block, sv):
    """Must-analysis from a failure edge target: every reachable exit is non-zero.
    Returns (ok, offending exit description)."""
    cfg = fn.cfg
    ex = {}
    for bid, pos, kind, node in exits(fn):
        ex.setdefault(bid, []).append((pos, kind, node))
    # state: True = status known non-zero.  meet = AND.
    state_in = {start_block: False}
    work = [start_block]
    bad = None
    visited_out = {}
    while work:
        bid = work.pop()
        st = state_in[bid]
        b = cfg.blocks[bid]
        ended = False
        evs = sorted(ex.get(bid, []), key=lambda x: x[0])
        for pos, e in enumerate(b.elems):
            n = fn.nodes.get(e)
            eff = status_effect(fn, n, sv)
            if eff is not None:
                st = eff
            for (p, kind, node) in evs:
                if p == pos:
                    s = exit_status(fn, kind, node, sv, st)
                    if s != "nonzero":
                        bad = bad or (node, s)
                    ended = True
            if ended:
                break
        if ended or b.noret:
            continue
        for s in b.succs:
            if s is None:
                continue
            if s == cfg.exit:
                # falling off the end of main returns 0
                if not any(True for _ in ex.get(bid, [])):
                    bad = bad or (None, "zero")
                continue
            new = st if s not in state_in else (state_in[s] and st)
            if s not in state_in or new != state_in[s]:
                state_in[s] = new
                work.append(s)
    return bad is None, bad


def run(ctx):
    db = ctx.db
    ctx.rule("R19.o1", "the result of opening an output stream is tested and the failure edge forces a non-zero exit status")
    ctx.rule("R19.o2", "after the last write to an output stream, on every path to a possibly-zero exit, the stream is closed/flushed and then tested for failure")
    ctx.rule("R19.o3", "every failure edge of a stream test reaches only non-zero exits")
    ctx.rule("R19.b", "no output bypasses the stream's error state: nothing in the generators, the database or their I/O helpers (dtoolbase/dtoolutil included: indent()) writes through rdbuf()/sputn()/sputc() or a std::ostreambuf_iterator, whose failures do not set badbit and are therefore invisible to the tests of o2")
    ctx.rule("R19.dead", "a stream whose open is unreachable stays unreachable (else it is subject to o1-o3)")
    total_streams = 0
    for fname, want in MAINS:
        fn = db.fn("main", file_contains="/interrogate/" + fname)
        cfg = fn.cfg
        sv, svname = status_var(fn)
        reach = cfg.reachable()
        streams = []
        for n in fn.walk():
            if n.get("k") == "decls":
                for d in n["d"]:
                    if _is_ofstream(d.get("ct")) and "*" not in d.get("t", ""):
                        streams.append(StreamInfo(d))
        # pointer aliases:  p = &S
        for n in fn.walk():
            t = assigned_target(n)
            if t:
                l = local_ref(t[0])
                r = peel(t[1])
                loc_ = cfg.locate(n)
                if loc_ is None or loc_[0] not in reach:
                    continue   # an alias established only on an unreachable path is no alias
                if l is not None and r is not None and r.get("k") == "un" and r.get("op") == "&":
                    rr = local_ref(r["e"])
                    for S in streams:
                        if rr is not None and rr.get("d") == S.d:
                            S.aliases.add(l["d"])
        live = 0
        for S in streams:
            # events per block
            ev = {}
            opens = []
            for bid, b in cfg.blocks.items():
                lst = []
                for pos, e in enumerate(b.elems):
                    n = fn.nodes.get(e)
                    k = classify_elem(fn, n, S)
                    if k:
                        lst.append((pos, k, n))
                        if k == "open":
                            opens.append((bid, n))
                ev[bid] = lst
            reach_opens = [(bid, n) for bid, n in opens if bid in reach]
            inst = "%s::main|%s" % (fname, S.name)
            if not reach_opens:
                any_reach = any(ev[bid] for bid in reach)
                ctx.ob("R19.dead", inst + "|unreachable", not any_reach, fn.loc(S.decl.get("init") or fn.body),
                       "stream %s is never opened on a reachable path%s" % (S.name, "" if not any_reach else " but is written on one"))
                continue
            live += 1
            total_streams += 1
            # ---- typestate may-analysis
            # state = (phase, tested)   phase in U O D F C X
            start = ("U", False)
            st_in = {cfg.entry: {start}}
            work = [cfg.entry]
            ex = {}
            for bid, pos, kind, node in exits(fn):
                ex.setdefault(bid, []).append((pos, kind, node))
            viol_o2 = []
            viol_o1 = []
            fail_edges = []
            it = 0
            while work:
                it += 1
                if it > 20000:
                    ctx.broken("typestate analysis did not converge")
                bid = work.pop()
                b = cfg.blocks[bid]
                states = set(st_in[bid])
                evs = {p: (k, n) for p, k, n in ev[bid]}
                exs = {p: (k, n) for p, k, n in ex.get(bid, [])}
                ended = False
                for pos, e in enumerate(b.elems):
                    if pos in evs:
                        k, n = evs[pos]
                        new = set()
                        for ph, tested in states:
                            if k == "open":
                                new.add(("O", False))
                            elif k == "write":
                                new.add((("D" if ph in ("O", "D", "F", "K", "C", "G") else ph), tested))
                            elif k == "flush":
                                new.add((("F" if ph == "D" else ph), tested))
                            elif k == "close":
                                # a failing close() sets failbit only: bad() cannot see it
                                new.add((("K" if ph in ("D", "F", "G") else ph), tested))
                        states = new
                    if pos in exs:
                        kind, node = exs[pos]
                        status = exit_status(fn, kind, node, sv, False)
                        if status != "nonzero":
                            for ph, tested in states:
                                if ph in ("D", "F", "K", "G"):
                                    viol_o2.append((node, ph))
                                if ph in ("O", "D", "F", "K", "C", "G") and not tested:
                                    viol_o1.append(node)
                        ended = True
                        break
                if ended or b.noret:
                    continue
                fe = test_on(fn, fn.nodes[b.cond], S) if (b.cond is not None and len(b.succs) == 2 and b.cond in fn.nodes) else None
                tk = test_kind(fn, fn.nodes[b.cond], S) if fe is not None else None
                for idx, s in enumerate(b.succs):
                    if s is None:
                        continue
                    out = set(states)
                    if fe is not None:
                        if idx == fe:
                            out = {("X", True)} if any(ph != "U" for ph, _ in states) else {(ph, True) for ph, _ in states}
                            fail_edges.append((bid, idx, s))
                        else:
                            # fail()/!S/good() observe failbit and badbit; bad() observes only badbit,
                            # which is enough after flush() but not after close()
                            # tested after flush() only: the data has reached the kernel, but the file is still
                            # open - the close(2) issued by the destructor can fail (EIO, ENOSPC on NFS, quota) and its
                            # result is discarded.  "G" = flushed and tested, not closed.
                            out = {(("G" if ph == "F" else ("C" if (ph == "K" and tk == "fail") else ph)), True) for ph, _ in states}
                    if s == cfg.exit:
                        # implicit return 0 at the end of main
                        if not ex.get(bid):
                            for ph, tested in out:
                                if ph in ("D", "F", "K", "G"):
                                    viol_o2.append((None, ph))
                        continue
                    if s not in st_in or not out <= st_in[s]:
                        st_in[s] = st_in.get(s, set()) | out
                        work.append(s)
            site = fn.loc(reach_opens[0][1])
            ctx.ob("R19.o1", inst + "|open-tested", not viol_o1, fn.loc(viol_o1[0]) if viol_o1 else site,
                   "open of %s is tested on every path to a possibly-zero exit" % S.name if not viol_o1 else
                   "a possibly-zero exit is reachable after opening %s without testing the open" % S.name)
            if viol_o2:
                node, ph = viol_o2[0]
                ctx.ob("R19.o2", inst + "|flush-then-test-after-last-write", False, fn.loc(node) if node else fn.loc(),
                       "exit reachable with %s %s (no %s after the last write)" % (
                           S.name, "written but not flushed" if ph == "D" else ("closed but only bad() was tested (a failed close() sets failbit, which bad() does not report)" if ph == "K" else ("flushed and tested but never closed: the close() done by the destructor can still fail and its result is discarded" if ph == "G" else "flushed but not tested")),
                           "close()/flush() + failure test" if ph == "D" else "fail()/!stream test"))
            else:
                ctx.ob("R19.o2", inst + "|flush-then-test-after-last-write", True, site,
                       "every write to %s is followed by close()/flush() and a failure test before any possibly-zero exit" % S.name)
            seen = set()
            if not fail_edges:
                ctx.ob("R19.o3", inst + "|has-failure-test", False, site, "no failure test of %s at all" % S.name)
            for bid, idx, s in fail_edges:
                if (bid, idx) in seen:
                    continue
                seen.add((bid, idx))
                ok, bad = failure_forces_nonzero(fn, s, sv)
                cnode = fn.nodes[cfg.blocks[bid].cond]
                what = "zero" if (bad and bad[1] == "zero") else "possibly zero"
                ctx.ob("R19.o3", inst + "|failure-edge|%s" % show(cnode).replace(" ", ""), ok, fn.loc(cnode),
                       "failure edge of `%s` reaches only non-zero exits" % show(cnode) if ok else
                       "failure edge of `%s` reaches an exit with %s status (%s)" % (show(cnode), what, show(bad[0]) if bad and bad[0] else "end of main"))
        ctx.floor("R19.o1", "reachable output streams in %s" % fname, live, want)
    ctx.floor("R19.o1", "output streams", total_streams, 4)
    no_streambuf_bypass(ctx)
    delivery_steps_are_checked(ctx)
    error_state_is_never_cleared(ctx)

def no_streambuf_bypass(ctx):
    """R19.b: o2 relies on `a failed write sets badbit/failbit on the ostream`.  That holds for operator<<, put() and
    write(); it does not hold for writes made directly on the stream buffer."""
    db = ctx.db
    n_fn = n_bad = 0
    for f in db.functions:
        if not any(d in f.file for d in ("/interrogate/", "/interrogatedb/", "/cppparser/", "/dtoolutil/", "/dtoolbase/")):
            continue
        n_fn += 1
        for c in f.walk():
            if c.get("k") == "call" and ((c.get("f") or "").startswith("std::basic_streambuf::") and callee_short(c) in ("sputn", "sputc", "xsputn", "sputbackc")):
                n_bad += 1
                ctx.ob("R19.b", "%s|%s" % (f.name, callee_short(c)), False, f.loc(c),
                       "`%s` writes on the stream buffer: a failure returns a short count and leaves the ostream's state good" % show(c)[:60])
            # an ostreambuf_iterator writes with sputc and records a failure only in ITSELF (failed()), not in the stream
            if c.get("k") in ("ctor", "call", "temp") and "ostreambuf_iterator" in ((c.get("f") or "") + (c.get("t") or "") + (c.get("ty") or "")) and c.get("k") == "ctor":
                n_bad += 1
                ctx.ob("R19.b", "%s|ostreambuf_iterator" % f.name, False, f.loc(c),
                       "`%s` writes through a stream-buffer iterator: a failed sputc is remembered by the iterator only, the ostream stays good" % show(c)[:60])
    ctx.ob("R19.b", "no-streambuf-writes", n_bad == 0, "src", "%d functions scanned, %d direct stream-buffer writes" % (n_fn, n_bad))
    ctx.floor("R19.b", "functions scanned", n_fn, 1500)



DELIVERY_CALLS = ("rename", "rename_to", "renameat", "copy_to", "link", "symlink", "move_to")


def _discarded_delivery_calls(f):
    out = []
    for c in f.walk():
        if c.get("k") == "call" and callee_short(c) in DELIVERY_CALLS:
            anc = list(f.ancestors(c))
            if not anc or anc[0].get("k") in ("block", "case", "default", "if", "for", "while", "forrange", "do") and not any(z is c for z in walk(anc[0].get("c") or {})):
                out.append(c)
    return out


def delivery_steps_are_checked(ctx):
    """R19.r: the exit status can only report what the program looked at.  The tools write their outputs in place and
    test the stream after close(); if an output is ever produced somewhere else and then MOVED to its requested name
    (rename, copy, link), that step is part of "writing the output": its result must be tested, or the stream checks
    cover a file nobody asked for.  (Seed S9-C19: interrogate_module wrote `<target>.tmp` and called rename() without
    looking at the result; `-oc <existing directory>` exited 0 with no module file.)"""
    db = ctx.db
    ctx.rule("R19.r", "in the tools' main() functions no rename/copy/link call has its result discarded")

    class _P:       # the detector sees the shape it looks for
        def __init__(self):
            self.c = {"k": "call", "f": "rename", "a": []}
            self.b = {"k": "block", "s": [self.c]}

        def walk(self):
            return [self.b, self.c]

        def ancestors(self, n):
            return [self.b] if n is self.c else []
    if len(_discarded_delivery_calls(_P())) != 1:
        ctx.broken("R19.r: the detector no longer recognises its own example")
    n = 0
    for f in db.functions:
        if not (f.name.split("::")[-1] == "main" and f.file.endswith(("interrogate.cxx", "interrogate_module.cxx", "parse_file.cxx"))):
            continue
        n += 1
        bad = _discarded_delivery_calls(f)
        ctx.ob("R19.r", "%s::main|delivery-results-tested" % f.file.split("/")[-1], not bad, f.loc(bad[0]) if bad else f.loc(),
               "no output is moved into place by a call whose result is ignored" if not bad else
               "the result of %s() is discarded: a failure to deliver the output is never seen" % callee_short(bad[0]))
    ctx.floor("R19.r", "main() functions of the tools", n, 3)


def _state_clears(f):
    out = []
    for c in f.walk():
        if c.get("k") != "call":
            continue
        fn = c.get("f") or ""
        if fn.endswith("basic_ios::clear") or fn.endswith("ios_base::clear") or (callee_short(c) == "clear" and "this" in c and "stream" in ((strip_casts(peel(c["this"])) or {}).get("t") or "")):
            out.append(("clear", c))
        if callee_short(c) == "setstate" and fn.startswith("std::"):
            continue
        if callee_short(c) == "operator<<" and any("streambuf" in ((strip_casts(peel(a)) or {}).get("t") or "") for a in c.get("a", [])[-1:]):
            out.append(("streambuf-insert", c))
    return out


def error_state_is_never_cleared(ctx):
    """R19.c: the exit status is derived from the stream's error state after close().  That only works if nothing resets
    the state in between, and if every insertion reports a failed write in it.  `out << in.rdbuf()` does not: when the
    sink fails it sets at most failbit (never badbit), it sets failbit for an EMPTY source too, and code that inserts a
    buffer therefore tends to clear failbit afterwards - taking the record of a real write failure with it.  No output
    stream of the tools is clear()ed and no stream buffer is inserted wholesale.  (Seed S11-C19: the function bodies
    streamed with rdbuf() followed by `clear(rdstate() & ~failbit)`.)"""
    db = ctx.db
    ctx.rule("R19.c", "in the tools and the generators no stream's error state is clear()ed and no `stream << streambuf*` insertion is made")

    class _P:
        def walk(self):
            return [{"k": "call", "f": "std::basic_ios::clear", "this": {"k": "ref", "t": "std::ostream &"}, "a": []}]
    if len(_state_clears(_P())) != 1:
        ctx.broken("R19.c: the detector no longer recognises its own example")
    n = 0
    for f in db.functions:
        if "/interrogate/" not in f.file:
            continue
        n += 1
        for kind, c in _state_clears(f):
            ctx.ob("R19.c", "%s|%s@%s" % (f.name, kind, f.loc(c).split(":")[-1]), False, f.loc(c),
                   "the stream's error state is reset: an earlier write failure is forgotten" if kind == "clear" else
                   "a stream buffer is inserted wholesale: a failing sink sets at most failbit, which callers of this idiom clear")
    ctx.ob("R19.c", "tools|error-state-kept", True, "src/interrogate", "%d functions examined" % n)
    ctx.floor("R19.c", "functions examined", n, 300)
