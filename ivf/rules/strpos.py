"""Shared rule R15.2 / R20.4: std::string position arguments that can exceed
the size.  Under -fno-exceptions a throwing substr/compare/erase/insert/
replace/at is abort().

Judged shapes only (the rest is enumerated as 'not judged'):
  (i)   position is an integer literal k > 0
  (ii)  position is X.size()/length() - k        (unsigned wrap when size < k)
  (iii) position is X.size() - Y.size()
Obligation: on every path to the call there is a test implying size >= k
(resp. X.size() >= Y.size()).  Recognised tests (edge polarity respected):
  X.size()|length() >= k, > k-1, == n>=k, != ... no;  < k / <= k-1 on the false edge;
  !X.empty() / X.empty() false edge (k = 1);
  X.substr(0, n) == "lit" with len(lit) >= k (a shorter string cannot compare equal);
  X[j] / X.at(j) comparisons do not count.
"""
from ..facts import peel, strip_casts, show, walk, cond_atom
from .common import callee_short, const_int

POS_METHODS = ("substr", "compare", "erase", "insert", "replace", "at")


_ALIAS = {}   # decl id -> X, for locals `n = X.size()` of the function being judged


def size_aliases(fn):
    """Locals initialised from X.size()/X.length() and never written again."""
    cand = {}
    for n in fn.walk():
        if n.get("k") == "decls":
            for d in n["d"]:
                i = strip_casts(d.get("init")) if d.get("init") else None
                if i is not None and i.get("k") == "call" and "this" in i and callee_short(i) in ("size", "length"):
                    cand[d["d"]] = show(peel(i["this"]))
    for n in fn.walk():
        tgt = None
        if n.get("k") == "bin" and n.get("op", "").endswith("=") and n.get("op") not in ("==", "!=", "<=", ">="):
            tgt = strip_casts(n["x"])
        elif n.get("k") == "un" and ("++" in n.get("op", "") or "--" in n.get("op", "")):
            tgt = strip_casts(n["e"])
        if tgt is not None and tgt.get("k") == "ref" and tgt.get("d") in cand:
            del cand[tgt["d"]]
    return cand


def _alias_of(fn, name):
    for d, x in size_aliases(fn).items():
        pass
    return None


def _size_call(n):
    """If n is X.size()/X.length() (or a local alias of it) return show(X)."""
    n = strip_casts(n)
    if n is not None and n.get("k") == "call" and "this" in n and callee_short(n) in ("size", "length"):
        return show(peel(n["this"]))
    if n is not None and n.get("k") == "ref" and n.get("d") in _ALIAS:
        return _ALIAS[n["d"]]
    return None


def classify_position(arg):
    """-> ('lit', k) | ('size-minus', X, k) | ('size-minus-size', X, Y) | None"""
    a = strip_casts(arg)
    if a is None:
        return None
    k = const_int(a)
    if k is not None:
        return ("lit", k)
    if a.get("k") == "bin" and a.get("op") == "-":
        x = _size_call(a["x"])
        if x is not None:
            k = const_int(a["y"])
            if k is not None:
                return ("size-minus", x, k)
            y = _size_call(a["y"])
            if y is not None:
                return ("size-minus-size", x, y)
    return None


def _implies_size_ge(atom, pos, X, k, Y=None):
    """Does taking the branch (atom is `pos`) imply size(X) >= k  (or size(X) >= size(Y))?"""
    if atom is None:
        return False
    kind = atom.get("k")
    # !X.empty()
    if kind == "call" and "this" in atom and callee_short(atom) == "empty" and show(peel(atom["this"])) == X:
        return (not pos) and Y is None and k <= 1
    ops = None
    a = b = None
    if kind == "bin" and atom.get("op") in ("<", "<=", ">", ">=", "==", "!="):
        ops, a, b = atom["op"], atom["x"], atom["y"]
    elif kind == "call" and atom.get("opc") and callee_short(atom) in ("operator==", "operator!=") and len(atom.get("a", [])) == 2:
        ops, a, b = callee_short(atom)[8:], atom["a"][0], atom["a"][1]
    if ops is None:
        return False
    if not pos:
        ops = {"<": ">=", "<=": ">", ">": "<=", ">=": "<", "==": "!=", "!=": "=="}[ops]
    sa, sb = _size_call(a), _size_call(b)
    if Y is not None:
        if sa == X and sb == Y:
            return ops in (">=", ">", "==")
        if sa == Y and sb == X:
            return ops in ("<=", "<", "==")
        return False
    ca, cb = const_int(a), const_int(b)
    if sa == X and cb is not None:
        return (ops == ">=" and cb >= k) or (ops == ">" and cb >= k - 1) or (ops == "==" and cb >= k)
    if sb == X and ca is not None:
        return (ops == "<=" and ca >= k) or (ops == "<" and ca >= k - 1) or (ops == "==" and ca >= k)
    # X.substr(0, n) == "literal"   /   X == "literal"
    if ops == "==":
        for u, v in ((a, b), (b, a)):
            u = strip_casts(u)
            v = strip_casts(v)
            if u is not None and u.get("k") in ("ref", "mem") and show(u) == X:
                lit = v
                if lit is not None and lit.get("k") == "ctor" and lit.get("a"):
                    lit = strip_casts(lit["a"][0])
                if lit is not None and lit.get("k") == "str" and lit.get("len", 0) >= k:
                    return True
            if u is not None and u.get("k") == "call" and callee_short(u) == "substr" and "this" in u and show(peel(u["this"])) == X:
                lit = v
                if lit is not None and lit.get("k") == "ctor" and lit.get("a"):
                    lit = strip_casts(lit["a"][0])
                if lit is not None and lit.get("k") == "str" and lit.get("len", 0) >= k:
                    return True
            # X.compare(0, n, "lit") == 0
            if u is not None and u.get("k") == "call" and callee_short(u) == "compare" and "this" in u and show(peel(u["this"])) == X and const_int(v) == 0:
                args = u.get("a", [])
                if len(args) == 3 and const_int(args[0]) == 0:
                    lit = strip_casts(args[2])
                    if lit is not None and lit.get("k") == "str" and lit.get("len", 0) >= k:
                        return True
    return False


def guard_edges(fn, X, k, Y=None):
    from . import gates as G
    _ALIAS.clear()
    _ALIAS.update(size_aliases(fn))
    return G.edges_where(fn, lambda atom, truth: _implies_size_ge(atom, truth, X, k, Y))


def judge_need(fn, node, X, k):
    """Is `node` dominated by a test implying X.size() >= k?"""
    edges = guard_edges(fn, X, k)
    loc = fn.cfg.locate(node)
    if loc is None:
        return True, "unreachable", None
    need = "%s.size() >= %d" % (X, k)
    ok = loc[0] not in fn.cfg.reachable(cut_edges=edges)
    return ok, ("guarded by a test implying %s" % need) if ok else ("no test implying %s dominates it" % need), need


def sites(fn):
    _ALIAS.clear()
    _ALIAS.update(size_aliases(fn))
    """Yield (call node, method, classification or None) for position-taking string calls."""
    for n in fn.walk():
        if n.get("k") == "call" and n.get("f", "").startswith("std::basic_string::") and callee_short(n) in POS_METHODS and "this" in n:
            a = n.get("a", [])
            if not a:
                continue
            first_param = n.get("s", "").split("(", 1)[-1].split(",")[0]
            if "size_type" not in first_param:
                continue
            yield n, callee_short(n), classify_position(a[0])


def judge(fn, call, cls):
    """-> (ok, description, need) for a classified site."""
    _ALIAS.clear()
    _ALIAS.update(size_aliases(fn))
    X = show(peel(call["this"]))
    if cls[0] == "lit":
        k = cls[1]
        if k <= 0:
            return True, "position 0", None
        need = "%s.size() >= %d" % (X, k)
        edges = guard_edges(fn, X, k)
    elif cls[0] == "size-minus":
        X2, k = cls[1], cls[2]
        need = "%s.size() >= %d" % (X2, k)
        edges = guard_edges(fn, X2, k)
    else:
        X2, Y = cls[1], cls[2]
        need = "%s.size() >= %s.size()" % (X2, Y)
        edges = guard_edges(fn, X2, 0, Y)
    loc = fn.cfg.locate(call)
    if loc is None:
        return True, "unreachable", need
    reach = fn.cfg.reachable(cut_edges=edges)
    ok = loc[0] not in reach
    return ok, ("guarded by a test implying %s" % need) if ok else ("no test implying %s dominates the call" % need), need
