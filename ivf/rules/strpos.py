"""Shared rule R15.2 / R20.4: std::string position arguments that can exceed
the size.  Under -fno-exceptions a throwing substr/compare/erase/insert/
replace/at is abort().

Judged shapes only (the rest is enumerated as 'not judged'):
  (i)   position is an integer literal k > 0
  (ii)  position is X.size()/length() - k        (unsigned wrap when size < k)
  (iii) position is X.size() - Y.size()
Obligation: on every path to the call there is a test implying size >= k
(resp. X.size() >= Y.size()).  Recognised tests (edge polarity respected):
  X.size()|length() >= k, > k-1, == n>=k, != ... no;  < k / <= k-1 on the false edge;
  !X.empty() / X.empty() false edge (k = 1);
  X.substr(0, n) == "lit" with len(lit) >= k (a shorter string cannot compare equal);
  X[j] / X.at(j) comparisons do not count.
"""
from ..facts import peel, strip_casts, show, walk, cond_atom
from .common import callee_short, const_int

POS_METHODS = ("substr", "compare", "erase", "insert", "replace", "at", "resize")
# resize(k) with a literal k only grows or truncates; it is judged only for size()-relative arguments, where the
# unsigned subtraction must not wrap


_ALIAS = {}   # decl id -> X, for locals `n = X.size()` of the function being judged
_SUBJ = {}    # decl id -> canonical subject, for locals `s = obj.accessor()` where accessor returns a field
_DB = [None]


def _trivial_accessor(f):
    """Field name F if the repo function's body is `return F;` / `return F.empty()|size()|length();` -> (F, method or None)."""
    db = _DB[0]
    if db is None:
        return None
    for g in db.fns(f):
        rets = [r for r in g.walk() if r.get("k") == "ret" and r.get("e") is not None]
        stm = g.body.get("s", []) if g.body else []
        if len(rets) != 1 or len(stm) != 1:
            continue
        e = strip_casts(rets[0]["e"])
        if e is not None and e.get("k") == "mem" and peel(e.get("b")) is not None and peel(e.get("b")).get("k") == "this":
            return (e["n"].split("::")[-1], None)
        if e is not None and e.get("k") == "call" and "this" in e and callee_short(e) in ("empty", "size", "length"):
            o = strip_casts(e["this"])
            if o is not None and o.get("k") == "mem" and peel(o.get("b")) is not None and peel(o.get("b")).get("k") == "this":
                return (o["n"].split("::")[-1], callee_short(e))
    return None


def _obj_name(o):
    o = peel(o)
    if o is None or o.get("k") == "this":
        return ""
    return show(o) + "."


def subject(n):
    """Canonical name of a string-valued expression (sees through field accessors and local copies of them)."""
    n = strip_casts(n)
    if n is None:
        return None
    if n.get("k") == "ref" and n.get("d") in _SUBJ:
        return _SUBJ[n["d"]]
    if n.get("k") == "call" and "this" in n and n.get("f") and not n["f"].startswith("std::"):
        ta = _trivial_accessor(n["f"])
        if ta and ta[1] is None:
            return _obj_name(n["this"]) + ta[0]
    return show(n)


def local_subjects(fn):
    out = {}
    for n in fn.walk():
        if n.get("k") == "decls":
            for d in n["d"]:
                i = strip_casts(d.get("init")) if d.get("init") else None
                while i is not None and i.get("k") == "ctor" and len(i.get("a", [])) == 1:
                    i = strip_casts(i["a"][0])
                if i is not None and i.get("k") == "call" and "this" in i and i.get("f") and not i["f"].startswith("std::"):
                    ta = _trivial_accessor(i["f"])
                    if ta and ta[1] is None:
                        out[d["d"]] = _obj_name(i["this"]) + ta[0]
    # drop locals that are written again
    for n in fn.walk():
        tgt = None
        if n.get("k") == "bin" and n.get("op", "").endswith("=") and n.get("op") not in ("==", "!=", "<=", ">="):
            tgt = strip_casts(n["x"])
        elif n.get("k") == "call" and n.get("opc") and callee_short(n) in ("operator=", "operator+=") and n.get("a"):
            tgt = strip_casts(n["a"][0])
        if tgt is not None and tgt.get("k") == "ref" and tgt.get("d") in out:
            del out[tgt["d"]]
    return out


def size_aliases(fn):
    """Locals initialised from X.size()/X.length() and never written again."""
    cand = {}
    for n in fn.walk():
        if n.get("k") == "decls":
            for d in n["d"]:
                i = strip_casts(d.get("init")) if d.get("init") else None
                if i is not None and i.get("k") == "call" and "this" in i and callee_short(i) in ("size", "length"):
                    cand[d["d"]] = show(peel(i["this"]))
    for n in fn.walk():
        tgt = None
        if n.get("k") == "bin" and n.get("op", "").endswith("=") and n.get("op") not in ("==", "!=", "<=", ">="):
            tgt = strip_casts(n["x"])
        elif n.get("k") == "un" and ("++" in n.get("op", "") or "--" in n.get("op", "")):
            tgt = strip_casts(n["e"])
        if tgt is not None and tgt.get("k") == "ref" and tgt.get("d") in cand:
            del cand[tgt["d"]]
    return cand


def _alias_of(fn, name):
    for d, x in size_aliases(fn).items():
        pass
    return None


def _size_call(n):
    """If n is X.size()/X.length() (or a local alias of it) return show(X)."""
    n = strip_casts(n)
    if n is not None and n.get("k") == "call" and "this" in n and callee_short(n) in ("size", "length"):
        if n.get("f", "").startswith("std::"):
            return subject(n["this"])
        ta = _trivial_accessor(n["f"])
        if ta and ta[1] in ("size", "length"):
            return _obj_name(n["this"]) + ta[0]
        return subject(n["this"])
    if n is not None and n.get("k") == "ref" and n.get("d") in _ALIAS:
        return _ALIAS[n["d"]]
    return None


def classify_position(arg):
    """-> ('lit', k) | ('size-minus', X, k) | ('size-minus-size', X, Y) | None"""
    a = strip_casts(arg)
    if a is None:
        return None
    k = const_int(a)
    if k is not None:
        return ("lit", k)
    if a.get("k") == "bin" and a.get("op") == "-":
        x = _size_call(a["x"])
        if x is not None:
            k = const_int(a["y"])
            if k is not None:
                return ("size-minus", x, k)
            y = _size_call(a["y"])
            if y is not None:
                return ("size-minus-size", x, y)
    return None


def _implies_size_ge(atom, pos, X, k, Y=None):
    """Does taking the branch (atom is `pos`) imply size(X) >= k  (or size(X) >= size(Y))?"""
    if atom is None:
        return False
    kind = atom.get("k")
    # !X.empty()   (also through a class's own empty() that forwards to a string member)
    if kind == "call" and "this" in atom and callee_short(atom) == "empty":
        subj = subject(atom["this"])
        if not atom.get("f", "").startswith("std::"):
            ta = _trivial_accessor(atom["f"])
            subj = (_obj_name(atom["this"]) + ta[0]) if (ta and ta[1] == "empty") else None
        if subj == X:
            return (not pos) and Y is None and k <= 1
    ops = None
    a = b = None
    if kind == "bin" and atom.get("op") in ("<", "<=", ">", ">=", "==", "!="):
        ops, a, b = atom["op"], atom["x"], atom["y"]
    elif kind == "call" and atom.get("opc") and callee_short(atom) in ("operator==", "operator!=") and len(atom.get("a", [])) == 2:
        ops, a, b = callee_short(atom)[8:], atom["a"][0], atom["a"][1]
    if ops is None:
        return False
    if not pos:
        ops = {"<": ">=", "<=": ">", ">": "<=", ">=": "<", "==": "!=", "!=": "=="}[ops]
    sa, sb = _size_call(a), _size_call(b)
    if Y is not None:
        if sa == X and sb == Y:
            return ops in (">=", ">", "==")
        if sa == Y and sb == X:
            return ops in ("<=", "<", "==")
        return False
    ca, cb = const_int(a), const_int(b)
    if sa == X and cb is not None:
        return (ops == ">=" and cb >= k) or (ops == ">" and cb >= k - 1) or (ops == "==" and cb >= k)
    if sb == X and ca is not None:
        return (ops == "<=" and ca >= k) or (ops == "<" and ca >= k - 1) or (ops == "==" and ca >= k)
    # X.substr(0, n) == "literal"   /   X == "literal"
    if ops == "==":
        for u, v in ((a, b), (b, a)):
            u = strip_casts(u)
            v = strip_casts(v)
            if u is not None and u.get("k") in ("ref", "mem") and show(u) == X:
                lit = v
                if lit is not None and lit.get("k") == "ctor" and lit.get("a"):
                    lit = strip_casts(lit["a"][0])
                if lit is not None and lit.get("k") == "str" and lit.get("len", 0) >= k:
                    return True
            if u is not None and u.get("k") == "call" and callee_short(u) == "substr" and "this" in u and show(peel(u["this"])) == X:
                lit = v
                if lit is not None and lit.get("k") == "ctor" and lit.get("a"):
                    lit = strip_casts(lit["a"][0])
                if lit is not None and lit.get("k") == "str" and lit.get("len", 0) >= k:
                    return True
            # X.compare(0, n, "lit") == 0
            if u is not None and u.get("k") == "call" and callee_short(u) == "compare" and "this" in u and show(peel(u["this"])) == X and const_int(v) == 0:
                args = u.get("a", [])
                if len(args) == 3 and const_int(args[0]) == 0:
                    lit = strip_casts(args[2])
                    if lit is not None and lit.get("k") == "str" and lit.get("len", 0) >= k:
                        return True
    return False


def guard_edges(fn, X, k, Y=None):
    from . import gates as G
    _prepare(fn)
    return G.edges_where(fn, lambda atom, truth: _implies_size_ge(atom, truth, X, k, Y))


def judge_need(fn, node, X, k):
    """Is `node` dominated by a test implying X.size() >= k?"""
    edges = guard_edges(fn, X, k)
    loc = fn.cfg.locate(node)
    if loc is None:
        return True, "unreachable", None
    need = "%s.size() >= %d" % (X, k)
    ok = loc[0] not in fn.cfg.reachable(cut_edges=edges)
    return ok, ("guarded by a test implying %s" % need) if ok else ("no test implying %s dominates it" % need), need


def _prepare(fn):
    _ALIAS.clear()
    _SUBJ.clear()
    _SUBJ.update(local_subjects(fn))
    _ALIAS.update(size_aliases(fn))


def sites(fn):
    _prepare(fn)
    """Yield (call node, method, classification or None) for position-taking string calls."""
    for n in fn.walk():
        if n.get("k") == "call" and n.get("f", "").startswith("std::basic_string::") and callee_short(n) in POS_METHODS and "this" in n:
            a = n.get("a", [])
            if not a:
                continue
            first_param = n.get("s", "").split("(", 1)[-1].split(",")[0]
            if "size_type" not in first_param:
                continue
            yield n, callee_short(n), classify_position(a[0])


def judge(fn, call, cls):
    """-> (ok, description, need) for a classified site."""
    _prepare(fn)
    X = subject(call["this"])
    if cls[0] == "lit":
        k = cls[1]
        if k <= 0:
            return True, "position 0", None
        need = "%s.size() >= %d" % (X, k)
        edges = guard_edges(fn, X, k)
    elif cls[0] == "size-minus":
        X2, k = cls[1], cls[2]
        need = "%s.size() >= %d" % (X2, k)
        edges = guard_edges(fn, X2, k)
    else:
        X2, Y = cls[1], cls[2]
        need = "%s.size() >= %s.size()" % (X2, Y)
        edges = guard_edges(fn, X2, 0, Y)
    loc = fn.cfg.locate(call)
    if loc is None:
        return True, "unreachable", need
    reach = fn.cfg.reachable(cut_edges=edges)
    ok = loc[0] not in reach
    return ok, ("guarded by a test implying %s" % need) if ok else ("no test implying %s dominates the call" % need), need
