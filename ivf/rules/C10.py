"""C10 — implicit special members and class traits follow the C++ rules.

Decided:
  R10.1 the rule skeleton of each availability predicate of CPPStructType:
        it consults everything the C++ rule makes it depend on (the
        user-declared member's access and deletion, every base with
        V_protected, every non-static data member, abstractness, user-declared
        move operations, the destructor for copy construction).
  R10.2 the builder synthesises implicit members only behind those predicates
        and never registers a constructor of an abstract class.
Not decided: agreement with the compiler for every hierarchy (the recursion
runs on run-time class graphs); the overriding logic of get_pure_virtual_funcs.
"""
import json
import os

from ..facts import peel, strip_casts, show, walk, cond_atom
from .common import (callee_short, field_of, base_of, assigned_target, const_int, local_ref, enclosing_loops, loop_container)
from . import gates as G

LEVEL = "other"
EXPLANATION = ("Feature matrix of the six is_*(CPPVisibility) predicates of CPPStructType against the dependencies required by "
               "[class.ctor]/[class.copy]/[class.dtor] (ivf/spec/special_members.json), and the synthesis guards of define_struct_type / "
               "get_function.  A necessary-condition check of the rules' skeleton, not of their results on every hierarchy.")
TRUSTED = ["clang 14 AST/CFG", "ivf/spec/special_members.json (transcribed from the C++ standard)",
           "get_default_constructor()/get_copy_constructor()/get_destructor()/… find the user-declared member"]
ASSUMPTIONS = ["is_abstract() is correct (its virtual-function bookkeeping is not judged)"]

S = "CPPStructType::"


def _rets(fn):
    return [n for n in fn.walk() if n.get("k") == "ret" and n.get("e") is not None]


def leads_only_to_false(fn, edges):
    """Every path from each of the edges ends in `return false` (and there is such an edge)."""
    if not edges:
        return False
    cfg = fn.cfg
    rets = {}
    for r in _rets(fn):
        loc = cfg.locate(r)
        if loc:
            rets.setdefault(loc[0], []).append(r)
    for (b, idx) in edges:
        s = cfg.blocks[b].succs[idx]
        if s is None:
            continue
        reach = cfg.reachable(s, cut_blocks=_rets_blocks(fn, lambda r: True) - {s}) | {s}
        # walk forward until the first return on each path
        seen = set()
        stack = [s]
        while stack:
            x = stack.pop()
            if x in seen:
                continue
            seen.add(x)
            if x in rets:
                if any(const_int(r["e"]) != 0 for r in rets[x]):
                    return False
                continue
            if x == cfg.exit:
                return False
            for t in cfg.blocks[x].succs:
                if t is not None:
                    stack.append(t)
    return True


def _rets_blocks(fn, pred):
    out = set()
    for r in _rets(fn):
        loc = fn.cfg.locate(r)
        if loc and pred(r):
            out.add(loc[0])
    return out


def features(db, fn):
    """Detect the rule features of one predicate; returns dict feature -> (bool, site node)."""
    short = fn.name.split("::")[-1]
    vis_param = fn.params[0]["d"] if fn.params else None
    # locals initialised from get_*() special-member lookups
    members = {}   # decl id -> getter short name
    for n in fn.walk():
        if n.get("k") == "decls":
            for d in n["d"]:
                i = peel(d.get("init")) if d.get("init") else None
                if i is not None and i.get("k") == "call" and callee_short(i).startswith("get_") and i.get("f", "").startswith(S):
                    members[d["d"]] = callee_short(i)
    feats = {}

    def inaccessible(which):
        def holds(atom, truth):
            c = G.cmp_atom(atom)
            if not c:
                return False
            op, a, b = c
            if (field_of(b) or "").endswith("_vis"):
                op, a, b = G.SWAP[op], b, a
            if not (field_of(a) or "").endswith("_vis"):
                return False
            base = local_ref(base_of(a))
            if base is None or members.get(base.get("d")) != which:
                return False
            r = local_ref(b)
            if r is None or r.get("d") != vis_param:
                return False
            o = op if truth else G.NEG[op]
            return o == ">"
        return holds

    def deleted(which):
        def holds(atom, truth):
            a = atom
            c = G.cmp_atom(atom)
            nz = truth
            if c and const_int(c[2]) == 0:
                a = c[1]
                nz = truth if c[0] == "!=" else (not truth if c[0] == "==" else None)
            a = strip_casts(a)
            if nz is None or a is None or a.get("k") != "bin" or a.get("op") != "&":
                return False
            sc = a["x"] if (field_of(a["x"]) or "").endswith("_storage_class") else a["y"]
            if not (field_of(sc) or "").endswith("_storage_class"):
                return False
            base = local_ref(base_of(sc))
            if base is None or members.get(base.get("d")) != which:
                return False
            names = {x["n"].split("::")[-1] for x in walk(a) if x.get("k") == "ref" and x.get("dk") == "enumc"}
            return names == {"SC_deleted"} and nz
        return holds

    for d, getter in members.items():
        role = getter[len("get_"):]
        e = G.edges_where(fn, inaccessible(getter))
        feats["A:" + role] = leads_only_to_false(fn, e)
        e = G.edges_where(fn, deleted(getter))
        feats["D:" + role] = leads_only_to_false(fn, e)
    # abstract
    e = G.edges_where(fn, lambda atom, truth: atom.get("k") == "call" and atom.get("f") == S + "is_abstract" and truth)
    feats["X"] = leads_only_to_false(fn, e)
    # user-declared move operations delete the implicit copy
    for mv in ("get_move_constructor", "get_move_assignment_operator"):
        def has_mv(atom, truth, mv=mv):
            c = G.cmp_atom(atom)
            if c:
                op, a, b = c
                for x, y in ((a, b), (b, a)):
                    if x is not None and x.get("k") == "call" and callee_short(x) == mv and y is not None and y.get("k") == "nullp":
                        o = op if truth else G.NEG[op]
                        return o == "!="
                return False
            return atom.get("k") == "call" and callee_short(atom) == mv and truth
        e = G.edges_where(fn, has_mv)
        feats["MV:" + mv[4:]] = leads_only_to_false(fn, e)
    # any user constructor suppresses the implicit default constructor
    def has_ctor(atom, truth):
        c = G.cmp_atom(atom)
        if not c:
            return False
        op, a, b = c
        for x, y in ((a, b), (b, a)):
            if x is not None and x.get("k") == "call" and callee_short(x) == "get_constructor" and y is not None and y.get("k") == "nullp":
                o = op if truth else G.NEG[op]
                return o == "!="
        return False
    feats["C"] = leads_only_to_false(fn, G.edges_where(fn, has_ctor))
    # base loop and member loop
    feats["B"] = False
    feats["M"] = False
    feats["M:static-skip"] = False
    for lp in [n for n in fn.walk() if n.get("k") in ("for", "forrange")]:
        cont = loop_container(fn, lp)
        cf = field_of(cont) or ""
        if cf.endswith("CPPStructType::_derivation"):
            for c in walk(lp["body"]):
                if c.get("k") == "call" and callee_short(c) == short and c.get("a"):
                    a0 = strip_casts(c["a"][0])
                    if a0 is not None and a0.get("n", "").endswith("V_protected"):
                        def base_fails(atom, truth, c=c):
                            return atom is c and not truth
                        feats["B"] = leads_only_to_false(fn, G.edges_where(fn, base_fails))
                    else:
                        feats["B:wrong-visibility"] = show(c)
        if cf.endswith("CPPScope::_variables"):
            for c in walk(lp["body"]):
                if c.get("k") == "call" and callee_short(c) == short and "this" in c and (field_of(c["this"]) or "").endswith("_type"):
                    def mem_fails(atom, truth, c=c):
                        return atom is c and not truth
                    feats["M"] = leads_only_to_false(fn, G.edges_where(fn, mem_fails))
            for n in walk(lp["body"]):
                if n.get("k") == "if":
                    names = {x["n"].split("::")[-1] for x in walk(n["c"]) if x.get("k") == "ref" and x.get("dk") == "enumc"}
                    if names == {"SC_static"} and any(x.get("k") == "continue" for x in walk(n["then"])):
                        feats["M:static-skip"] = True
            # a const member (no initialiser) deletes the implicit default constructor: the member loop looks at the
            # member's constness (as_const_type()) and returns false on some path from it
            consts = [c for c in walk(lp["body"]) if c.get("k") == "call" and callee_short(c) == "as_const_type"]
            if consts:
                def is_const_member(atom, truth):
                    cc = G.cmp_atom(atom)
                    if not cc:
                        return False
                    op, a, b = cc
                    o = op if truth else G.NEG[op]
                    for x, y in ((a, b), (b, a)):
                        if x is not None and x.get("k") == "call" and callee_short(x) == "as_const_type" and y is not None and y.get("k") == "nullp":
                            return o == "!="
                    return False
                e = G.edges_where(fn, is_const_member)
                rets_false = [r for r in walk(lp["body"]) if r.get("k") == "ret" and const_int(r.get("e")) == 0 and G.gated(fn, r, e)]
                feats["M:const-without-initializer"] = bool(rets_false)
            inits = [n for n in walk(lp["body"]) if n.get("k") == "if" and any((field_of(x) or "").endswith("CPPInstance::_initializer") for x in walk(n["c"])) and any(x.get("k") == "continue" for x in walk(n["then"]))]
            feats["M:initializer-skip"] = bool(inits)
    # delegation
    for c in fn.walk():
        if c.get("k") == "call" and c.get("f", "").startswith(S + "is_") and callee_short(c) != short and callee_short(c) != "is_abstract":
            par = next(fn.ancestors(c), None)
            if par is not None and par.get("k") == "ret":
                feats["delegates:" + callee_short(c)] = True
    return feats


def _bit_set(field_short, enumerator):
    """fact: (x.<field> & E) is non-zero, with E exactly the named enumerator"""
    def holds(atom, truth):
        a, op = atom, None
        c = G.cmp_atom(atom)
        if c and const_int(c[2]) == 0:
            op, a = c[0], c[1]
        elif c and const_int(c[1]) == 0:
            op, a = c[0], c[2]
        a = strip_casts(a)
        if a is None or a.get("k") != "bin" or a.get("op") != "&":
            return False
        f = field_of(a["x"]) or field_of(a["y"])
        if not f or f.split("::")[-1] != field_short:
            return False
        names = {x["n"].split("::")[-1] for x in walk(a) if x.get("k") == "ref" and x.get("dk") == "enumc"}
        if names != {enumerator}:
            return False
        nonzero_when_true = op in (None, "!=", ">")
        return truth if nonzero_when_true else (op == "==" and not truth)
    return holds


def special_member_finders(ctx):
    """R10.3: the predicates of R10.1 ask `is there a user-declared default / copy / move constructor (assignment)`;
    the finders must pick that member by C++'s criterion."""
    db = ctx.db
    ctx.rule("R10.3", "get_default_constructor() returns a constructor only if it has no parameters or its FIRST parameter has a default; get_copy/move_constructor and get_copy/move_assignment_operator return a member only behind the flag of that name; check_for_constructor sets the move flags only for an rvalue reference and the constructor flags only for a constructor")
    fn = db.fn(S + "get_default_constructor")
    rets = [r for r in fn.walk() if r.get("k") == "ret" and r.get("e") is not None and (strip_casts(peel(r["e"])) or {}).get("k") != "nullp"]
    if not rets:
        ctx.broken("get_default_constructor: no non-null return")

    def params_vec(n):
        n = strip_casts(peel(n))
        return n if (n is not None and (field_of(n) or "").endswith("CPPParameterList::_parameters")) else None

    def callable_with_no_args(atom, truth):
        c = G.cmp_atom(atom)
        if not c:
            return False
        op, a, b = c
        if not truth:
            op = G.NEG[op]
        for u, v in ((a, b), (b, a)):
            u = strip_casts(peel(u))
            if u is None:
                continue
            # <params>.size() == 0   /  <params>.empty() is handled below
            if u.get("k") == "call" and callee_short(u) == "size" and params_vec(u.get("this")) is not None and const_int(v) == 0 and op == "==":
                return True
            # <first parameter>->_initializer != nullptr
            if (field_of(u) or "").endswith("CPPInstance::_initializer") and v is not None and strip_casts(peel(v)).get("k") == "nullp" and op == "!=":
                base = strip_casts(peel(u.get("b")))
                while base is not None and base.get("k") == "un" and base.get("op") == "*":
                    base = strip_casts(peel(base["e"]))
                if base is None or base.get("k") != "call":
                    return False
                nm = callee_short(base)
                if nm in ("operator*", "operator->") and base.get("a"):
                    inner = strip_casts(peel(base["a"][0]))
                    return inner is not None and inner.get("k") == "call" and callee_short(inner) in ("begin", "cbegin") and params_vec(inner.get("this")) is not None
                if nm == "front":
                    return params_vec(base.get("this")) is not None
                if nm == "operator[]" and len(base.get("a", [])) == 2:
                    return params_vec(base["a"][0]) is not None and const_int(base["a"][1]) == 0
                if nm == "at" and base.get("a"):
                    return params_vec(base.get("this")) is not None and const_int(base["a"][0]) == 0
        return False

    def empty_params(atom, truth):
        return atom.get("k") == "call" and callee_short(atom) == "empty" and params_vec(atom.get("this")) is not None and truth
    edges = G.edges_where(fn, G.any_of(callable_with_no_args, empty_params))
    for i, r in enumerate(rets):
        ok = G.gated(fn, r, edges)
        ctx.ob("R10.3", "get_default_constructor|callable-without-arguments", ok, fn.loc(r),
               "`%s` is %sbehind `no parameters, or the first parameter has a default argument`" % (show(r)[:40], "" if ok else "NOT "))
    # flag-selected finders
    n = 0
    for getter, flag in (("get_copy_constructor", "F_copy_constructor"), ("get_move_constructor", "F_move_constructor"),
                         ("get_copy_assignment_operator", "F_copy_assignment_operator"), ("get_move_assignment_operator", "F_move_assignment_operator")):
        for g in db.fns(S + getter):
            rets = [r for r in g.walk() if r.get("k") == "ret" and r.get("e") is not None and (strip_casts(peel(r["e"])) or {}).get("k") != "nullp"]
            edges = G.edges_where(g, _bit_set("_flags", flag))
            for r in rets:
                n += 1
                ok = G.gated(g, r, edges)
                ctx.ob("R10.3", "%s|selected-by|%s" % (getter, flag), ok, g.loc(r), "`%s` is %sbehind `_flags & %s`" % (show(r)[:40], "" if ok else "NOT ", flag))
    ctx.floor("R10.3", "flag-selected finders", n, 4)
    # where the flags come from
    cf = db.fn("CPPInstance::check_for_constructor")
    sets = {}
    for x in cf.walk():
        if x.get("k") == "bin" and x.get("op") == "|=":
            for e in walk(x["y"]):
                if e.get("k") == "ref" and e.get("dk") == "enumc":
                    sets.setdefault(e["n"].split("::")[-1], []).append(x)

    def rvalue(want):
        def holds(atom, truth):
            c = G.cmp_atom(atom)
            if not c:
                return False
            op, a, b = c
            if not truth:
                op = G.NEG[op]
            for u, v in ((a, b), (b, a)):
                if (field_of(u) or "").endswith("_value_category") and v is not None and strip_casts(v).get("k") == "ref" and strip_casts(v).get("n", "").endswith("VC_rvalue"):
                    return (op == "==") == want
            return False
        return holds

    def local_bit(enumerator, want):
        def holds(atom, truth):
            a, op = atom, None
            c = G.cmp_atom(atom)
            if c and const_int(c[2]) == 0:
                op, a = c[0], c[1]
            a = strip_casts(a)
            if a is None or a.get("k") != "bin" or a.get("op") != "&":
                return False
            names = {x["n"].split("::")[-1] for x in walk(a) if x.get("k") == "ref" and x.get("dk") == "enumc"}
            if names != {enumerator}:
                return False
            is_set = truth if op in (None, "!=") else (not truth if op == "==" else None)
            return is_set is not None and is_set == want
        return holds
    table = (("F_move_constructor", True, True), ("F_copy_constructor", False, True),
             ("F_move_assignment_operator", True, False), ("F_copy_assignment_operator", False, False))
    for flag, is_rv, is_ctor in table:
        sites = sets.get(flag, [])
        if len(sites) != 1:
            ctx.broken("check_for_constructor: expected one `|= %s`, found %d" % (flag, len(sites)))
        x = sites[0]
        ok_rv = G.gated(cf, x, G.edges_where(cf, rvalue(is_rv)))
        ok_ct = G.gated(cf, x, G.edges_where(cf, local_bit("F_constructor", is_ctor)))
        ctx.ob("R10.3", "check_for_constructor|%s|value-category" % flag, ok_rv, cf.loc(x), "%s is set only for an %s reference parameter" % (flag, "rvalue" if is_rv else "lvalue"))
        ctx.ob("R10.3", "check_for_constructor|%s|member-kind" % flag, ok_ct, cf.loc(x), "%s is set only when the member %s a constructor" % (flag, "is" if is_ctor else "is not"))
    # ... for a member whose first parameter exists and whose further parameters (if any) are defaulted: [class.copy.ctor]
    def size_cmp(accept):
        def holds(atom, truth):
            c = G.cmp_atom(atom)
            if not c:
                return False
            op, a, b = c
            if not truth:
                op = G.NEG[op]
            for u, v, o in ((a, b, op), (b, a, G.SWAP[op])):
                u = strip_casts(peel(u))
                if u is not None and u.get("k") == "call" and callee_short(u) == "size" and params_vec(u.get("this")) is not None and const_int(v) is not None:
                    return accept(o, const_int(v))
            return False
        return holds

    def nonempty(atom, truth):
        return atom.get("k") == "call" and callee_short(atom) == "empty" and params_vec(atom.get("this")) is not None and not truth
    exists = G.any_of(size_cmp(lambda o, k: (o == "==" and k >= 1) or (o == ">=" and k >= 1) or (o == ">" and k >= 0) or (o == "!=" and k == 0)), nonempty)
    exactly_one = size_cmp(lambda o, k: o == "==" and k == 1)
    for flag, _, is_ctor in table:
        x = sets[flag][0]
        ok = G.gated(cf, x, G.edges_where(cf, exists))
        ctx.ob("R10.3", "check_for_constructor|%s|first-parameter-exists" % flag, ok, cf.loc(x), "%s is set only when the member has a first parameter" % flag)
        if is_ctor:
            # ... and then only if the SECOND parameter has a default (defaults are trailing, so all further ones have)
            def second_defaulted(atom, truth):
                c = G.cmp_atom(atom)
                if not c:
                    return False
                op, a, b = c
                if not truth:
                    op = G.NEG[op]
                for u, v in ((a, b), (b, a)):
                    uu = strip_casts(peel(u)) if u is not None else None
                    if uu is None or uu.get("k") != "mem" or not (uu.get("n") or "").endswith("CPPInstance::_initializer"):
                        continue
                    if v is None or (strip_casts(v) or {}).get("k") != "nullp" or op != "!=":
                        continue
                    base = strip_casts(peel(uu.get("b")))
                    idx = None
                    if base is not None and base.get("k") == "call" and callee_short(base) == "operator[]":
                        args = base.get("a", [])
                        vec = base.get("this") if "this" in base else (args[0] if args else None)
                        ix = args[-1] if args else None
                        if params_vec(vec) is not None and ix is not None:
                            idx = const_int(ix)
                    return idx == 1
                return False
            rest = G.gated(cf, x, G.edges_where(cf, G.any_of(exactly_one, second_defaulted)))
            ctx.ob("R10.3", "check_for_constructor|%s|further-parameters-defaulted" % flag, rest, cf.loc(x),
                   "%s is set only for a one-parameter member or one whose parameter [1] has a default value%s" % (flag, "" if rest else " - NOT: the test reads another parameter (or none)"))
            only_one = G.gated(cf, x, G.edges_where(cf, exactly_one))
            ctx.ob("R10.3", "check_for_constructor|%s|defaulted-extra-parameters-allowed" % flag, not only_one, cf.loc(x),
                   "X(const X&, int = 0) is a copy constructor too: %s" % ("the flag is NOT restricted to one-parameter members" if not only_one else "the flag is set only behind `size() == 1`, so such a constructor is missed and an implicit one is synthesised next to it"))


def declarations_left_intact(ctx):
    """R10.5: the trait predicates read the parsed declarations (a member's _initializer decides whether it needs a
    default constructor of its own).  The generator side may not leave them altered: an assignment to
    CPPInstance::_initializer outside cppparser is undone, from a saved copy, on every path to the function's exit."""
    db = ctx.db
    ctx.rule("R10.5", "outside cppparser, every assignment to a parsed declaration's _initializer is followed on every path to the exit by an assignment restoring the value saved before (the builder may print a member without its default value, it may not forget the value)")
    n = 0
    for f in db.functions:
        if "/interrogate/" not in f.file:
            continue
        writes = []
        for x in f.walk():
            t = assigned_target(x)
            if t and (field_of(t[0]) or "") == "CPPInstance::_initializer":
                writes.append((x, t))
        if not writes:
            continue
        cfg = f.cfg
        saved = set()
        for st in f.walk():
            if st.get("k") == "decls":
                for d in st["d"]:
                    if d.get("init") is not None and (field_of(strip_casts(peel(d["init"]))) or "") == "CPPInstance::_initializer":
                        saved.add(d["d"])
        restores = [x for x, t in writes if (local_ref(t[1]) or {}).get("d") in saved]
        clobbers = [x for x, t in writes if x not in restores]
        rblocks = [cfg.locate(x)[0] for x in restores if cfg.locate(x) is not None]
        for x in clobbers:
            n += 1
            lx = cfg.locate(x)
            ok = False
            if lx is not None:
                same_block_later = any(cfg.locate(r)[0] == lx[0] and cfg.locate(r)[1] > lx[1] for r in restores if cfg.locate(r) is not None)
                ok = same_block_later
                if not ok:
                    seen = set()
                    for s0 in cfg.blocks[lx[0]].succs:
                        if s0 is not None:
                            seen |= cfg.reachable(s0, cut_blocks=rblocks)
                    ok = bool(rblocks) and cfg.exit not in seen
            ctx.ob("R10.5", "%s|_initializer|restored" % f.name, ok, f.loc(x), "`%s` is %srestored from a saved copy before the function returns" % (show(x)[:50], "" if ok else "NOT "))
    ctx.floor("R10.5", "assignments to a declaration's _initializer in the generators", n, 2)


def override_matching(ctx):
    """R10.4: abstractness and polymorphism rest on get_virtual_funcs()/get_pure_virtual_funcs(), which match a member
    against an inherited virtual with CPPFunctionType::match_virtual_override().  `override` and `final` are not part of
    the signature on EITHER side: an intermediate class that wrote `override` must still be overridable further down.
    Neither are `noexcept` (an overrider may add it) and the trailing-return spelling.  (My first version of this rule
    demanded that a noexcept difference be rejected - it had copied defect F-C10e from the code.)"""
    from .C18 import _ev
    db = ctx.db
    ctx.rule("R10.4", "the flag test of match_virtual_override(), evaluated from its expression tree for every pair of flag words over {const, volatile, &, &&, noexcept, trailing-return, override, final}, rejects a pair iff the words differ in a part of the signature ([class.virtual]/2: cv- and ref-qualification); override, final, noexcept and the trailing-return spelling never make a difference")
    fn = db.fn("CPPFunctionType::match_virtual_override")
    en = db.enums.get("CPPFunctionType::Flags")
    if en is None:
        ctx.broken("enum CPPFunctionType::Flags not found")
    val = {c["n"].split("::")[-1]: c["v"] for c in en["consts"]}
    need = ["F_const_method", "F_override", "F_final"]
    for k in need:
        if k not in val:
            ctx.broken("enumerator %s not found" % k)
    # the branch whose condition reads _flags of both objects
    tests = []
    for n in fn.walk():
        if n.get("k") == "if":
            flds = [(x["n"].split("::")[-1], (peel(x.get("b")) or {}).get("k")) for x in walk(n["c"]) if x.get("k") == "mem" and not x.get("method")]
            if any(f == "_flags" for f, _ in flds):
                tests.append(n)
    if len(tests) != 1:
        ctx.broken("match_virtual_override: expected one test of _flags, found %d" % len(tests))
    t = tests[0]
    rejects = any(x.get("k") == "ret" and const_int(x.get("e")) == 0 for x in walk(t["then"]))
    if not rejects:
        ctx.broken("match_virtual_override: the _flags test no longer returns false")
    other = [p for p in fn.params][0]["n"]
    sig_names = [k for k in ("F_const_method", "F_volatile_method", "F_lvalue_method", "F_rvalue_method") if k in val]
    non_names = [k for k in ("F_override", "F_final", "F_noexcept", "F_trailing_return_type") if k in val]
    bits = [val[k] for k in sig_names + non_names]
    ignore = 0
    for k in non_names:
        ignore |= val[k]
    words = []
    for m in range(1 << len(bits)):
        w = 0
        for i, b in enumerate(bits):
            if m >> i & 1:
                w |= b
        words.append(w)
    bad = []
    n_eval = 0
    # local constants the test may use (e.g. `const int not_signature = F_override | ...`)
    consts = {}
    for y in fn.walk():
        if y.get("k") == "decls":
            for d in y["d"]:
                if d.get("init") is not None:
                    try:
                        consts[d["n"]] = _ev(db, d["init"], dict(consts))
                    except ValueError:
                        pass
    try:
        for a in words:
            for b in words:
                n_eval += 1
                env = dict(consts)
                env.update({"_flags": a, other + "._flags": b})
                got = bool(_ev(db, t["c"], env))
                want = ((a ^ b) & ~ignore) != 0
                if got != want and len(bad) < 4:
                    names = lambda w: "|".join(k for k in val if val[k] and val[k] & w and bin(val[k]).count("1") == 1) or "0"
                    bad.append("this=%s other=%s: %s, should %s" % (names(a), names(b), "rejected" if got else "accepted", "reject" if want else "accept"))
    except ValueError as e:
        ctx.ob("R10.4", "match_virtual_override|flags-modulo-override-final", False, fn.loc(t), "flag test not evaluable: %s" % e)
        return
    ctx.ob("R10.4", "match_virtual_override|flags-modulo-override-final", not bad, fn.loc(t),
           "`%s` evaluated on %d flag pairs: %s" % (show(t["c"])[:70], n_eval, "; ".join(bad) if bad else "rejects exactly the pairs that differ in cv-/ref-qualification"))
    ctx.floor("R10.4", "flag pairs evaluated", n_eval, 256)


def run(ctx):
    db = ctx.db
    ctx.rule("R10.1", "each is_*(CPPVisibility) predicate of CPPStructType has every dependency its C++ rule requires (spec: ivf/spec/special_members.json)")
    ctx.rule("R10.2", "implicit default/copy constructor and destructor are synthesised only behind `no user-declared one` and the matching predicate; no constructor is registered for an abstract class")
    spec = json.load(open(os.path.join(os.path.dirname(os.path.dirname(__file__)), "spec", "special_members.json")))
    n = 0
    for pname, req in spec["predicates"].items():
        fn = db.fn(S + pname, sig_contains="CPPVisibility")
        feats = features(db, fn)
        for feat in req["require"]:
            n += 1
            ok = bool(feats.get(feat))
            ctx.ob("R10.1", "%s|%s" % (pname, feat), ok, fn.loc(), "%s: %s" % (spec["legend"].get(feat.split(":")[0], feat), "present" if ok else "MISSING"))
        if "B:wrong-visibility" in feats:
            ctx.ob("R10.1", "%s|B|protected" % pname, False, fn.loc(), "base sub-objects must be judged with V_protected: %s" % feats["B:wrong-visibility"])
    ctx.floor("R10.1", "predicate features", n, 25)
    # X: an abstract class cannot be created as a complete object, but it is a perfectly good base-class sub-object:
    # the test belongs to the complete-object entry points, and must NOT sit in the min_vis overloads the base-class
    # loops call (else `struct Conc : Abs { void f() override; }` is judged non-constructible).
    for pname, sigpart in spec.get("complete_object_entry_points", {}).items():
        cands = [f for f in db.fns(S + pname) if ("CPPVisibility" not in f.sig) and (("CPPType" in f.sig) == ("CPPType" in sigpart))]
        if not cands:
            ctx.broken("complete-object entry point %s%s not found" % (pname, sigpart))
        f = cands[0]
        rets = [r for r in f.walk() if r.get("k") == "ret" and r.get("e") is not None and const_int(r["e"]) != 0]
        ok = bool(rets) and all(G.gated(f, r, G.edges_where(f, G.pred_false(S + "is_abstract", "is_abstract"))) for r in rets)
        ctx.ob("R10.1", "%s%s|X:complete-object" % (pname, sigpart), ok, f.loc(), "every non-false return is behind `!is_abstract()`")
    for pname in ("is_default_constructible", "is_copy_constructible", "is_move_constructible"):
        f = db.fn(S + pname, sig_contains="CPPVisibility")
        calls = [c for c in f.walk() if c.get("k") == "call" and callee_short(c) == "is_abstract"]
        ctx.ob("R10.1", "%s(min_vis)|X:not-for-sub-objects" % pname, not calls, f.loc(calls[0]) if calls else f.loc(),
               "the overload that also judges base-class sub-objects %s" % ("does not test is_abstract()" if not calls else "tests is_abstract(): a concrete class derived from an abstract base is judged non-constructible"))

    # ------------------------------------------------------------ R10.5
    declarations_left_intact(ctx)

    # ------------------------------------------------------------ R10.3
    special_member_finders(ctx)
    override_matching(ctx)
    signature_equivalence(ctx)
    overridden_virtuals_are_replaced(ctx)
    members_start_private_in_a_class_only(ctx)
    convertibility_through_bases(ctx)
    declared_virtuals_are_collected(ctx)
    each_base_contributes_its_own_list(ctx)
    function_specifiers_are_recorded_as_written(ctx)
    abstractness_is_decided_by_the_pure_virtuals(ctx)

    # ------------------------------------------------------------ R10.2
    fd = db.fn("InterrogateBuilder::define_struct_type")
    synth = [c for c in fd.walk() if c.get("k") == "call" and c.get("f") == "InterrogateBuilder::get_function"]
    synth.sort(key=lambda c: fd.line_of(c))
    if len(synth) != 3:
        ctx.broken("define_struct_type: expected three synthesised get_function calls, found %d" % len(synth))

    def null_local_from(getter):
        ids = set()
        for x in fd.walk():
            if x.get("k") == "decls":
                for d in x["d"]:
                    i = peel(d.get("init")) if d.get("init") else None
                    if i is not None and i.get("k") == "call" and callee_short(i) == getter:
                        ids.add(d["d"])

        def holds(atom, truth):
            c = G.cmp_atom(atom)
            if not c:
                return False
            op, a, b = c
            for u, v in ((a, b), (b, a)):
                r = local_ref(u)
                if r is not None and r.get("d") in ids and v is not None and v.get("k") == "nullp":
                    o = op if truth else G.NEG[op]
                    return o == "=="
            return False
        return holds
    kinds = [("default-constructor", "get_constructor", "is_default_constructible"),
             ("copy-constructor", "get_copy_constructor", "is_copy_constructible")]
    for (label, getter, pred), sink in zip(kinds, synth[:2]):
        ok1 = G.gated(fd, sink, G.edges_where(fd, null_local_from(getter)))
        ok2 = G.gated(fd, sink, G.edges_where(fd, G.pred_true(pred)))
        flag = any(x.get("k") == "ref" and x.get("n", "").endswith("F_constructor") for x in walk(sink))
        ctx.ob("R10.2", "implicit-%s|no-user-declared" % label, ok1 and flag, fd.loc(sink), "synthesised only when %s() == nullptr" % getter)
        ctx.ob("R10.2", "implicit-%s|predicate" % label, ok2, fd.loc(sink), "synthesised only when %s()" % pred)
    sink = synth[2]
    ok = G.gated(fd, sink, G.edges_where(fd, G.pred_true("is_destructible")))
    ctx.ob("R10.2", "implicit-destructor|predicate", ok and any(x.get("n", "").endswith("F_destructor") for x in walk(sink) if x.get("k") == "ref"),
           fd.loc(sink), "synthesised only when is_destructible()")

    def no_dtor_flags(atom, truth):
        c = G.cmp_atom(atom)
        if not c or const_int(c[2]) != 0:
            return False
        a = strip_casts(c[1])
        if a is None or a.get("k") != "bin" or a.get("op") != "&":
            return False
        names = {x["n"].split("::")[-1] for x in walk(a) if x.get("k") == "ref" and x.get("dk") == "enumc"}
        o = c[0] if truth else G.NEG[c[0]]
        return {"F_true_destructor", "F_private_destructor", "F_inherited_destructor", "F_implicit_destructor"} <= names and o == "=="
    ok = G.gated(fd, sink, G.edges_where(fd, no_dtor_flags))
    ctx.ob("R10.2", "implicit-destructor|none-recorded", ok, fd.loc(sink), "synthesised only when no true/private/inherited/implicit destructor was recorded")

    gf = db.fn("InterrogateBuilder::get_function")
    adds = [c for c in gf.walk() if c.get("k") == "call" and callee_short(c) == "add_function"]
    if not adds:
        ctx.broken("get_function: add_function call not found")

    def not_abstract_ctor(atom, truth):
        # is_abstract() false, or not a constructor, or no struct
        if atom.get("k") == "call" and callee_short(atom) == "is_abstract":
            return not truth
        names = {x["n"].split("::")[-1] for x in walk(atom) if x.get("k") == "ref" and x.get("dk") == "enumc"}
        if names == {"F_constructor"} and (atom.get("k") == "bin" and atom.get("op") == "&" or G.cmp_atom(atom)):
            c = G.cmp_atom(atom)
            if c is None:
                return not truth
            o = c[0] if truth else G.NEG[c[0]]
            return o == "=="
        c = G.cmp_atom(atom)
        if c:
            op, a, b = c
            for u, v in ((a, b), (b, a)):
                r = local_ref(u)
                if r is not None and r.get("dk") == "param" and "CPPStructType" in r.get("t", "") and v is not None and v.get("k") == "nullp":
                    o = op if truth else G.NEG[op]
                    return o == "=="
        return False
    for a in adds:
        ok = G.gated(gf, a, G.edges_where(gf, not_abstract_ctor))
        ctx.ob("R10.2", "get_function|no-constructor-of-abstract-class", ok, gf.loc(a),
               "add_function is reached only when the function is not a constructor, has no class, or the class is not abstract")


def signature_equivalence(ctx):
    """R10.6 / R10.7: whether a member overrides an inherited virtual (and hence whether the class is abstract, has a
    usable constructor, is polymorphic) is decided by comparing parameter lists with is_equivalent().  In C++ the
    parameter-type-list is compared after typedefs are resolved and top-level cv-qualifiers are dropped ([dcl.fct]/5):
    `f(int)` overrides `f(MyInt)` and `f(const int)`.  (F-C10f, F-C10g.)"""
    db = ctx.db
    ctx.rule("R10.6", "CPPType::is_equivalent() - the version reached when the receiver is not a typedef - does not answer `different subtype` for an argument that is a typedef: that return is reachable only when other.get_subtype() != ST_typedef (or the receiver is itself a typedef)")
    ctx.rule("R10.7", "CPPParameterList::is_equivalent() compares each pair of parameter types through locals from which every top-level CPPConstType has been peeled on BOTH sides")
    f = db.fn("CPPType::is_equivalent")
    other = f.params[0]

    def subtype_is_typedef(node, of_other):
        c = G.cmp_atom(node)
        if not c:
            return None
        op, u, v = c
        for p, q in ((u, v), (v, u)):
            pp = strip_casts(peel(p)) if p is not None else None
            qq = strip_casts(peel(q)) if q is not None else None
            if pp is not None and pp.get("k") == "call" and callee_short(pp) == "get_subtype" and qq is not None and (qq.get("n") or "").endswith("ST_typedef"):
                recv = strip_casts(peel(pp.get("this"))) if pp.get("this") is not None else None
                is_other = recv is not None and (local_ref(recv) or {}).get("d") == other["d"]
                if is_other == of_other:
                    return op
        return None

    def holds(atom, truth):
        # accepted facts: `other is not a typedef`, `this is a typedef`
        op = subtype_is_typedef(atom, True)
        if op is not None:
            o = op if truth else G.NEG[op]
            return o == "!="
        op = subtype_is_typedef(atom, False)
        if op is not None:
            o = op if truth else G.NEG[op]
            return o == "=="
        return False
    edges = G.edges_where(f, holds)
    mism = []
    for n in f.walk():
        if n.get("k") == "if":
            c = G.cmp_atom(peel(n["c"]))
            if c and c[0] == "!=" and all((strip_casts(peel(z)) or {}).get("k") == "call" and callee_short(strip_casts(peel(z))) == "get_subtype" for z in c[1:]):
                mism += [r for r in walk(n["then"]) if r.get("k") == "ret" and const_int(r.get("e")) == 0]
    if not mism:
        ctx.broken("R10.6: CPPType::is_equivalent no longer has a `subtypes differ -> false` return")
    for i, r in enumerate(mism):
        ok = bool(edges) and G.gated(f, r, edges)
        ctx.ob("R10.6", "CPPType::is_equivalent|subtype-mismatch#%d|not-for-a-typedef-argument" % i, ok, f.loc(r),
               "`different subtype` is %sanswered only when the argument is not a typedef" % ("" if ok else "NOT "))
    # ---- R10.7
    f = db.fn("CPPParameterList::is_equivalent")
    calls = [c for c in f.walk() if c.get("k") == "call" and callee_short(c) == "is_equivalent" and "this" in c and c.get("a")]
    if not calls:
        ctx.broken("R10.7: CPPParameterList::is_equivalent compares no types")

    def peeled(local):
        if local is None:
            return False
        for lp in f.walk():
            if lp.get("k") not in ("while", "for", "do"):
                continue
            cond = lp.get("c") or {}
            test = any(y.get("k") == "call" and callee_short(y) == "as_const_type" and (local_ref(y.get("this")) or {}).get("d") == local["d"] for y in walk(cond))
            ne = any((G.cmp_atom(y) or [None])[0] == "!=" for y in walk(cond) if y.get("k") == "bin") or not any(y.get("k") == "bin" for y in walk(cond))
            step = False
            for y in walk(lp.get("body") or {}):
                t = assigned_target(y)
                if t and (local_ref(t[0]) or {}).get("d") == local["d"] and any((z.get("n") or "").endswith("CPPConstType::_wrapped_around") for z in walk(t[1]) if z.get("k") == "mem"):
                    step = True
            if test and ne and step:
                return True
        return False
    for i, c in enumerate(calls):
        a = local_ref(strip_casts(peel(c["this"])))
        arg = c["a"][0]
        while arg is not None and arg.get("k") == "un" and arg.get("op") == "*":
            arg = arg.get("e")
        b = local_ref(strip_casts(peel(arg)))
        ok = peeled(a) and peeled(b)
        ctx.ob("R10.7", "CPPParameterList::is_equivalent|compare#%d|top-level-const-dropped-both-sides" % i, ok, f.loc(c),
               "`%s` compares %s" % (show(c)[:60], "const-peeled locals on both sides" if ok else "a type as written (receiver peeled: %s, argument peeled: %s)" % (peeled(a), peeled(b))))


def overridden_virtuals_are_replaced(ctx):
    """R10.8: get_virtual_funcs() builds the list of virtual functions "at or above" a class: the bases' lists, minus the
    entries this class overrides, plus this class's own virtual members (the last loop collects every member carrying
    SC_virtual).  An inherited entry may therefore be erased only together with marking its overrider SC_virtual - the
    overrider then re-enters the list.  An erase without that marking LOSES a virtual function: a class whose only
    virtual is an inherited destructor stops being polymorphic.  (Seed S6-C10.)"""
    db = ctx.db
    ctx.rule("R10.8", "in CPPStructType::get_virtual_funcs every erase of an inherited entry is followed, before the scan moves on, by `<member of this class>->_storage_class |= ... SC_virtual`")
    f = db.fn("CPPStructType::get_virtual_funcs")
    listp = [p for p in f.params][0]
    erases = [c for c in f.walk() if c.get("k") == "call" and callee_short(c) == "erase" and (local_ref(c.get("this")) or {}).get("d") == listp["d"]]
    marks = []
    for y in f.walk():
        if y.get("k") == "bin" and y.get("op") == "|=" and (field_of(y.get("x")) or "").endswith("_storage_class") and any((z.get("n") or "").endswith("SC_virtual") for z in walk(y.get("y")) if z.get("k") == "ref"):
            marks.append(y)
    if not erases:
        ctx.broken("R10.8: get_virtual_funcs erases nothing from the inherited list any more")
    mblocks = [f.cfg.locate(m) for m in marks if f.cfg.locate(m)]
    # "the scan moves on": the assignment that advances the list iterator (vfi = vfnext), or the function's exit
    adv = []
    for y in f.walk():
        t = assigned_target(y)
        if t and local_ref(t[0]) is not None and local_ref(t[1]) is not None and "iterator" in (local_ref(t[0]).get("t") or "") and "iterator" in (local_ref(t[1]).get("t") or ""):
            er_it = [(local_ref(strip_casts(peel(e["a"][0]))) or {}).get("d") for e in erases if e.get("a")]
            if local_ref(t[0]).get("d") in er_it:
                loc = f.cfg.locate(y)
                if loc:
                    adv.append(loc[0])
    for i, e in enumerate(erases):
        le = f.cfg.locate(e)
        ok = False
        if le is not None:
            same = any(b == le[0] for (b, p) in mblocks)
            reach = f.cfg.reachable(le[0], cut_blocks=[b for (b, p) in mblocks if b != le[0]])
            escapes = any(a in reach for a in adv if a != le[0]) or f.cfg.exit in reach
            ok = same or not escapes
        ctx.ob("R10.8", "get_virtual_funcs|erase#%d|overrider-marked-virtual" % i, ok, f.loc(e),
               "`%s` is %sfollowed by marking the overriding member SC_virtual before the scan moves on" % (show(e)[:30], "" if ok else "NOT always "))
    ctx.floor("R10.8", "erase sites in get_virtual_funcs", len(erases), 2)


def convertibility_through_bases(ctx):
    """R10.9: CPPStructType::is_convertible_to(T) answers yes when the generic test, a conversion operator's type or a
    public base IS convertible to T.  Every `return true` of the function must sit on the TRUE edge of such a nested
    is_convertible_to() answer.  (F-C10h: the base loop returned true for the first base that is NOT convertible; the
    predicate feeds __is_convertible_to, is_constructible and the covariant-return test of match_virtual_override.)"""
    db = ctx.db
    ctx.rule("R10.9", "in CPPStructType::is_convertible_to every `return true` is reachable only through the true edge of a nested is_convertible_to(...) call")
    f = db.fn("CPPStructType::is_convertible_to")
    rets = [r for r in f.walk() if r.get("k") == "ret" and const_int(r.get("e")) == 1]
    if not rets:
        ctx.broken("R10.9: CPPStructType::is_convertible_to has no `return true`")
    edges = G.edges_where(f, G.pred_true("is_convertible_to"))
    for i, r in enumerate(rets):
        ok = bool(edges) and G.gated(f, r, edges)
        ctx.ob("R10.9", "CPPStructType::is_convertible_to|return-true#%d|behind-a-positive-answer" % i, ok, f.loc(r),
               "`return true` is %sbehind a nested is_convertible_to() that answered yes" % ("" if ok else "NOT "))
    ctx.floor("R10.9", "`return true` sites", len(rets), 3)


def _conjuncts(n):
    n = strip_casts(peel(n))
    if n is not None and n.get("k") == "bin" and n.get("op") == "&&":
        return _conjuncts(n["x"]) + _conjuncts(n["y"])
    return [n]


def _storage_bit_test(n):
    """(enumerator, 'set'|'clear') for `(X->_storage_class & C) != 0`, `... == 0`, or the bare `X->_storage_class & C`."""
    n = strip_casts(peel(n))
    if n is None:
        return None
    pol = "set"
    if n.get("k") == "un" and n.get("op") == "!":
        pol = "clear"
        n = strip_casts(peel(n["e"]))
    ca = G.cmp_atom(n) if n is not None and n.get("k") == "bin" and n.get("op") in ("==", "!=") else None
    if ca:
        op, x, y = ca
        if const_int(y) == 0:
            inner = x
        elif const_int(x) == 0:
            inner = y
        else:
            return None
        if op == "==":
            pol = "clear" if pol == "set" else "set"
        n = strip_casts(peel(inner))
    if n is None or n.get("k") != "bin" or n.get("op") != "&":
        return None
    for a, b in ((n["x"], n["y"]), (n["y"], n["x"])):
        a, b = strip_casts(peel(a)), strip_casts(peel(b))
        if a is not None and (field_of(a) or "").endswith("::_storage_class") and b is not None and b.get("k") == "ref" and "SC_" in (b.get("n") or ""):
            return (b["n"].split("::")[-1], pol)
    return None


def declared_virtuals_are_collected(ctx):
    """R10.10: a class is polymorphic (and its destructor virtual, and its overriders `inherited virtual`) through the list
    get_virtual_funcs() builds.  The last loop adds the class's OWN members: every member declared `virtual`, however it
    is defined (`= default` included).  The only members left out are deleted ones (a choice of this code base, kept).
    (Seed S8-C10: the SC_deleted test became SC_defaulted; `virtual ~T() = default;` no longer made T polymorphic.)"""
    db = ctx.db
    ctx.rule("R10.10", "in get_virtual_funcs the own members pushed onto the list are exactly those with SC_virtual set; the only other storage-class bit the condition may test is SC_deleted (clear)")
    fs = [g for g in db.functions if g.name == "CPPStructType::get_virtual_funcs"]
    f = fs[0] if fs else None
    if f is None:
        ctx.broken("R10.10: CPPStructType::get_virtual_funcs not found")
        return
    n = 0
    for c in f.walk():
        if not (c.get("k") == "call" and callee_short(c) == "push_back" and c.get("a") and local_ref(c["a"][0]) is not None):
            continue
        n += 1
        conds = []
        for a in f.ancestors(c):
            if a.get("k") == "if" and any(z is c for z in walk(a.get("then") or {})):
                conds += _conjuncts(a["c"])
            if a.get("k") in ("for", "forrange", "while"):
                pass
        tests = [_storage_bit_test(x) for x in conds]
        unknown = [show(x) for x, t in zip(conds, tests) if t is None]
        got = {t for t in tests if t is not None}
        ok = ("SC_virtual", "set") in got and not unknown and got <= {("SC_virtual", "set"), ("SC_deleted", "clear")}
        ctx.ob("R10.10", "get_virtual_funcs|push_back(%s)|exactly-the-declared-virtuals" % local_ref(c["a"][0]).get("n"), ok, f.loc(c),
               "own members are collected under: %s%s" % (", ".join("%s %s" % t for t in sorted(got)) or "no storage-class test",
                                                       ("; and an unrecognised condition: " + "; ".join(unknown)) if unknown else ""))
    ctx.floor("R10.10", "push_back of own members in get_virtual_funcs", n, 1)


def each_base_contributes_its_own_list(ctx):
    """R10.11: get_virtual_funcs(funcs) first asks every base for ITS virtual functions, then lets this class's members
    override (erase and re-add) what came from the bases.  The override pass of a base must see only that base's own
    hierarchy: two unrelated bases P and Q may both have `f()`; Q::f does not override P::f.  Each base is therefore
    asked with a fresh list that is appended afterwards.  (Seed S9-C10: the shared list was handed to every base;
    `struct R : P, Q` with pure P::f and concrete Q::f became non-abstract and constructible.)"""
    db = ctx.db
    ctx.rule("R10.11", "in get_virtual_funcs the recursive call on a base receives a list declared inside the loop over _derivation, which is then spliced/appended to the result")
    fs = [g for g in db.functions if g.name == "CPPStructType::get_virtual_funcs"]
    if not fs:
        ctx.broken("R10.11: CPPStructType::get_virtual_funcs not found")
        return
    f = fs[0]
    p0 = (f.params or [{}])[0].get("d")
    n = 0
    for c in f.walk():
        if not (c.get("k") == "call" and c.get("f") == f.name and c.get("a")):
            continue
        n += 1
        r = local_ref(c["a"][0])
        loops = [lp for lp in enclosing_loops(f, c)]
        fresh = False
        if r is not None and r.get("d") != p0 and loops:
            for y in walk(loops[0].get("body") or {}):
                if y.get("k") == "decls" and any(dd.get("d") == r["d"] for dd in y["d"]):
                    fresh = True
        merged = False
        if fresh:
            for y in walk(loops[0].get("body") or {}):
                if y.get("k") == "call" and callee_short(y) in ("splice", "insert", "merge") and "this" in y and (local_ref(y["this"]) or {}).get("d") == p0 and \
                   any((local_ref(a) or {}).get("d") == r["d"] for a in y.get("a", [])):
                    merged = True
        ctx.ob("R10.11", "get_virtual_funcs|base->get_virtual_funcs(%s)|own-list-per-base" % (r or {}).get("n", "?"), fresh and merged, f.loc(c),
               "each base fills a list of its own, appended to the result afterwards" if fresh and merged else
               "the bases share one list: the override pass of a later base erases functions of an earlier, unrelated base")
    ctx.floor("R10.11", "recursive calls of get_virtual_funcs", n, 1)


SPECIFIER_FLAGS = {"T_integer": "SC_pure_virtual", "T_default": "SC_defaulted", "T_delete": "SC_deleted"}


def function_specifiers_are_recorded_as_written(ctx):
    """R10.12: `= 0`, `= default` and `= delete` after a function declarator are recorded by CPPInstance::set_initializer as
    SC_pure_virtual / SC_defaulted / SC_deleted; abstractness, triviality and deletedness are all read from these bits.
    The bit depends on what was WRITTEN only: an overrider `void f() override = 0;` carries no `virtual` keyword - it is
    found to be virtual later, by get_virtual_funcs() - and is pure all the same.  (Seed S10-C10: SC_pure_virtual was set
    only if SC_virtual was already set; a class that re-declares an inherited function pure became concrete and got
    constructors.)"""
    db = ctx.db
    ctx.rule("R10.12", "in CPPInstance::set_initializer each specifier bit is set under a test of `initializer->_type` against its own enumerator, and under no condition that reads _storage_class")
    fs = [g for g in db.functions if g.name == "CPPInstance::set_initializer"]
    if not fs:
        ctx.broken("R10.12: CPPInstance::set_initializer not found")
        return
    f = fs[0]
    seen = {}
    for y in f.walk():
        if not (y.get("k") == "bin" and y.get("op") == "|=" and (field_of(strip_casts(peel(y["x"]))) or "").endswith("::_storage_class")):
            continue
        bits = [z.get("n").split("::")[-1] for z in walk(y["y"]) if z.get("k") == "ref" and "SC_" in (z.get("n") or "")]
        conds = []
        for a in f.ancestors(y):
            if a.get("k") == "if" and any(z is y for z in walk(a.get("then") or {})):
                conds += _conjuncts(a["c"])
        reads_sc = [c for c in conds if any(z.get("k") == "mem" and (z.get("n") or "").endswith("::_storage_class") for z in walk(c))]
        kinds = set()
        for c in conds:
            ca = G.cmp_atom(c)
            if ca and ca[0] == "==":
                for u, v in ((ca[1], ca[2]), (ca[2], ca[1])):
                    if u is not None and v is not None and (field_of(strip_casts(peel(u))) or "").endswith("CPPExpression::_type") and (strip_casts(peel(v)) or {}).get("k") == "ref":
                        kinds.add(strip_casts(peel(v))["n"].split("::")[-1])
        for b in bits:
            want = [k for k, v in SPECIFIER_FLAGS.items() if v == b]
            ok = bool(want) and want[0] in kinds and not reads_sc
            seen[b] = True
            ctx.ob("R10.12", "set_initializer|%s|as-written" % b, ok, f.loc(y),
                   "%s is set exactly when the initializer is %s" % (b, want[0] if want else "?") if ok else
                   ("%s also depends on the bits already in _storage_class (%s)" % (b, show(reads_sc[0])[:50]) if reads_sc else "%s is not tied to its initializer kind" % b))
    for b in SPECIFIER_FLAGS.values():
        if b not in seen:
            ctx.ob("R10.12", "set_initializer|%s|as-written" % b, False, f.loc(), "%s is never set" % b)


def abstractness_is_decided_by_the_pure_virtuals(ctx):
    """R10.13: a class is abstract iff it has (declares or inherits without overriding) a pure virtual function - nothing else
    enters: not `final` (a final class that leaves an inherited pure virtual unimplemented is ill-formed to instantiate,
    hence abstract), not templates, not visibility.  In CPPStructType::is_abstract() every return is reached only after
    get_pure_virtual_funcs() was asked.  (Seed S11-C10: `if (_final) return false;` in front; such classes became
    constructible and got constructors exported.)"""
    db = ctx.db
    ctx.rule("R10.13", "every return of CPPStructType::is_abstract is reached only through the call of get_pure_virtual_funcs()")
    fs = [g for g in db.functions if g.name == "CPPStructType::is_abstract"]
    if not fs:
        ctx.broken("R10.13: CPPStructType::is_abstract not found")
        return
    f = fs[0]
    asks = [c for c in f.walk() if c.get("k") == "call" and callee_short(c) == "get_pure_virtual_funcs"]
    first = None
    for y in f.walk():
        if f.cfg.locate(y) is not None:
            first = y
            break
    rets = [r for r in f.walk() if r.get("k") == "ret"]
    n = 0
    for r in rets:
        n += 1
        early = (not asks) or first is None or (f.cfg.locate(first) == f.cfg.locate(r)) or G.reaches_avoiding(f, first, asks, r)
        if early and asks and any(w is a for a in asks for w in walk(r)):
            early = False      # `return !funcs.empty()` style with the call inside the returned expression
        ctx.ob("R10.13", "is_abstract|return@%s|after-the-pure-virtuals-were-collected" % f.loc(r).split(":")[-1], not early, f.loc(r),
               "decided from the collected pure virtual functions" if not early else "returns without looking at the pure virtual functions")
    ctx.floor("R10.13", "returns of is_abstract", n, 1)


def members_start_private_in_a_class_only(ctx):
    """R10.14: the class traits (default/copy constructible, destructible) are judged from the accessibility of the special
    members, so the access a class body STARTS with is part of them: private for `class`, public for `struct` and `union`
    ([class.access]/3).  Every conditional of the generated parser that picks a CPPVisibility from the class-key semantic
    value is evaluated for the three class keys.  (Seed S12-C10: named_struct tested `== T_struct ? V_public : V_private`;
    a named union's unlabelled special members became private, and a class holding such a union lost its implicit
    constructors and destructor - anonymous_struct kept the right test.)"""
    db = ctx.db
    ctx.rule("R10.14", "every grammar action that derives a starting visibility from the class key yields V_private for T_class and V_public for T_struct and T_union")
    yys = [g for g in db.functions if g.name.endswith("cppyyparse")]
    en = db.enum("CPPExtensionType::Type")
    if not yys or not en:
        ctx.broken("R10.14: generated parser or CPPExtensionType::Type not found")
        return
    yy = yys[0]
    bc = db.meta.get("bison_cases", {})
    keys = ("T_class", "T_struct", "T_union")
    n = 0
    for cs in yy.walk():
        if cs.get("k") != "case":
            continue
        for y in walk(cs.get("sub") or {}):
            if y.get("k") != "cond":
                continue
            x, z = strip_casts(y.get("x") or {}), strip_casts(y.get("y") or {})
            if not (x and z and x.get("dk") == "enumc" and z.get("dk") == "enumc" and x.get("en") == "CPPVisibility" and z.get("en") == "CPPVisibility"):
                continue
            c = strip_casts(y.get("c") or {})
            if not (c and c.get("k") == "bin" and c.get("op") in ("==", "!=")):
                continue
            a, b = strip_casts(c.get("x") or {}), strip_casts(c.get("y") or {})
            if b is not None and b.get("dk") != "enumc":
                a, b = b, a
            if not (b and b.get("dk") == "enumc" and b.get("en") == "CPPExtensionType::Type" and a and (a.get("n") or "").endswith("extension_enum")):
                continue
            n += 1
            lhs = (bc.get(cs.get("v")) or ("case %s" % cs.get("v"),))[0]
            bad = []
            for kname in keys:
                holds = (("CPPExtensionType::" + kname) == b.get("n")) == (c.get("op") == "==")
                got = (x if holds else z).get("n")
                want = "V_private" if kname == "T_class" else "V_public"
                if got != want:
                    bad.append("%s starts %s" % (kname, got))
            ctx.ob("R10.14", "%s|starting-visibility|private-for-class-only" % lhs, not bad, "src/cppparser/cppBison.yxx (case %s, generated line %s)" % (cs.get("v"), y.get("l")),
                   "class: private, struct and union: public" if not bad else "; ".join(bad))
    ctx.floor("R10.14", "grammar actions that pick a starting visibility from the class key", n, 2)
