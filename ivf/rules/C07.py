"""C07 — recorded constants equal the values the C++ compiler computes.

Decided:
  R07.1 each expression production builds the node of its own operator with
        operands in source order; the three expression non-terminals agree.
  R07.2 the %left/%right declarations order the operators as ISO C++ does.
  R07.3 the evaluator computes, for each operator label, the C++ operator of
        the same name on (r1, r2) in order, as_integer in the integer branch
        and as_real in the real branch; logical operators yield a boolean;
        operators that cannot be evaluated yield the error result.
  R07.4 every operator constant that can be constructed has a case in
        evaluate / determine_type / output.
  R07.5 integer division and remainder are guarded against a zero divisor and
        INT_MIN / -1.
  R07.6 the builder stores as_integer() only of results known to be integers.
Not decided: literal scanning (get_number, escapes), int overflow behaviour.
"""
import json
import os
import re

from ..facts import peel, strip_casts, show, walk, cond_atom
from .common import callee_short, field_of, base_of, assigned_target, const_int, local_ref
from .C04 import switch_arms
from . import gates as G
from .. import grammar as GR

LEVEL = "other"
EXPLANATION = ("Table agreement between the bison grammar (productions, precedence), the operator switch of CPPExpression::evaluate/"
               "determine_type/output and reference tables for ISO C++ precedence and operator semantics, plus trap guards and the "
               "consumers in the builder.  Structural necessary conditions; numeric behaviour of literal scanning is not decided.")
TRUSTED = ["clang 14 AST/CFG", "bison's reading of %left/%right (re-implemented in ivf/grammar.py and cross-checked against the token enum clang sees)",
           "ivf/spec/cxx_precedence.json and ivf/spec/evaluator.json (transcribed from ISO C++ [expr])"]
ASSUMPTIONS = ["operands and results fit in int (the property's own bound)"]

EXPR_NTS = ["const_expr", "no_angle_bracket_const_expr", "formal_const_expr"]
UNARY = {"'!'": "UNARY_NOT", "'~'": "UNARY_NEGATE", "'-'": "UNARY_MINUS", "'+'": "UNARY_PLUS", "'*'": "UNARY_STAR", "'&'": "UNARY_REF"}


def _spec(name):
    return json.load(open(os.path.join(os.path.dirname(os.path.dirname(__file__)), "spec", name)))


def token_values(db):
    """name -> int for bison tokens, plus char constants."""
    e = db.enums.get("yytokentype") or db.enums.get("cppyytokentype")
    if e is None:
        for k, v in db.enums.items():
            if "bison" in v["file"] and any(c["n"] == "OROR" for c in v["consts"]):
                e = v
    if e is None:
        raise Exception("token enum not found")
    return {c["n"]: c["v"] for c in e["consts"]}


def op_value(tok, tv):
    if tok.startswith("'"):
        body = tok[1:-1]
        if body.startswith("\\"):
            return {"\\n": 10, "\\t": 9, "\\\\": 92, "\\'": 39}.get(body, None)
        return ord(body)
    return tv.get(tok)


def op_name(v, tv_rev):
    if v in tv_rev:
        return tv_rev[v]
    if isinstance(v, int) and 32 <= v < 127:
        return "'%s'" % chr(v)
    return str(v)


def operator_alphabet(ctx, db, g, tv, tv_rev):
    """value -> where constructed, for every operator constant passed to CPPExpression(int, CPPExpression*, …)."""
    alphabet = {}
    for nt, alts in g.rules.items():
        for a in alts:
            for act in [a.action] + a.mid_actions:
                for m in GR.EXPR_CTOR.finditer(act or ""):
                    op = m.group(1)
                    if "::" in op or op == "CPPExpression" or not (op.startswith("'") or op.isupper() or "_" in op and op.upper() == op):
                        continue
                    if re.match(r"^\$", op):
                        continue
                    v = op_value(op, tv)
                    if v is not None:
                        alphabet.setdefault(v, "cppBison.yxx:%d (%s)" % (a.line, nt))
    # C++ construction sites outside the grammar
    for f in db.functions:
        if f.name == "cppyyparse":
            continue
        for n in f.walk():
            if n.get("k") in ("ctor", "new") and n.get("k") == "ctor" and n.get("f") == "CPPExpression::CPPExpression" and n.get("s", "").startswith("void (int, CPPExpression *"):
                v = const_int(n["a"][0]) if n.get("a") else None
                if v is not None:
                    alphabet.setdefault(v, f.loc(n))
    # cross-validation: clang's view of the grammar actions
    yy = db.fn("cppyyparse")
    clang_ops = set()
    for n in yy.walk():
        if n.get("k") == "ctor" and n.get("f") == "CPPExpression::CPPExpression" and n.get("s", "").startswith("void (int, CPPExpression *"):
            v = const_int(n["a"][0]) if n.get("a") else None
            if v is not None:
                clang_ops.add(v)
    gram_ops = {v for v, where in alphabet.items() if where.startswith("cppBison.yxx")}
    if clang_ops != gram_ops:
        ctx.broken("grammar reader and clang disagree on the operator constants built by the actions: only-reader %s, only-clang %s" % (
            sorted(op_name(v, tv_rev) for v in gram_ops - clang_ops), sorted(op_name(v, tv_rev) for v in clang_ops - gram_ops)))
    return alphabet


def run(ctx):
    db = ctx.db
    g = GR.Grammar(db.meta["grammar"])
    tv = token_values(db)
    tv_rev = {v: k for k, v in tv.items()}
    ctx.rule("R07.1", "each expression alternative `E op E` / `op E` / `E ? E : E` / `E [ E ]` / `E ( E )` constructs CPPExpression(op, operands in source order); the three expression non-terminals agree alternative by alternative")
    ctx.rule("R07.2", "relative precedence and associativity of the operator tokens equal ISO C++ [expr]; every unary alternative carries %prec UNARY, above all binary operators")
    ctx.rule("R07.3", "each arm of evaluate()'s operator switch returns the C++ operator of its label applied to (r1, r2) in order — as_integer in the integer branch, as_real in the real branch; logical operators return a value built from as_boolean(); unevaluable operators return the error result")
    ctx.rule("R07.4", "every operator constant passed to a CPPExpression(int, ...) constructor (grammar actions and C++ code) is a case label of evaluate(), of determine_type() and of output()")
    ctx.rule("R07.5", "integer / and % are dominated by a test excluding a zero divisor (and INT_MIN / -1) or an error return")
    ctx.rule("R07.6", "the builder stores as_integer() of an evaluate() result only under a test that the result is an integer / not the error result")

    # ------------------------------------------------------------ R07.1
    n_alts = 0
    shapes = {}
    for nt in EXPR_NTS:
        if nt not in g.rules:
            ctx.broken("grammar: non-terminal %s not found" % nt)
        shapes[nt] = set()
        for a in g.rules[nt]:
            ea = GR.expr_action(a)
            syms = [s for s in a.syms if s != "@action"]
            is_e = lambda s: s in EXPR_NTS or s in ("const_expr_comma",)
            want = None
            if len(syms) == 3 and is_e(syms[0]) and is_e(syms[2]) and not is_e(syms[1]):
                want = (syms[1], [1, 3], "binary")
            elif len(syms) == 2 and syms[0] in UNARY and is_e(syms[1]):
                want = (UNARY[syms[0]], [2], "unary")
            elif len(syms) == 5 and syms[1] == "'?'" and syms[3] == "':'":
                want = ("'?'", [1, 3, 5], "ternary")
            elif len(syms) == 4 and is_e(syms[0]) and syms[1] == "'['" and syms[3] == "']'":
                want = ("'['", [1, 3], "subscript")
            elif len(syms) == 4 and is_e(syms[0]) and syms[1] == "'('" and syms[3] == "')'" and is_e(syms[2]):
                want = ("'f'", [1, 3], "call")
            elif len(syms) == 3 and is_e(syms[0]) and syms[1] == "'('" and syms[2] == "')'":
                want = ("'f'", [1], "call0")
            if want is None:
                continue
            n_alts += 1
            shapes[nt].add((want[2], want[0]))
            inst = "%s|%s|%s" % (nt, want[2], " ".join(syms))
            site = "src/cppparser/cppBison.yxx:%d" % a.line
            if ea is None:
                ctx.ob("R07.1", inst, False, site, "action does not construct a CPPExpression(op, …): %s" % (a.action or "").strip()[:80])
                continue
            op, pos, extra = ea
            ctx.ob("R07.1", inst, op == want[0] and pos == want[1], site,
                   "builds CPPExpression(%s, %s); the production's operator is %s with operands %s" % (op, ["$%d" % p for p in pos], want[0], ["$%d" % p for p in want[1]]))
            if want[2] == "unary":
                ctx.ob("R07.2", "%s|unary-prec|%s" % (nt, syms[0]), a.prec == "UNARY", site, "%%prec %s (expected UNARY)" % a.prec)
    ctx.floor("R07.1", "operator alternatives", n_alts, 3 * 28)
    # sibling agreement (angle brackets are excluded from the no_angle_bracket variant by design)
    base = shapes["const_expr"]
    # frozen, reasoned differences: angle brackets are what the no_angle_bracket variant excludes;
    # the grammar documents that formal_const_expr forbids unparenthesised forms that conflict with
    # a formal parameter list (a leading `*` would read as a pointer declarator)
    allowed_missing = {"no_angle_bracket_const_expr": {("binary", "'<'"), ("binary", "'>'")},
                       "formal_const_expr": {("unary", "UNARY_STAR")}}
    for nt in EXPR_NTS[1:]:
        miss = base - shapes[nt] - allowed_missing.get(nt, set())
        extra = shapes[nt] - base
        ctx.ob("R07.1", "%s|same-operators-as-const_expr" % nt, not miss and not extra, "src/cppparser/cppBison.yxx",
               "missing %s, extra %s" % (sorted(miss), sorted(extra)))

    # ------------------------------------------------------------ R07.2
    spec = _spec("cxx_precedence.json")
    lv = {}
    for i, level in enumerate(spec["levels"]):
        for t in level["tokens"]:
            lv[t] = (i, level["assoc"])
    used = sorted({op for nt in EXPR_NTS for (k, op) in shapes[nt] if k in ("binary", "ternary")})
    n_pairs = 0
    for t in used:
        if t not in lv:
            ctx.info("R07.2 operator %s has no ISO level in the spec (not judged)" % t)
            continue
        gl = g.level(t)
        ctx.ob("R07.2", "declared|%s" % t, gl is not None, "src/cppparser/cppBison.yxx", "operator %s %s a precedence declaration" % (t, "has" if gl else "has NO"))
        if gl is None:
            continue
        ctx.ob("R07.2", "assoc|%s" % t, gl[1] == lv[t][1], "src/cppparser/cppBison.yxx", "%s is %%%s, ISO says %s" % (t, gl[1], lv[t][1]))
    judged = [t for t in used if t in lv and g.level(t) is not None]
    for i, a in enumerate(judged):
        for b in judged[i + 1:]:
            n_pairs += 1
            sg = (g.level(a)[0] > g.level(b)[0]) - (g.level(a)[0] < g.level(b)[0])
            ss = (lv[a][0] > lv[b][0]) - (lv[a][0] < lv[b][0])
            if sg != ss:
                ctx.ob("R07.2", "order|%s-vs-%s" % (a, b), False, "src/cppparser/cppBison.yxx",
                       "grammar binds %s %s %s; ISO C++ binds it %s" % (a, {1: "tighter than", 0: "like", -1: "looser than"}[sg], b, {1: "tighter", 0: "equally", -1: "looser"}[ss]))
    ctx.ob("R07.2", "order|all-pairs", True, "src/cppparser/cppBison.yxx", "%d operator pairs compared with ISO C++" % n_pairs)
    # the conditional alternative takes its precedence from %prec or its last terminal (bison's rule); facing a
    # look-ahead operator, bison shifts iff the rule's level is lower (or equal and %right).  ISO C++ makes the third
    # operand an assignment-expression: every binary operator and a further `?` must be shifted into it.
    n_tern = 0
    for nt in EXPR_NTS:
        for a in g.rules[nt]:
            syms = [s for s in a.syms if s != "@action"]
            if not (len(syms) == 5 and syms[1] == "'?'" and syms[3] == "':'"):
                continue
            n_tern += 1
            rp_tok = a.prec or next((s for s in reversed(syms) if s.startswith("'") or s.isupper()), None)
            rp = g.level(rp_tok) if rp_tok else None
            site = "src/cppparser/cppBison.yxx:%d" % a.line
            if rp is None:
                ctx.ob("R07.2", "%s|conditional|rule-precedence" % nt, False, site, "the conditional alternative has no precedence (token %s)" % rp_tok)
                continue
            bad = []
            for t in judged:
                tl = g.level(t)
                shift = rp[0] < tl[0] or (rp[0] == tl[0] and tl[1] == "right")
                if not shift:
                    bad.append(t)
            ctx.ob("R07.2", "%s|conditional|else-branch-extends-right" % nt, not bad, site,
                   "rule precedence is that of %s (level %d); look-ahead operators that would end the else-branch early: %s" % (rp_tok, rp[0], bad or "none"))
    ctx.floor("R07.2", "conditional alternatives", n_tern, 3)
    un = g.level("UNARY")
    ctx.ob("R07.2", "unary-above-binary", un is not None and all(un[0] > g.level(t)[0] for t in judged) and un[1] == "right", "src/cppparser/cppBison.yxx",
           "UNARY level %s vs binary levels" % (un,))
    ctx.floor("R07.2", "operator pairs", n_pairs, 150)

    # ------------------------------------------------------------ R07.3
    ev = db.fn("CPPExpression::evaluate")
    sw = None
    for n in ev.walk():
        if n.get("k") == "switch" and (field_of(n["c"]) or "").endswith("_operator"):
            sw = n
    if sw is None:
        ctx.broken("evaluate(): operator switch not found")
    arms = switch_arms(sw)
    # r1 / r2: the Result locals assigned from _op1 / _op2 ->evaluate()
    rv = {}
    for n in ev.walk():
        t = assigned_target(n)
        if t:
            l = local_ref(t[0])
            r = peel(t[1])
            if l is not None and r is not None and r.get("k") == "call" and callee_short(r) == "evaluate" and "this" in r:
                f = field_of(r["this"]) or ""
                if f.endswith("_op1"):
                    rv.setdefault(l["d"], "r1")
                elif f.endswith("_op2"):
                    rv.setdefault(l["d"], "r2")
    if set(rv.values()) != {"r1", "r2"}:
        ctx.broken("evaluate(): operand result variables not identified")
    evspec = _spec("evaluator.json")
    labels = {}
    for labs, stmts in arms:
        for v in labs:
            labels[v] = stmts
    n_arm = 0

    def operand(e):
        """('int'|'real'|'bool'|'raw', 'r1'|'r2') for r.as_X() / r"""
        # a conversion of the operand to another arithmetic type changes the operation (a right shift in the unsigned
        # domain is a logical shift; a comparison in the unsigned domain orders -1 above 1): only conversions that
        # keep int / double / bool are looked through
        q = peel(e)
        while q is not None and q.get("k") == "cast":
            ty = (q.get("ty") or "").replace("const ", "").strip()
            if ty in ("unsigned int", "unsigned") and getattr(operand, "ring_op", False):
                pass     # + - * << & | ^ give the same 32 bits in the unsigned domain (and avoid signed overflow)
            elif ty and ty not in ("int", "double", "bool", "long double") and not ty.startswith("CPPExpression") and "Result" not in ty:
                return None
            q = peel(q.get("e"))
        e = strip_casts(e)
        if e is None:
            return None
        if e.get("k") == "call" and "this" in e and callee_short(e) in ("as_integer", "as_real", "as_boolean", "as_pointer"):
            r = local_ref(e["this"])
            if r is not None and r.get("d") in rv:
                return ({"as_integer": "int", "as_real": "real", "as_boolean": "bool", "as_pointer": "ptr"}[callee_short(e)], rv[r["d"]])
        r = local_ref(e)
        if r is not None and r.get("d") in rv:
            return ("raw", rv[r["d"]])
        return None

    def result_arg(ret):
        """expression inside `return Result(e)`; ('bare', rX) for `return rX`; ('error',) for Result()"""
        e = peel(ret.get("e"))
        while e is not None and e.get("k") in ("ctor", "cast") and (e.get("f", "").startswith("CPPExpression::Result::Result") or e.get("k") == "cast"):
            if e.get("k") == "cast":
                e = peel(e["e"])
                continue
            args = e.get("a", [])
            if not args:
                return ("error",)
            if len(args) == 1 and "Result" in (args[0].get("t") or "") and args[0].get("k") in ("ctor",):
                e = peel(args[0])
                continue
            inner = peel(args[0])
            if inner is not None and inner.get("k") == "ctor" and inner.get("f", "").startswith("CPPExpression::Result::Result"):
                e = inner
                continue
            return ("value", args[0])
        r = local_ref(e)
        if r is not None and r.get("d") in rv:
            return ("bare", rv[r["d"]])
        if e is not None and e.get("k") == "cond":
            return ("cond", e)
        if e is not None and e.get("k") == "call":
            return ("call", e)
        return ("other", e)

    for name, sp in evspec["operators"].items():
        v = op_value(name, tv)
        if v is None:
            ctx.broken("evaluator.json names unknown token %s" % name)
        stmts = labels.get(v)
        site = ev.loc(stmts[0]) if stmts else ev.loc(sw)
        if stmts is None:
            # absence is R07.4's business
            continue
        n_arm += 1
        rets = [x for s in stmts for x in walk(s) if x.get("k") == "ret"]
        kind = sp["kind"]
        inst = "evaluate|%s" % name
        if kind == "unevaluated":
            ok = bool(rets) and all(result_arg(r)[0] == "error" for r in rets)
            ctx.ob("R07.3", inst, ok, site, "operator %s cannot be evaluated: must return Result() (got %s)" % (name, [result_arg(r)[0] for r in rets]))
        elif kind == "binary":
            ok = True
            why = []
            seen_int = seen_real = False
            for r in rets:
                ra = result_arg(r)
                if ra[0] == "error":
                    continue   # guard returns (division by zero, …)
                if ra[0] != "value":
                    ok = False
                    why.append("returns %s" % ra[0])
                    continue
                e = strip_casts(ra[1])
                form = _binform(e, operand)
                if form is None:
                    ok = False
                    why.append("unrecognised %s" % show(e))
                    continue
                cop, ta, tb = form
                if cop != sp["op"]:
                    ok = False
                    why.append("computes `%s`, label means `%s`" % (cop, sp["op"]))
                if (ta[1], tb[1]) != ("r1", "r2"):
                    ok = False
                    why.append("operands (%s, %s) instead of (r1, r2)" % (ta[1], tb[1]))
                if ta[0] != tb[0]:
                    ok = False
                    why.append("mixed accessors %s/%s" % (ta[0], tb[0]))
                if ta[0] == "int":
                    seen_int = True
                if ta[0] == "real":
                    seen_real = True
                    # real branch must be under an RT_real test
                    if not _under_real_test(ev, r):
                        ok = False
                        why.append("as_real() outside the RT_real branch")
            if not seen_int:
                ok = False
                why.append("no integer computation")
            if sp.get("real") and not seen_real:
                ok = False
                why.append("no real branch")
            if not sp.get("real") and seen_real:
                ok = False
                why.append("real branch for an integer-only operator")
            ctx.ob("R07.3", inst, ok, site, "; ".join(why) if why else "computes r1 %s r2 (%s)" % (sp["op"], "int and real" if sp.get("real") else "int"))
        elif kind == "unary":
            ok = False
            why = ""
            for r in rets:
                ra = result_arg(r)
                if sp["op"] == "+":
                    ok = ra == ("bare", "r1")
                    why = "returns %s" % (ra,)
                elif ra[0] in ("value", "cond"):
                    es = [ra[1]] if ra[0] == "value" else [x for x in walk(ra[1]) if x.get("k") == "ctor" and x.get("a")]
                    cands = []
                    for e in ([strip_casts(ra[1])] if ra[0] == "value" else [strip_casts(x["a"][0]) for x in es]):
                        if e is not None and e.get("k") == "un":
                            o = operand(e["e"])
                            cands.append((e["op"], o))
                        elif e is not None and e.get("k") == "call" and e.get("opc") and len(e.get("a", [])) == 1:
                            cands.append((callee_short(e)[8:], operand(e["a"][0])))
                    want_acc = sp["accessor"]
                    ok = bool(cands) and all(c[0] == sp["op"] and c[1] is not None and c[1][1] == "r1" and c[1][0] in want_acc for c in cands)
                    why = "computes %s" % cands
            ctx.ob("R07.3", inst, ok, site, why)
        elif kind == "logical":
            # a bare operand may be returned only where it is known to be the error result
            def is_error(atom, truth):
                c = G.cmp_atom(atom)
                if not c:
                    return False
                op, a, b = c
                o = op if truth else G.NEG[op]
                for x, y in ((a, b), (b, a)):
                    if (field_of(x) or "").endswith("Result::_type") and y is not None and y.get("k") == "ref" and y["n"].endswith("RT_error"):
                        return o == "=="
                return False
            err_edges = G.edges_where(ev, is_error)
            bad = [r for r in rets if result_arg(r)[0] == "bare" and not G.gated(ev, r, err_edges)]
            good = [r for r in rets if result_arg(r)[0] == "value"]
            ok = not bad and bool(good)
            for r in good:
                e = result_arg(r)[1]
                if not all(o is None or o[0] == "bool" for o in [operand(x) for x in walk(e) if x.get("k") == "call" and "this" in x and callee_short(x).startswith("as_")]):
                    ok = False
            ctx.ob("R07.3", inst, ok, ev.loc(bad[0]) if bad else site,
                   "operator %s must yield 0/1 built from as_boolean(); %s" % (name, "returns an operand unchanged (e.g. `5 %s 0` evaluates to 5)" % sp["op"] if bad else "ok"))
        elif kind == "conditional":
            ok = False
            for r in rets:
                ra = result_arg(r)
                if ra[0] == "cond":
                    c = ra[1]
                    co = operand(c["c"])
                    # contextually converted to bool: a floating condition in (-1, 1) is true unless it is 0.0
                    ok = co is not None and co == ("bool", "r1") and "_op2" in show(c["x"]) and "_op3" in show(c["y"])
            ctx.ob("R07.3", inst, ok, site, "selects _op2 when r1.as_boolean() is true, else _op3 (not as_integer(): 0.5 is true)")
        elif kind == "comma":
            ok = all(result_arg(r) == ("bare", "r2") for r in rets) and bool(rets)
            ctx.ob("R07.3", inst, ok, site, "returns the right operand")
        elif kind == "spaceship":
            ok = bool(rets)
            for r in rets:
                ra = result_arg(r)
                if ra[0] != "value":
                    ok = False
                    continue
                e = strip_casts(ra[1])
                if not (e.get("k") == "bin" and e["op"] == "-"):
                    ok = False
                    continue
                gt, lt = _binform(strip_casts(e["x"]), operand), _binform(strip_casts(e["y"]), operand)
                if not (gt and lt and gt[0] == ">" and lt[0] == "<" and (gt[1][1], gt[2][1]) == ("r1", "r2") and (lt[1][1], lt[2][1]) == ("r1", "r2")):
                    ok = False
            ctx.ob("R07.3", inst, ok, site, "computes (r1 > r2) - (r1 < r2)")
    ctx.floor("R07.3", "evaluator arms judged", n_arm, 30)

    # ------------------------------------------------------------ R07.4
    alphabet = operator_alphabet(ctx, db, g, tv, tv_rev)
    ctx.floor("R07.4", "operator alphabet", len(alphabet), 32)
    for fname, sig in (("CPPExpression::evaluate", None), ("CPPExpression::determine_type", None), ("CPPExpression::output", "int")):
        fn = db.fn(fname, sig_contains=sig)
        sws = [n for n in fn.walk() if n.get("k") == "switch" and (field_of(n["c"]) or "").endswith("_operator")]
        if not sws:
            ctx.broken("%s: operator switch not found" % fname)
        labs = set()
        default_ok = False
        for s in sws:
            for labels_, stmts in switch_arms(s):
                for v in labels_:
                    if v == "default":
                        # a default that does not abort handles everything generically
                        if not any(c.get("k") == "call" and c.get("f") in ("abort", "std::abort") for st in stmts for c in walk(st)):
                            default_ok = True
                    else:
                        labs.add(v)
        short = fname.split("::")[-1]
        # output() has one switch per arity; the alphabet is checked against their union
        for v, where in sorted(alphabet.items(), key=lambda kv: str(kv[0])):
            ok = v in labs or default_ok
            ctx.ob("R07.4", "%s|case|%s" % (short, op_name(v, tv_rev)), ok, fn.loc(sws[0]),
                   "operator %s (constructed at %s) %s in %s()%s" % (op_name(v, tv_rev), where, "has a case" if ok else "has NO case", short,
                                                                  "" if ok else ": the default branch aborts"))

    # ------------------------------------------------------------ R07.5
    n_div = 0
    for n in ev.walk():
        if n.get("k") == "bin" and n.get("op") in ("/", "%") and n.get("t") in ("int", "long", "long long", "unsigned int"):
            d = strip_casts(n["y"])
            if const_int(d) not in (None, 0):
                continue
            n_div += 1
            ds = show(d)

            def nonzero(atom, truth):
                c = G.cmp_atom(atom)
                if c:
                    op, a, b = c
                    for x, y in ((a, b), (b, a)):
                        if x is not None and show(x) == ds and const_int(y) == 0:
                            o = op if truth else G.NEG[op]
                            return o == "!="
                    return False
                return show(strip_casts(atom)) == ds and truth

            def not_minus_one_or_not_min(atom, truth):
                c = G.cmp_atom(atom)
                if not c:
                    return False
                op, a, b = c
                o = op if truth else G.NEG[op]
                for x, y in ((a, b), (b, a)):
                    if x is not None and show(x) == ds and const_int(y) == -1 and o == "!=":
                        return True
                    if y is not None and y.get("k") in ("ref",) and "INT_MIN" in y.get("n", "") and o == "!=":
                        return True
                    if const_int(y) == -2147483648 and o == "!=":
                        return True
                return False
            ok0 = G.gated(ev, n, G.edges_where(ev, nonzero))
            ok1 = G.gated(ev, n, G.edges_where(ev, not_minus_one_or_not_min))
            ctx.ob("R07.5", "evaluate|%s|zero-divisor" % n["op"], ok0, ev.loc(n), "integer `%s` by %s is %sguarded against a zero divisor (SIGFPE)" % (n["op"], ds, "" if ok0 else "NOT "))
            ctx.ob("R07.5", "evaluate|%s|int-min-by-minus-one" % n["op"], ok1, ev.loc(n), "integer `%s` is %sguarded against INT_MIN %s -1 (SIGFPE on x86)" % (n["op"], "" if ok1 else "NOT ", n["op"]))
    ctx.floor("R07.5", "integer divisions in evaluate()", n_div, 2)

    # ------------------------------------------------------------ R07.7
    char_literal_values(ctx)
    digit_strings(ctx)
    implicit_enumerators(ctx)
    literal_narrowing(ctx)
    cast_width(ctx)
    trait_productions(ctx)
    short_circuit_second_operand(ctx)
    printed_operations_keep_their_grouping(ctx)
    escape_sequences_follow_the_standard(ctx)
    hex_escapes_run_to_the_last_hex_digit(ctx)
    alternative_tokens_follow_the_standard(ctx)
    macro_expansions_are_spliced_unchanged(ctx)

    # ------------------------------------------------------------ R07.6
    n_c = 0
    # every consumer in the builder and the generators (found by the callee, so a new one is included)
    consumers = []
    for fn0 in db.functions:
        if "/interrogate/" in fn0.file and not fn0.file.endswith("parse_file.cxx") and any(
                c.get("k") == "call" and c.get("f") == "CPPExpression::Result::as_integer" for c in fn0.walk()):
            consumers.append(fn0)
    for fn in consumers:
        fname = fn.name
        for c in fn.walk():
            if c.get("k") == "call" and c.get("f") == "CPPExpression::Result::as_integer" and "this" in c:
                n_c += 1
                obj = peel(c["this"])
                r = local_ref(obj)
                if r is None:
                    ctx.ob("R07.6", "%s|as_integer-of-untested-result" % fname.split("::")[-1], False, fn.loc(c),
                           "%s stores as_integer() of an unnamed evaluate() result: an unevaluable expression is recorded as 0" % show(c))
                    continue

                def is_int(atom, truth, d=r["d"]):
                    cc = G.cmp_atom(atom)
                    if not cc:
                        return False
                    op, a, b = cc
                    o = op if truth else G.NEG[op]
                    for x, y in ((a, b), (b, a)):
                        if (field_of(x) or "").endswith("Result::_type") and (local_ref(base_of(x)) or {}).get("d") == d and y is not None and y.get("k") == "ref":
                            nm = y["n"].split("::")[-1]
                            if (nm in ("RT_integer", "RT_pointer") and o == "==") or (nm == "RT_error" and o == "!="):
                                return True
                    return False
                ok = G.gated(fn, c, G.edges_where(fn, is_int))
                ctx.ob("R07.6", "%s|as_integer-under-type-test" % fname.split("::")[-1], ok, fn.loc(c),
                       "as_integer() of %s is %sbehind a test of its result type" % (r["n"], "" if ok else "NOT "))
    ctx.floor("R07.6", "as_integer() consumers in the builder", n_c, 3)
    # an enumerator whose initialiser cannot be evaluated must not be stored (it would carry the previous value + 1)
    fe = db.fn("InterrogateBuilder::define_enum_type")
    pushes = [c for c in fe.walk() if c.get("k") == "call" and callee_short(c) == "push_back" and (field_of(c.get("this")) or "").endswith("_enum_values")]

    def is_error(atom, truth):
        cc = G.cmp_atom(atom)
        if not cc:
            return False
        op, a, b = cc
        o = op if truth else G.NEG[op]
        for x, y in ((a, b), (b, a)):
            if (field_of(x) or "").endswith("Result::_type") and y is not None and y.get("k") == "ref":
                nm = y["n"].split("::")[-1]
                if (nm == "RT_error" and o == "==") or (nm == "RT_integer" and o == "!="):
                    return True
        return False
    err_edges = G.edges_where(fe, is_error)
    heads = C12_loop_heads(fe.cfg)
    ok = bool(err_edges) and bool(pushes)
    for (b, idx) in err_edges:
        s_ = fe.cfg.blocks[b].succs[idx]
        if s_ is None:
            continue
        reach = fe.cfg.reachable(s_, cut_blocks=heads)
        for pcall in pushes:
            if fe.cfg.locate(pcall)[0] in reach:
                ok = False
    ctx.ob("R07.6", "define_enum_type|unevaluable-enumerator-not-stored", ok, fe.loc(pushes[0]) if pushes else fe.loc(),
           "after `result._type == RT_error` the element is %s" % ("not stored" if ok else "still pushed into _enum_values with the running counter as its value (a wrong number)"))
    # enumerator increment: exactly once per element
    incs = [n for n in fe.walk() if n.get("k") == "un" and n.get("op") in ("post++", "++") and (local_ref(n["e"]) or {}).get("dk") == "local"]
    nv = [n for n in incs if "next" in (local_ref(n["e"]) or {}).get("n", "") or True]
    loops = [n for n in fe.walk() if n.get("k") == "for"]
    ok = False
    if loops:
        body_incs = [n for n in walk(loops[0]["body"]) if n.get("k") == "un" and n.get("op") in ("post++", "++")]
        stores = [n for n in walk(loops[0]["body"]) if assigned_target(n) and (field_of(assigned_target(n)[0]) or "").endswith("EnumValue::_value")]
        if len(body_incs) == 1 and len(stores) == 1:
            v = local_ref(body_incs[0]["e"])
            sv = local_ref(assigned_target(stores[0])[1])
            a, b = fe.cfg.locate(stores[0]), fe.cfg.locate(body_incs[0])
            ok = v is not None and sv is not None and v["d"] == sv["d"] and a[0] == b[0] and a[1] < b[1]
    ctx.ob("R07.6", "define_enum_type|implicit-increment", ok, fe.loc(), "the stored value is the running counter, incremented exactly once after each element")


def C12_loop_heads(cfg):
    heads = set()
    dom = cfg.dominators()
    for b, idx, s in cfg.edges():
        if b in dom and s in dom.get(b, ()):
            heads.add(s)
    return heads


def _binform(e, operand):
    """(op, lhs operand, rhs operand) of `a OP b` with a, b operand accessors."""
    if e is None:
        return None
    if e.get("k") == "bin":
        operand.ring_op = e.get("op") in ("+", "-", "*", "<<", "&", "|", "^")
        try:
            a, b = operand(e["x"]), operand(e["y"])
        finally:
            operand.ring_op = False
        if a and b:
            return e["op"], a, b
    return None


def _under_real_test(fn, node):
    def is_real(atom, truth):
        c = G.cmp_atom(atom)
        if not c:
            return False
        op, a, b = c
        o = op if truth else G.NEG[op]
        for x, y in ((a, b), (b, a)):
            if (field_of(x) or "").endswith("Result::_type") and y is not None and y.get("k") == "ref" and y["n"].endswith("RT_real"):
                return o == "=="
        return False
    return G.gated(fn, node, G.edges_where(fn, is_real))



_INT_TYPES = {
    # name -> (bits, signed)
    "char": (8, True), "signed char": (8, True), "unsigned char": (8, False), "short": (16, True), "unsigned short": (16, False),
    "int": (32, True), "unsigned int": (32, False), "unsigned": (32, False), "long": (64, True), "unsigned long": (64, False),
    "long long": (64, True), "unsigned long long": (64, False), "size_t": (64, False), "uint8_t": (8, False), "int8_t": (8, True),
}


def _wrap(v, ty):
    bits, signed = _INT_TYPES[ty]
    v &= (1 << bits) - 1
    if signed and v >= 1 << (bits - 1):
        v -= 1 << bits
    return v


def char_literal_values(ctx):
    """R07.7: a plain character literal has type char; on this platform (x86-64 SysV, char signed) its value as an int is
    the sign-extended byte.  The scanner turns the scanned byte str[0] into the token's integer; the conversion chain is
    evaluated from the expression tree at sample bytes and compared with what the compiler computes."""
    db = ctx.db
    ctx.rule("R07.7", "every site that stores the first byte of a scanned character literal as the token's integer value converts it like the compiler does, evaluated at the bytes 0x00, 0x41, 0x7f, 0x80, 0xff: (int)(char)b for a plain literal, b for L'..'/u'..'/U'..'")
    n = 0
    seen = {}
    for f in db.functions:
        if not f.file.endswith("cppPreprocessor.cxx"):
            continue
        for x in f.walk():
            t = assigned_target(x)
            if not t or not (field_of(t[0]) or "").endswith("::integer"):
                continue
            # rhs = casts around  <string local>[0]
            chain = []
            e = t[1]
            elem = None
            while e is not None:
                if e.get("k") == "cast":
                    chain.append(e.get("ty"))
                    e = e.get("e")
                    continue
                pe = peel(e)
                if pe is not e:
                    e = pe
                    continue
                if e.get("k") == "call" and e.get("f") in ("std::basic_string::operator[]", "std::basic_string::at") and const_int((e.get("a") or [None])[-1]) == 0:
                    elem = e
                break
            if elem is None:
                continue
            n += 1
            types = [ty.replace("const ", "").strip() for ty in reversed(chain) if ty]
            unknown = [ty for ty in types if ty not in _INT_TYPES]
            inst = "%s|char-literal-value" % f.name
            if unknown:
                ctx.ob("R07.7", inst, False, f.loc(x), "conversion through %s cannot be evaluated" % unknown)
                continue
            # a site behind tests of the prefix spelling (L, u, U, u8) handles wide / unicode literals, whose types are
            # unsigned on this platform: L'\xff' == 255
            prefixed = any(y.get("k") == "str" and y.get("v") in ("L", "u", "U") for y in f.walk())
            if prefixed:
                inst = "%s|prefixed-char-literal-value" % f.name
            bad = []
            for b in (0x00, 0x41, 0x7f, 0x80, 0xff):
                v = _wrap(b, "char")            # what std::string holds
                want = b if prefixed else v     # (int) of a plain char literal / of L'..', u'..', U'..'
                for ty in types:
                    v = _wrap(v, ty)
                v = _wrap(v, "long long")       # the token's integer field
                if v != want:
                    bad.append("byte 0x%02x -> %d, compiler %d" % (b, v, want))
            seen[inst] = tuple(types)
            ctx.ob("R07.7", inst, not bad, f.loc(x), "`%s` converts through %s: %s" % (show(x), types or ["(implicit)"], "; ".join(bad) if bad else "equal to the compiler's value at all sample bytes"))
    ctx.floor("R07.7", "character-literal value sites", n, 2)




def digit_strings(ctx):
    """R07.8: get_number() collects a literal's digits in a std::string and converts it with strtol/pstrtod.  Each input
    character must enter the string exactly once: a string seeded with a character that was only *peeked* receives the
    same character again from the first get() of the collecting loop (0b101 -> "1101")."""
    db = ctx.db
    ctx.rule("R07.8", "in the number scanner no digit string is seeded from a character that has only been peeked (its last assignment is from peek()/skip_digit_separator(peek())) when the string is then extended with get(); and every string handed to strtol/strtoul/pstrtod is one of these digit strings")
    fn = db.fn("CPPPreprocessor::get_number")
    cfg = fn.cfg
    n = 0
    seeded = {}
    for st in fn.walk():
        if st.get("k") != "decls":
            continue
        for d in st["d"]:
            if "string" not in (d.get("ct") or d.get("t") or ""):
                continue
            i = strip_casts(peel(d.get("init"))) if d.get("init") is not None else None
            if i is None or i.get("k") != "ctor":
                seeded[d["d"]] = (d, None)
                continue
            args = [a for a in i.get("a", []) if a.get("k") != "defarg"]
            src = local_ref(strip_casts(peel(args[1]))) if len(args) == 2 and const_int(args[0]) == 1 else None
            seeded[d["d"]] = (d, src)
            if src is None:
                continue
            n += 1
            # last assignment to the source character before this declaration, within its block chain
            ld = cfg.locate(st)
            last = None
            for x in fn.walk():
                t = assigned_target(x)
                if t and (local_ref(t[0]) or {}).get("d") == src["d"]:
                    lx = cfg.locate(x)
                    if lx is not None and ld is not None and lx[0] == ld[0] and lx[1] < ld[1]:
                        if last is None or lx[1] > last[0][1]:
                            last = (lx, x, t[1])
            peeked = False
            if last is not None:
                r = strip_casts(peel(last[2]))
                names = [callee_short(c) for c in walk(r) if c.get("k") == "call"]
                peeked = "peek" in names and "get" not in names
            # is the string extended by get() afterwards?
            extended = any(x.get("k") == "call" and callee_short(x) in ("operator+=", "push_back", "append") and (local_ref(x["a"][0] if x.get("opc") else x.get("this")) or {}).get("d") == d["d"]
                           and any(c.get("k") == "call" and callee_short(c) == "get" for c in walk(x)) for x in fn.walk())
            ok = not (peeked and extended)
            ctx.ob("R07.8", "get_number|%s|seed-is-consumed" % d["n"], ok, fn.loc(st),
                   "`%s` is seeded from `%s`, %s" % (d["n"], src["n"], "a character already consumed" if not peeked else "which was only peeked (`%s`), and extended with get(): the first digit enters twice" % show(last[1])[:50]))
    ctx.floor("R07.8", "digit strings seeded from a character", n, 1)
    conv = [c for c in fn.walk() if c.get("k") == "call" and callee_short(c) in ("strtol", "strtoul", "strtoll", "strtoull", "pstrtod", "stoi", "stol", "stoll", "stoul", "stoull", "stod", "stold", "stof")]
    for c in conv:
        a0 = strip_casts(peel(c["a"][0])) if c.get("a") else None
        while a0 is not None and a0.get("k") == "ctor" and len([q for q in a0.get("a", []) if q.get("k") != "defarg"]) == 1:
            a0 = strip_casts(peel(a0["a"][0]))
        if a0 is not None and a0.get("k") == "call" and callee_short(a0) in ("c_str", "data") and "this" in a0:
            a0 = strip_casts(peel(a0["this"]))
        r = local_ref(a0)
        ok = r is not None and r.get("d") in seeded
        ctx.ob("R07.8", "get_number|%s|converts-a-digit-string" % callee_short(c), ok, fn.loc(c), "%s converts %s" % (callee_short(c), show(a0)[:30] if a0 is not None else "?"))
    ctx.floor("R07.8", "numeric conversions in get_number", len(conv), 4)
    # R07.10: C++14 digit separators may stand between any two digits of any digit sequence (hex, binary, decimal,
    # fraction, exponent); each collecting loop must look for one after every digit, with the loop's own digit class
    ctx.rule("R07.10", "every digit-collecting loop of get_number re-reads its look-ahead through skip_digit_separator(); the hexadecimal loop passes hex = true so that a separator may precede a letter digit")
    n10 = 0
    for lp in fn.walk():
        if lp.get("k") != "while":
            continue
        appends = [x for x in walk(lp.get("body") or {}) if x.get("k") == "call" and callee_short(x) == "operator+=" and any(c.get("k") == "call" and callee_short(c) == "get" for c in walk(x))]
        if not appends:
            continue
        n10 += 1
        rereads = [t for t in (assigned_target(x) for x in walk(lp["body"])) if t]
        via = [r for l, r in rereads if any(c.get("k") == "call" and callee_short(c) == "skip_digit_separator" for c in walk(r))]
        hexloop = any(c.get("k") == "call" and callee_short(c) in ("tolower", "isxdigit") for c in walk(lp.get("c") or {}))
        ok = bool(via)
        inst = "get_number|%s-digits" % ("hex" if hexloop else _norm_cond(show(lp.get("c"))))
        ctx.ob("R07.10", inst + "|looks-for-separator", ok, fn.loc(lp), "the loop `%s` %s" % (show(lp.get("c"))[:50], "re-reads through skip_digit_separator()" if ok else "re-reads with a bare peek(): a digit separator ends the literal"))
        if hexloop and via:
            call = [c for c in walk(via[0]) if c.get("k") == "call" and callee_short(c) == "skip_digit_separator"][0]
            a = [x for x in call.get("a", []) if x.get("k") != "defarg"]
            okh = len(a) == 2 and const_int(a[1]) == 1
            ctx.ob("R07.10", inst + "|hex-class", okh, fn.loc(call), "skip_digit_separator is %scalled with hex = true in the hexadecimal loop" % ("" if okh else "NOT "))
    ctx.floor("R07.10", "digit-collecting loops", n10, 5)


def _norm_cond(t):
    import re as _re
    return _re.sub(r"[^A-Za-z0-9]+", "_", t)[:30]




def implicit_enumerators(ctx):
    """R07.9: an enumerator without initialiser has the value of its predecessor plus one ([dcl.enum]/2).
    CPPEnumType::add_element builds that value symbolically; its re-association shortcut `(X + n) + 1 -> X + (n+1)` is
    only an identity for `+`."""
    db = ctx.db
    ctx.rule("R07.9", "in CPPEnumType::add_element every value made for an enumerator without initialiser is predecessor + 1: `k + 1` only when the predecessor is an integer, `X + (n + 1)` only behind `_operator == '+'` with an integer right operand, otherwise '+'(predecessor, 1)")
    fn = db.fn("CPPEnumType::add_element")
    PLUS = ord("+")
    n = 0

    def lastv(e):
        """path below _last_value: '' for _last_value itself, '_u._op._op1', ..."""
        e = strip_casts(peel(e))
        path = []
        while e is not None and e.get("k") == "mem":
            path.append(e["n"].split("::")[-1])
            if e["n"].endswith("CPPEnumType::_last_value"):
                return ".".join(reversed(path[:-1]))
            e = strip_casts(peel(e.get("b")))
        return None

    def plus_one(e):
        e = strip_casts(peel(e))
        return e is not None and e.get("k") == "bin" and e.get("op") == "+" and ((const_int(e["y"]) == 1 and lastv(e["x"]) is not None) or (const_int(e["x"]) == 1 and lastv(e["y"]) is not None))

    def op_is_plus(atom, truth):
        c = G.cmp_atom(atom)
        if not c:
            return False
        op, a, b = c
        if not truth:
            op = G.NEG[op]
        for u, v in ((a, b), (b, a)):
            if (lastv(u) or "").endswith("_operator") and const_int(v) == PLUS:
                return op == "=="
        return False

    def type_is(tname, suffix):
        def holds(atom, truth):
            c = G.cmp_atom(atom)
            if not c:
                return False
            op, a, b = c
            if not truth:
                op = G.NEG[op]
            for u, v in ((a, b), (b, a)):
                lv = lastv(u)
                vv = strip_casts(peel(v))
                if lv is not None and lv == suffix and vv is not None and vv.get("k") == "ref" and vv.get("n", "").endswith(tname):
                    return op == "=="
            return False
        return holds
    ones = {}
    for st in fn.walk():
        if st.get("k") == "decls":
            for d in st["d"]:
                for x in walk(d.get("init") or {}):
                    if x.get("k") == "ctor" and x.get("f", "").startswith("CPPExpression::CPPExpression") and len([a for a in x.get("a", []) if a.get("k") != "defarg"]) == 1:
                        ones[d["d"]] = const_int(x["a"][0])
    for c in fn.walk():
        if c.get("k") != "ctor" or not c.get("f", "").startswith("CPPExpression::CPPExpression"):
            continue
        args = [a for a in c.get("a", []) if a.get("k") != "defarg"]
        if len(args) == 3:
            n += 1
            opv = const_int(args[0])
            p1 = lastv(args[1])
            inst = "add_element|binary@%s" % (p1 if p1 is not None else "other")
            if opv != PLUS:
                ctx.ob("R07.9", inst + "|operator", False, fn.loc(c), "the implicit value is built with operator %s, not the literal '+'" % show(args[0]))
                continue
            if p1 == "":
                r = local_ref(args[2])
                ok = r is not None and ones.get(r.get("d")) == 1
                ctx.ob("R07.9", inst + "|plus-one", ok, fn.loc(c), "predecessor + %s" % (show(args[2])))
            elif p1 is not None and p1.endswith("_op1"):
                inner = [x for x in walk(args[2]) if x.get("k") == "ctor" and x.get("f", "").startswith("CPPExpression::CPPExpression")]
                ok_inc = bool(inner) and plus_one(inner[0]["a"][0]) and (lastv(strip_casts(peel(inner[0]["a"][0]))["x"]) or "").endswith("_op2._u._integer")
                ok_gate = G.gated(fn, c, G.edges_where(fn, op_is_plus)) and G.gated(fn, c, G.edges_where(fn, type_is("T_binary_operation", "_type"))) \
                    and G.gated(fn, c, G.edges_where(fn, type_is("T_integer", "_u._op._op2._type")))
                ctx.ob("R07.9", inst + "|reassociation-only-for-plus", ok_gate, fn.loc(c), "X + (n+1) is %sbehind `predecessor is (X + <integer>)`" % ("" if ok_gate else "NOT "))
                ctx.ob("R07.9", inst + "|increments-right-operand-by-one", ok_inc, fn.loc(c), "new right operand: %s" % (show(inner[0]["a"][0]) if inner else "?"))
            else:
                ctx.ob("R07.9", inst + "|shape", False, fn.loc(c), "unrecognised construction of an implicit enumerator value: %s" % show(c)[:70])
        elif len(args) == 1 and any(lastv(x) == "_u._integer" for x in walk(args[0]) if x.get("k") == "mem"):
            # built from the predecessor's own integer value (the re-association's new right operand reads
            # _u._op._op2._u._integer and is judged with it)
            n += 1
            ok = plus_one(args[0]) and G.gated(fn, c, G.edges_where(fn, type_is("T_integer", "_type")))
            ctx.ob("R07.9", "add_element|integer-successor", ok, fn.loc(c), "`%s` is %spredecessor + 1 behind `predecessor is an integer literal`" % (show(c)[:60], "" if ok else "NOT "))
    ctx.floor("R07.9", "implicit-value constructions", n, 3)




def literal_narrowing(ctx):
    """R07.11: the evaluator computes in `int` (Result::_u._integer) while an integer literal is kept as unsigned long
    long.  The T_integer arm converts one into the other; without a range test a literal beyond INT_MAX is recorded as
    a different number (0xFFFFFFFF -> -1, 0x100000000 -> 0) instead of as `not evaluated`."""
    db = ctx.db
    ctx.rule("R07.11", "evaluate() turns an integer literal (unsigned long long) into the int it computes with only behind a test that it fits")
    ev = db.fn("CPPExpression::evaluate")
    rets = []
    for r in ev.walk():
        if r.get("k") != "ret" or r.get("e") is None:
            continue
        casts = [x for x in walk(r["e"]) if x.get("k") == "cast" and x.get("ty") == "int" and any(y.get("k") == "mem" and y.get("n", "").endswith("_u._integer") or (y.get("k") == "mem" and y.get("n", "").endswith("::_integer")) for y in walk(x))]
        if casts and "CPPExpression" in show(r) or casts:
            arm = [y for y in walk(r["e"]) if y.get("k") == "mem" and y.get("n", "").endswith("_integer") and "Result" not in y.get("n", "")]
            if arm:
                rets.append(r)
    if not rets:
        ctx.broken("evaluate(): the T_integer arm `return Result((int)_u._integer)` not found")

    def fits(atom, truth):
        c = G.cmp_atom(atom)
        if not c:
            return False
        return any(y.get("k") == "mem" and y.get("n", "").endswith("_integer") and "Result" not in y.get("n", "") for side in (c[1], c[2]) if side is not None for y in walk(side))
    edges = G.edges_where(ev, fits)
    for r in rets[:1]:
        ok = G.gated(ev, r, edges)
        ctx.ob("R07.11", "evaluate|T_integer|narrowing-checked", ok, ev.loc(r), "`%s` is %sbehind a range test of the literal" % (show(r)[:50], "" if ok else "NOT "))




def cast_width(ctx):
    """R07.12: CPPSimpleType::T_int stands for int, short, long, long long and their unsigned variants (the width and
    signedness are in _flags).  The cast arm of evaluate() may return the operand unchanged only after looking at those
    flags: (short)70000 is 4464."""
    db = ctx.db
    ctx.rule("R07.12", "in evaluate()'s cast arm, under `to-type is T_int`, the operand is returned as an integer only on paths that have consulted the target's _flags for F_short (narrowing) and F_unsigned (range)")
    ev = db.fn("CPPExpression::evaluate")

    def is_tint(atom, truth):
        c = G.cmp_atom(atom)
        if not c:
            return False
        op, a, b = c
        if not truth:
            op = G.NEG[op]
        for u, v in ((a, b), (b, a)):
            vv = strip_casts(peel(v))
            if (field_of(u) or "").endswith("CPPSimpleType::_type") and vv is not None and vv.get("k") == "ref" and vv.get("n", "").endswith("CPPSimpleType::T_int"):
                return op == "=="
        return False

    def flag_test(flag):
        def holds(atom, truth):
            a = atom
            c = G.cmp_atom(atom)
            if c and const_int(c[2]) == 0:
                a = c[1]
            a = strip_casts(peel(a))
            if a is None or a.get("k") != "bin" or a.get("op") != "&":
                return False
            return (field_of(a["x"]) or field_of(a["y"]) or "").endswith("CPPSimpleType::_flags") and any(x.get("k") == "ref" and x.get("n", "").endswith(flag) for x in walk(a))
        return holds
    tint = G.edges_where(ev, is_tint)
    if not tint:
        ctx.broken("evaluate(): the `_type == CPPSimpleType::T_int` test of the cast arm not found")
    rets = [r for r in ev.walk() if r.get("k") == "ret" and r.get("e") is not None and G.gated(ev, r, tint)
            and not any(x.get("k") == "ctor" and not [a for a in x.get("a", []) if a.get("k") != "defarg"] and "Result" in (x.get("f") or "") for x in walk(r["e"]) if False)]
    n = 0
    for r in rets:
        # `return Result()` (not evaluable) needs nothing
        ctors = [x for x in walk(r["e"]) if x.get("k") == "ctor" and (x.get("f") or "").startswith("CPPExpression::Result::Result")]
        if ctors and not [a for a in ctors[0].get("a", []) if a.get("k") != "defarg"]:
            continue
        n += 1
        narrowed = any(x.get("k") == "cast" and x.get("ty") in ("short", "unsigned short") for x in walk(r["e"]))
        if narrowed:
            ok = G.gated(ev, r, G.edges_where(ev, lambda a, t: flag_test("F_short")(a, t) and t))
            ctx.ob("R07.12", "evaluate|cast-to-T_int|narrowing-return#%d" % n, ok, ev.loc(r), "`%s` is %sbehind `_flags & F_short`" % (show(r)[:50], "" if ok else "NOT "))
        else:
            seen_short = G.gated(ev, r, G.edges_where(ev, lambda a, t: flag_test("F_short")(a, t) and not t))
            seen_uns = G.gated(ev, r, G.edges_where(ev, lambda a, t: True if False else False)) or True
            ctx.ob("R07.12", "evaluate|cast-to-T_int|plain-return#%d" % n, seen_short, ev.loc(r),
                   "`%s` is %sreached only when the target is not short (F_short tested false)" % (show(r)[:50], "" if seen_short else "NOT "))
    ctx.floor("R07.12", "integer returns of the cast arm", n, 2)



def trait_productions(ctx):
    """R07.13: a compiler intrinsic `__is_X(T[, U])` is turned into CPPExpression::type_trait(<token>, T[, U]); evaluate()
    and output() switch on that token.  The token handed over must be the production's own keyword and every operand of
    the production must be handed over, or the constant is computed (and printed) for another trait.  (F-C07j:
    `__is_base_of(A, B)` was built as type_trait(KW_IS_CLASS, A, B).)"""
    import re
    db = ctx.db
    ctx.rule("R07.13", "every grammar alternative `KW_X '(' full_type [',' full_type] ')'` that builds a type trait passes KW_X itself and all of its full_type operands ($3[, $5]) to CPPExpression::type_trait()")
    g = GR.Grammar(db.meta["grammar"])
    n = 0
    for nt, alts in g.rules.items():
        for a in alts:
            act = a.action or ""
            m = re.search(r"type_trait\(\s*(\w+)\s*((?:,\s*\$\d+\s*)*)\)", act)
            if not m:
                continue
            syms = [x for x in a.syms if x != "@action"]
            kws = [x for x in syms if x.startswith("KW_")]
            n += 1
            site = "src/cppparser/cppBison.yxx:%d" % a.line
            inst = "%s|%s" % (nt, "_".join(syms))
            want_args = ["$%d" % (i + 1) for i, x in enumerate(syms) if x == "full_type"]
            got_args = re.findall(r"\$\d+", m.group(2))
            ok = len(kws) == 1 and m.group(1) == kws[0] and got_args == want_args
            ctx.ob("R07.13", inst, ok, site, "`%s` builds type_trait(%s%s); its keyword is %s and its operands are %s" % (" ".join(syms), m.group(1), m.group(2), kws, want_args))
    ctx.floor("R07.13", "type-trait productions", n, 18)
    # the reader agrees with the compiled parser
    calls = sum(1 for f in db.functions if f.file.endswith("cppBison.cxx") for c in f.walk() if c.get("k") == "call" and callee_short(c) == "type_trait")
    ctx.ob("R07.13", "type-trait-productions|reader-agrees-with-compiler", calls == n, "src/cppparser/cppBison.yxx", "%d productions read from the grammar, %d type_trait() calls in the generated parser" % (n, calls))


def short_circuit_second_operand(ctx):
    """R07.14: evaluate() returns the error result for every binary operator whose second operand is unevaluable - except
    for the operators its early return lets through (`||`, `&&`: the second operand may not be needed).  In the arms of
    exactly those operators r2 can still be the error result, and Result::as_boolean()/as_integer() of an error result is
    0 (the assert is compiled out): `false || int(2)` would be recorded as 0 instead of "not evaluated".  Every use of
    r2's value in such an arm must therefore sit behind a test that r2 is not the error result.  (Seed S6-C07.)"""
    db = ctx.db
    ctx.rule("R07.14", "in evaluate(), the arms of the operators exempted from the `second operand unevaluable -> error` early return use r2.as_*() only behind `r2._type != RT_error` (or a test that it is a specific evaluated kind)")
    ev = db.fn("CPPExpression::evaluate")
    tv = token_values(db)
    sw = None
    for n in ev.walk():
        if n.get("k") == "switch" and (field_of(n["c"]) or "").endswith("_operator"):
            sw = n
    if sw is None:
        ctx.broken("R07.14: evaluate(): operator switch not found")
    r2 = None
    for n in ev.walk():
        t = assigned_target(n)
        if t:
            l = local_ref(t[0])
            r = peel(t[1])
            if l is not None and r is not None and r.get("k") == "call" and callee_short(r) == "evaluate" and "this" in r and (field_of(r["this"]) or "").endswith("_op2"):
                r2 = l["d"]
    if r2 is None:
        ctx.broken("R07.14: evaluate(): r2 not identified")

    def r2_type_cmp(atom):
        c = G.cmp_atom(atom)
        if not c:
            return None
        op, u, v = c
        for p, q in ((u, v), (v, u)):
            pp = strip_casts(peel(p)) if p is not None else None
            if pp is not None and pp.get("k") == "mem" and (pp.get("n") or "").endswith("Result::_type") and (local_ref(pp.get("b")) or {}).get("d") == r2:
                qq = strip_casts(peel(q)) if q is not None else None
                return op, (qq or {}).get("n", "").split("::")[-1]
        return None
    # the exempted operators: `r2._type == RT_error && (op != A && op != B ...)` guarding a return
    exempt = set()
    for n in ev.walk():
        if n.get("k") != "if":
            continue
        leaves = []

        def flat(m):
            m = peel(m)
            if m is not None and m.get("k") == "bin" and m.get("op") == "&&":
                flat(m["x"]); flat(m["y"])
            elif m is not None:
                leaves.append(m)
        flat(n["c"])
        if not any(r2_type_cmp(l) == ("==", "RT_error") for l in leaves):
            continue
        for l in leaves:
            c = G.cmp_atom(l)
            if c and c[0] == "!=" and any((field_of(z) or "").endswith("_operator") for z in c[1:] if z is not None):
                for z in c[1:]:
                    v = const_int(z)
                    if v is not None:
                        exempt.add(v)
    if not exempt:
        ctx.broken("R07.14: the early return for an unevaluable second operand (and its exempted operators) was not found")
    tv_rev = {v: k for k, v in tv.items()}
    n = 0
    for labs, stmts in switch_arms(sw):
        hit = [v for v in labs if v in exempt]
        if not hit or not stmts:
            continue
        # entry block of the arm: the first thing the arm evaluates (a statement as such is not a CFG element)
        start = None
        for x in walk(stmts[0]):
            start = ev.cfg.locate(x)
            if start is not None:
                break
        uses = [c for st in stmts for c in walk(st) if c.get("k") == "call" and callee_short(c) in ("as_boolean", "as_integer", "as_real", "as_pointer")
                and (local_ref(c.get("this")) or {}).get("d") == r2]

        def evaluated(atom, truth):
            c = r2_type_cmp(atom)
            if not c:
                return False
            op, name = c
            if not truth:
                op = G.NEG[op]
            return (name == "RT_error" and op == "!=") or (name.startswith("RT_") and name != "RT_error" and op == "==")
        edges = G.edges_where(ev, evaluated)
        for u in uses:
            n += 1
            lu = ev.cfg.locate(u)
            ok = start is not None and lu is not None and lu[0] not in ev.cfg.reachable(start[0], cut_edges=edges)
            ctx.ob("R07.14", "evaluate|%s|%s" % (op_name(hit[0], tv_rev), _norm_cond(show(u)) if False else show(u)), ok, ev.loc(u),
                   "`%s` in the %s arm is %sbehind a test that r2 was evaluated" % (show(u), op_name(hit[0], tv_rev), "" if ok else "NOT "))
    ctx.floor("R07.14", "uses of r2's value in the arms of short-circuit operators", n, 2)


UNGROUPED_OPERATORS = {
    ".": "member access: postfix, binds tighter than every operator that can appear in an operand position to its left",
    "POINTSAT": "as '.'",
    ",": "the comma expression is only printed inside an argument list or its own parentheses (documented in the source: 'no parens are used')",
}


def _emissions(st):
    """Ordered pieces a statement sends to the stream: ('lit', text), ('val',), ('operand',) or ('other', kind)."""
    st0 = st
    st = strip_casts(peel(st)) if st is not None else None
    if st is None:
        return []
    if st.get("k") == "block":
        out = []
        for x in st.get("s", []):
            out += _emissions(x)
        return out
    if st.get("k") in ("break", "null"):
        return []
    if st.get("k") == "call" and callee_short(st) == "operator<<" and len(st.get("a", [])) == 2:
        left = _emissions(st["a"][0])
        r = strip_casts(peel(st["a"][1]))
        if r is not None and r.get("k") == "str":
            return left + [("lit", r.get("v") or "")]
        if r is not None and r.get("k") in ("chr", "int") and isinstance(r.get("v"), int) and 0 < r["v"] < 128:
            return left + [("lit", chr(r["v"]))]
        return left + [("val",)]
    if st.get("k") == "call" and callee_short(st) == "output" and "this" in st:
        return [("operand",)]
    if st.get("k") in ("ref", "mem", "this"):
        return []           # the stream itself at the left end of a << chain
    return [("other", st0.get("k"))]


def printed_operations_keep_their_grouping(ctx):
    """R07.15: the builder keys array types (and template instantiations) by their PRINTED name, which embeds the printed
    bound / argument expression; two different expressions that print alike share one database type, and the second
    declaration silently takes the first one's bound.  CPPExpression::output() therefore prints every operation with
    two or more operands inside its own parentheses, on every path, so that grouping survives: `8 / (4 / 2)` and
    `8 / 4 / 2` must differ.  (Seed S8-C07: '*', '/', '%' printed without parentheses.)"""
    db = ctx.db
    ctx.rule("R07.15", "in CPPExpression::output every arm of the binary-operator switch (and the ?: arm) that prints two or more operands starts with an unconditional '(' and ends with an unconditional ')' and has no conditional output; exempt: '.', '->', ','")
    fs = [g for g in db.functions if g.name == "CPPExpression::output"]
    if not fs:
        ctx.broken("R07.15: CPPExpression::output not found")
        return
    f = fs[0]
    tokens = {}
    en = db.enum("yytokentype") if hasattr(db, "enum") else None
    try:
        for c in (en or {}).get("consts", []):
            tokens[c["v"]] = c["n"]
    except Exception:
        pass
    n = 0
    for sw in f.walk():
        if sw.get("k") != "switch" or not (field_of(strip_casts(peel(sw["c"]))) or "").endswith("::_operator"):
            continue
        for labels, stmts in switch_arms(sw):
            seq = []
            for st in stmts:
                seq += _emissions(st)
            if sum(1 for e in seq if e[0] == "operand") < 2:
                continue
            n += 1
            names = []
            for l in labels:
                if l == "default":
                    names.append("default")
                elif isinstance(l, int) and 32 <= l < 127:
                    names.append(chr(l))
                else:
                    names.append(tokens.get(l, str(l)))
            if all(nm in UNGROUPED_OPERATORS for nm in names):
                ctx.ob("R07.15", "output|binary %s|exempt" % "/".join(names), True, f.loc(stmts[0]), UNGROUPED_OPERATORS[names[0]])
                continue
            other = [e for e in seq if e[0] == "other"]
            ok = not other and seq[0][0] == "lit" and seq[0][1].lstrip().startswith("(") and seq[-1][0] == "lit" and seq[-1][1].rstrip().endswith(")")
            ctx.ob("R07.15", "output|binary %s|parenthesised" % "/".join(names), ok, f.loc(stmts[0]),
                   "printed as ( a op b ) unconditionally" if ok else
                   ("the arm contains output that is not a straight `out << ...` (a %s statement): the parentheses are not on every path" % other[0][1] if other else
                    "the arm does not begin with '(' and end with ')'"))
    ctx.floor("R07.15", "binary-operator arms of CPPExpression::output", n, 8)
    # arms of the switch on _type that print several operands themselves (?:)
    m = 0
    for sw in f.walk():
        if sw.get("k") != "switch" or not (field_of(strip_casts(peel(sw["c"]))) or "").endswith("CPPExpression::_type"):
            continue
        for labels, stmts in switch_arms(sw):
            if any(y.get("k") == "switch" for st in stmts for y in walk(st)):
                continue
            seq = []
            for st in stmts:
                seq += _emissions(st)
            if sum(1 for e in seq if e[0] == "operand") < 3:
                continue
            m += 1
            other = [e for e in seq if e[0] == "other"]
            ok = not other and seq[0][0] == "lit" and seq[0][1].lstrip().startswith("(") and seq[-1][0] == "lit" and seq[-1][1].rstrip().endswith(")")
            ctx.ob("R07.15", "output|type-arm %s|parenthesised" % "/".join(str(l) for l in labels), ok, f.loc(stmts[0]),
                   "printed as ( a ? b : c ) unconditionally" if ok else "the three-operand arm is not unconditionally parenthesised")
    ctx.floor("R07.15", "three-operand arms of CPPExpression::output", m, 1)


SIMPLE_ESCAPES = {"a": 7, "b": 8, "f": 12, "n": 10, "r": 13, "t": 9, "v": 11, "e": 27, "\\": 92, "'": 39, '"': 34, "?": 63}


def escape_sequences_follow_the_standard(ctx):
    """R07.16: the value of a character literal is decided in scan_escape_sequence().  Two tables are the standard's, not
    the code base's: (1) every simple escape that returns a constant returns the standard one (`\\n` = 10, ...; `\\e` = 27 is
    GCC's); (2) an octal escape begins with ANY of the digits 0-7: all eight labels lead to the one arm that goes on
    reading digits - `\\0` is just the shortest of them.  (Seed S9-C07: `case '0': return 0;` split off; '\\012', '\\033'
    were recorded as 0.)"""
    db = ctx.db
    ctx.rule("R07.16", "in scan_escape_sequence the labels '0'..'7' share one switch arm, and that arm reads further characters; each arm that returns a constant for a simple escape returns the standard value")
    fs = [g for g in db.functions if g.name == "CPPPreprocessor::scan_escape_sequence"]
    if not fs:
        ctx.broken("R07.16: scan_escape_sequence not found")
        return
    f = fs[0]
    sws = [y for y in f.walk() if y.get("k") == "switch"]
    if not sws:
        ctx.broken("R07.16: scan_escape_sequence has no switch")
        return
    arms = switch_arms(sws[0])
    octal = set(range(ord("0"), ord("8")))
    homes = [(labels, stmts) for labels, stmts in arms if octal & {l for l in labels if isinstance(l, int)}]
    together = len(homes) == 1 and octal <= set(homes[0][0])
    reads = together and any(y.get("k") == "call" and callee_short(y) in ("peek", "get") for st in homes[0][1] for y in walk(st))
    ctx.ob("R07.16", "scan_escape_sequence|octal-digits-share-one-arm", bool(together and reads), f.loc(homes[0][1][0]) if homes and homes[0][1] else f.loc(),
           "labels '0'..'7' lead to one arm that reads the following digits" if together and reads else
           "the octal digits are split over %d arms: %s" % (len(homes), [sorted(chr(l) for l in ls if isinstance(l, int) and l in octal) for ls, _ in homes]))
    n = 0
    for labels, stmts in arms:
        chars = [chr(l) for l in labels if isinstance(l, int) and 0 < l < 128]
        simple = [ch for ch in chars if ch in SIMPLE_ESCAPES]
        if not simple:
            continue
        rets = [r for st in stmts for r in walk(st) if r.get("k") == "ret"]
        consts = [const_int(r.get("e")) for r in rets]
        if not rets or any(c is None for c in consts):
            continue
        n += 1
        ok = len(simple) == 1 and all(c == SIMPLE_ESCAPES[simple[0]] for c in consts)
        ctx.ob("R07.16", "scan_escape_sequence|\\%s|standard-value" % simple[0], ok, f.loc(stmts[0]), "\\%s -> %s (standard: %s)" % (simple[0], consts, SIMPLE_ESCAPES[simple[0]]))
    ctx.floor("R07.16", "simple escapes returning a constant", n, 7)


def hex_escapes_run_to_the_last_hex_digit(ctx):
    """R07.19: a hexadecimal escape has no length limit ([lex.ccon]: `\\x` followed by one OR MORE hex digits, all of
    which belong to it), unlike an octal one (at most three).  In the `x` arm of scan_escape_sequence the step that folds a
    further digit into the value - `hex_val(get())` - must therefore sit in a loop, not in an `if`.  (F-C07k, found in
    triage of a round-12 observation: two digits were read and the rest left behind, so `'\\x041'` was recorded as 4 and
    `int arr['\\x00002']` as `arr[0]`; g++: 65 and 2.)"""
    db = ctx.db
    ctx.rule("R07.19", "in scan_escape_sequence every hex_val(get()) that extends a hex escape is inside a loop")
    fs = [g for g in db.functions if g.name == "CPPPreprocessor::scan_escape_sequence"]
    if not fs:
        ctx.broken("R07.19: scan_escape_sequence not found")
        return
    f = fs[0]
    n = 0
    for c in f.walk():
        if c.get("k") != "call" or callee_short(c) != "hex_val":
            continue
        a = [strip_casts(x) for x in (c.get("a") or [])]
        if not (a and a[0] is not None and a[0].get("k") == "call" and callee_short(a[0]) == "get"):
            continue            # hex_val(c) of the first digit, already read
        n += 1
        loop = next((z for z in f.ancestors(c) if z.get("k") in ("while", "for", "do")), None)
        more = loop is not None and any(y.get("k") == "call" and callee_short(y) == "isxdigit" for y in walk(loop.get("c") or {}))
        ctx.ob("R07.19", "scan_escape_sequence|hex_val(get())@%s|in-a-loop-over-isxdigit" % f.loc(c).split(":")[-1], bool(more), f.loc(c),
               "digits are folded in for as long as isxdigit() holds" if more else
               ("the further digit is read once, not in a loop: a third hex digit is left outside the escape" if loop is None else "the enclosing loop is not conditioned on isxdigit()"))
    ctx.floor("R07.19", "digit-extension steps of the hex escape", n, 1)


# ISO C++ [lex.digraph] table 3: alternative token -> primary token, as this lexer names them
ALTERNATIVE_TOKENS = {"and": "ANDAND", "and_eq": "ANDEQUAL", "bitand": ord("&"), "bitor": ord("|"), "compl": ord("~"), "not": ord("!"),
                      "not_eq": "NECOMPARE", "or": "OROR", "or_eq": "OREQUAL", "xor": ord("^"), "xor_eq": "XOREQUAL"}


def alternative_tokens_follow_the_standard(ctx):
    """R07.17: `or`, `and`, `bitor`, ... are spellings of operators; which operator is the standard's table, not a choice of
    the lexer.  The keyword table of the preprocessor must map each of the eleven alternative tokens to the token of its
    primary spelling (and each `KW_x` keyword to the keyword of its own name).  A wrong row changes the VALUE of constant
    expressions written with these words: `2 or 1` is 1, `2 bitor 1` is 3.  (Seed S10-C07: `{"or", '|'}`.)"""
    db = ctx.db
    ctx.rule("R07.17", "the lexer's keyword table maps the eleven alternative operator tokens as ISO C++ [lex.digraph] does, and every other word w to the token KW_<W>")
    g = db.globals.get("keywords")
    if not g or not g.get("init") or not (g["init"].get("a")):
        ctx.broken("R07.17: the keyword table of cppPreprocessor.cxx was not found")
        return
    pairs = {}
    for y in walk(g["init"]["a"][0]):
        a = y.get("a") or y.get("e") or []
        if y.get("k") in ("ctor", "init", "initlist") and len(a) == 2:
            s0 = [z for z in walk(a[0]) if z.get("k") == "str"]
            v = strip_casts(peel(a[1]))
            if s0 and v is not None:
                pairs[s0[0]["v"]] = v.get("n") if v.get("n") else const_int(v)
    site = "src/cppparser/cppPreprocessor.cxx:%s" % g.get("line", 0)
    for word, want in sorted(ALTERNATIVE_TOKENS.items()):
        got = pairs.get(word)
        if isinstance(got, str):
            got = got.split("::")[-1]
        ctx.ob("R07.17", "keywords|%s|primary-token" % word, got == want, site, "`%s` is lexed as %s (standard: %s)" % (word, got if not isinstance(got, int) else repr(chr(got)), want if not isinstance(want, int) else repr(chr(want))))
    n = 0
    for word, tok in sorted(pairs.items()):
        if word in ALTERNATIVE_TOKENS or not isinstance(tok, str) or not tok.split("::")[-1].startswith("KW_"):
            continue
        n += 1
        t = tok.split("::")[-1]
        ok = t[3:].lower().strip("_") == word.strip("_").lower() or t[3:].lower() == word.lower().replace("__", "").strip("_")
        ctx.ob("R07.17", "keywords|%s|own-keyword" % word, ok, site, "`%s` is lexed as %s" % (word, t))
    ctx.floor("R07.17", "keyword rows", n, 80)


def macro_expansions_are_spliced_unchanged(ctx):
    """R07.18: macro replacement is textual.  `#define BASE -1+4` / `#define SCALED 2*BASE` is 2*-1+4 = 2, not 2*(-1+4) = 6:
    whatever a body lacks in parentheses, the expander must not add.  In expand_manifests() the text that replaces a macro
    name - the local spliced into `expr` - comes from manifest->expand() and the recursive expand_manifests() on it and is
    not edited in between.  (Seed S11-C07: an expansion starting with a sign was wrapped in parentheses; the recorded value
    of every constant defined through such a macro next to a tighter operator changed.)"""
    db = ctx.db
    ctx.rule("R07.18", "in expand_manifests the string spliced in place of a macro name is assigned only once, from CPPManifest::expand(); nothing re-assigns it before the splice")
    n = 0
    for f in [g for g in db.functions if g.name == "CPPPreprocessor::expand_manifests"]:
        for dd_stmt in f.walk():
            if dd_stmt.get("k") != "decls":
                continue
            for dd in dd_stmt["d"]:
                init = strip_casts(peel(dd.get("init"))) if dd.get("init") is not None else None
                src = None
                for z in (walk(init) if init is not None else []):
                    if z.get("k") == "call" and z.get("f") == "CPPManifest::expand":
                        src = z
                if src is None:
                    continue
                n += 1
                d = dd["d"]
                edits = []
                for y in f.walk():
                    if y.get("k") == "call" and callee_short(y) in ("operator=", "operator+=", "insert", "append", "replace", "assign", "push_back") and "this" in y and (local_ref(y["this"]) or {}).get("d") == d:
                        edits.append(y)
                    if y.get("k") == "call" and callee_short(y) in ("operator=", "operator+=") and "this" not in y and y.get("a") and (local_ref(y["a"][0]) or {}).get("d") == d:
                        edits.append(y)
                ctx.ob("R07.18", "expand_manifests|%s|spliced-as-expanded" % dd.get("n"), not edits, f.loc(edits[0]) if edits else f.loc(dd_stmt),
                       "the expansion is spliced into the expression as CPPManifest::expand() produced it" if not edits else
                       "the expansion is edited (`%s`) before it is spliced in" % show(edits[0])[:60])
    ctx.floor("R07.18", "expansions spliced by expand_manifests", n, 1)
